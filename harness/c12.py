"""C12 -- plates are observed atomically; revealing is exact, monotone, value-preserving.

Random histories of mask_screen / unmask_screen / reveal_plates / save_h5+load_h5 / `reveal_plate.main()` on real
screens with 1-8 plates.  After every step the implementation's screen is judged by independent predicates (plate
uniformity, exact + monotone reveal, untouched rows / plate assignment / observation bits / ids / mappings, refusals,
plate counters incl. `extract_screen_metadata.main()` on the saved file) and its canonical text is compared with the
trace of the Lean model (`hist` of lean/Batchie/Model/RetroIO.lean).  Two more streams: the constructor's treatment of
masks (`mkscreen`) and `Screen.set_observed` (`setobs`)."""
import contextlib
import itertools
import json
import logging
import os
import shutil
import sys
import tempfile

import numpy as np

from vlib import common
from harness import screens as S
from harness.c02 import (LAYOUTS, NAN_BITS, attrs_snapshot, build_layout, first_diff, show_stage, unobserved_counts,
                         whitespace_rename)
from harness.c02 import observables as _observables

common.use_repo_sources()

RULE = ("histories: screens with 1-8 plates (1..14 rows quick, ..40 thorough; every plate non-empty when rows allow; per plate the "
        "stored values are ordinary (mostly non-zero, single zeros mixed in), all 0.0/-0.0, or contain a NaN bit pattern; "
        "plate-uniform mask / all hidden / no mask; 25% with a mapping batchie made for a superset), then 1..8 (thorough ..20) "
        "steps chosen while running from: m mask_screen, u unmask_screen, s save_h5+load_h5, r reveal_plates, c reveal_plate.main() "
        "on a saved file (model: s+r+s), reveal requests mixing hidden, already observed, repeated, unknown (99, -1, n_plates, 10^6) "
        "ids, all-zero / NaN plates, only-unknown and empty lists; extract_screen_metadata.main() on the saved screen before/after half (thorough: 35%) of the "
        "reveals (always in replay), at a third of that rate at other steps and at the end; a refused reveal ends the history sent to the model, "
        "the run continues from the unchanged screen as a further history; exhaustive part: every subset of plate ids from a masked screen (<= 5 plates), "
        "every pair of subsets for <= 3 plates.  constructor stream: mixed plate / observations without mask / nothing / mask "
        "without observations / valid uniform mask.  set_observed stream: random selections (right, wrong length), values of "
        "length count / 1 / wrong.  combine stream: Screen.combine / Screen.concat of 1-3 screens over a shared pool of plate names, each part "
        "wholly observed or wholly masked (an observed and a masked screen sharing a plate name must be refused, also when the "
        "plate's rows are interleaved with other plates), one status per plate across parts, or random; other control name / arity; "
        "inputs snapshotted and compared.  Non-trivial history: >= 2 plates and a successful reveal that newly reveals a plate "
        "while another plate stays hidden.  Entry points (class.entry-point.*): reveal_plate.main() (12% of the reveals + corpus; the plate ids REACHING reveal_plates are recorded "
        "and must be the requested set, id 0 included; the output file is judged like a library reveal) and extract_screen_metadata.main() "
        "(counters of the json it writes).  class.verbose-logging: every 7th case of every stream and a quarter of the NaN corpus run under "
        "vlib.common.verbose_logging(), CLI mains with --verbose (replay re-enters it).  Fixed corpus first: NaN/zero guards (plate with ONE NaN well, all-NaN plate, all-zero plate, alone and together with finite plates, "
        "library and CLI; three requests through the CLI in another interpreter).  Hardening classes (class.*): 30% non-C / read-only layouts, "
        "plate ids as list / np.int64 / ndarray / tuple, 10% plate names >= 25 chars, 8% with 11-13 plates named plate_<k>; every snapshot holds "
        "all instance attributes found by introspection.  Non-mutation (aliasing) clause: every screen object is snapshotted before an "
        "operation and compared after it, every screen of the chain is compared again at the end of the history and (half of the "
        "histories) with the h5 copy saved when it was created; histories BRANCH: at 45% of the library reveals a second, different "
        "reveal request is first executed on the SAME screen object and judged on its own (observed-before plus that request only, "
        "counter drop of that branch), and after half of the histories an EARLIER screen of the chain is revealed again; all "
        "branches go to the model as histories of their own (signature C12:input-mutated).")

TAME_DOSES = [0.0, -0.0, 1.0, 2.5, 0.1, 3.0, 10.0, -1.0]
NONZERO = [1.0, 0.5, 0.25, 0.75, 1e-300, 0.3333333333333333, 0.9, 0.1, 2.0, -1.5, 5e-324, 0.7000000000000001]
UNKNOWN_IDS = [99, -1, 1000000]

SIG_UNIFORM = "C12:plate-partly-observed"
SIG_HIDES = "C12:reveal-hides"
SIG_EXACT = "C12:reveal-not-exact"
SIG_CHANGED = "C12:step-changes-screen"
SIG_DROP = "C12:counter-drop"
SIG_META = "C12:metadata-counters"
SIG_ACCEPT_ZERO = "C12:reveal-accepts-all-zero"
SIG_ACCEPT_NAN = "C12:reveal-accepts-nan"
SIG_REFUSE = "C12:reveal-refuses-good-plates"
SIG_RAISES = "C12:step-raises"
SIG_MASK = "C12:mask-unmask-result"
SIG_CLI = "C12:cli-differs-from-library"
SIG_CTOR_MIXED = "C12:ctor-accepts-mixed-plate"
SIG_CTOR = "C12:ctor-defaults"
SIG_SETOBS = "C12:set-observed"
SIG_INPUT = "C12:input-mutated"
SIG_COMBINE = "C12:combine-result"


# ------------------------------------------------------------------------------------------------
# small independent helpers (the oracles work on bit patterns and python lists, not on numpy)
# ------------------------------------------------------------------------------------------------

def observables(s):
    """the named observables plus EVERY instance attribute found by introspection (vars()), the mask attribute apart: whatever a
    step may not change is compared without relying on a hand-written list of fields"""
    d = _observables(s)
    a = attrs_snapshot(s)
    a.pop("_observation_mask", None)
    d["attributes_by_introspection"] = a
    return d


def conv_ids(ids, how):
    """the same plate ids as another container / integer type"""
    if how == "np.int64-list":
        return [np.int64(i) for i in ids]
    if how == "np.array":
        return np.array(ids, dtype=np.int64)
    if how == "tuple":
        return tuple(ids)
    return list(ids)


def is_nan_bits(b):
    return (b >> 52) & 0x7FF == 0x7FF and (b & ((1 << 52) - 1)) != 0


def is_zero_bits(b):
    return b == 0 or b == 1 << 63


def parse_ids(arg):
    return [] if arg == "-" else [int(x) for x in arg.split(",")]


def ids_tok(ids):
    return S.lst(str(int(i)) for i in ids)


def raw_with_bits(case):
    """NaN payloads do not survive JSON: the case keeps the bit patterns next to the floats"""
    raw = dict(case["raw"])
    if case.get("obs_bits") is not None:
        raw["obs"] = [S.from_bits(b) for b in case["obs_bits"]]
    return raw


def obs_bits_list(raw):
    return None if raw["obs"] is None else [S.bits(x) for x in raw["obs"]]


def groups(keys, mask):
    d = {}
    for k, m in zip(keys, mask):
        d.setdefault(k, []).append(m)
    return d


def observed_set(keys, mask):
    return set(k for k, v in groups(keys, mask).items() if all(v))


def n_unobserved(snap):
    """independent recount: plates (by name) that are not wholly observed"""
    return sum(1 for v in groups(snap["plate_names"], snap["observation_mask"]).values() if not all(v))


def check_uniform(res, case, snap, where):
    ok = True
    for key in ("plate_names", "plate_ids"):
        for p, v in groups(snap[key], snap["observation_mask"]).items():
            if any(v) and not all(v):
                res.fail("a plate is partly observed " + where, case, {"by": key, "plate": p, "mask_of_plate": v},
                         "every plate wholly observed or wholly unobserved", signature=SIG_UNIFORM)
                ok = False
                break
    return ok


def check_unchanged(res, case, before, after, what, with_mask):
    for k in before:
        if k == "observation_mask" and not with_mask:
            continue
        if before[k] != after[k]:
            res.fail(what, case, {"field": k, "after": after[k]}, {"field": k, "before": before[k]}, signature=SIG_CHANGED)
            return False
    return True


VERBOSE = [False]          # set while a case runs under vlib.common.verbose_logging(): the CLI mains then get --verbose


@contextlib.contextmanager
def maybe_verbose(case):
    """cases with "verbose": true run the way every command runs under -v/--verbose (replay re-enters this)"""
    if case.get("verbose") and not VERBOSE[0]:
        with common.verbose_logging():
            VERBOSE[0] = True
            try:
                yield
            finally:
                VERBOSE[0] = False
    else:
        yield


def verbose_aware(fn):
    import functools

    @functools.wraps(fn)
    def wrapped(case, *a, **kw):
        with maybe_verbose(case):
            return fn(case, *a, **kw)
    return wrapped


def run_cli(mod, argv):
    import io
    lg = logging.getLogger("batchie")           # configure_logging adds a handler and resets the level on every call
    handlers, level = list(lg.handlers), lg.level
    old, old_err = sys.argv, sys.stderr
    sys.argv = list(argv) + (["--verbose"] if VERBOSE[0] else [])
    sys.stderr = io.StringIO()
    try:
        mod.main()
    except SystemExit as e:                     # argparse refused the command line
        raise RuntimeError("command line rejected (exit %s)" % (e.code,))
    finally:
        sys.argv, sys.stderr = old, old_err
        lg.handlers[:] = handlers
        lg.setLevel(level)


def metadata(s, tmp):
    """extract_screen_metadata.main() on the saved screen"""
    from batchie.cli import extract_screen_metadata
    fn = os.path.join(tmp, "meta_in.h5")
    out = os.path.join(tmp, "meta.json")
    if os.path.exists(out):
        os.remove(out)
    s.save_h5(fn)
    run_cli(extract_screen_metadata, ["extract_screen_metadata", "--screen", fn, "--output", out])
    metadata.calls += 1
    with open(out) as f:
        return json.load(f)


metadata.calls = 0


def check_meta(res, case, s, snap, meta):
    names = set(snap["plate_names"])
    n_un = n_unobserved(snap)
    want = {"n_unobserved_plates": n_un}           # the counter the text speaks of; the others are compared through the stage string
    if not isinstance(meta, dict) or any(k not in meta for k in want):
        # the harness's knowledge of the json's key names is part of the tie, not an oracle
        res.count("layout.unexpected")
        if res.distribution.get("layout.unexpected", 0) <= 3:
            res.disagree("C12:metadata-json-layout", {"what": "screen_metadata.json has no key n_unobserved_plates"}, str(meta)[:300], str(sorted(want)))
        return True
    got = {k: meta.get(k) for k in want}
    if got != want:
        res.fail("screen_metadata.json counters differ from a recount of the screen", case, got, want, signature=SIG_META)
        return False
    un, ob = unobserved_counts(s)
    if un != want["n_unobserved_plates"]:
        res.fail("the in-memory count of unobserved plates differs from a recount of the screen", case, un, want, signature=SIG_META)
        return False
    return True


# ------------------------------------------------------------------------------------------------
# generators
# ------------------------------------------------------------------------------------------------

def gen_base(rng, n_max, k_plates):
    """rows / names / doses from the shared generator (>= 1 row), plates assigned here"""
    while True:
        raw = S.gen_raw(rng, n_max=n_max, n_plates=k_plates, doses=rng.sample(TAME_DOSES, rng.randint(2, 5)))
        n = len(raw["snames"])
        if n >= 1 and (n >= k_plates or rng.random() < 0.25):
            break
    n = len(raw["snames"])
    ppool = rng.sample(S.NAME_POOL, k_plates)
    pn = [rng.choice(ppool) for _ in range(n)]
    if n >= k_plates:                       # every plate present
        idx = rng.sample(range(n), k_plates)
        for i, p in zip(idx, ppool):
            pn[i] = p
    raw["pnames"] = pn
    return raw


def fill_observations(rng, raw):
    """per plate: ordinary values, all zero, or containing NaN"""
    kinds = {}
    for p in sorted(set(raw["pnames"])):
        x = rng.random()
        kinds[p] = "zero" if x < 0.14 else "nan" if x < 0.26 else "nanzero" if x < 0.29 else "plain"
    obs = []
    for p in raw["pnames"]:
        k = kinds[p]
        if k == "zero":
            obs.append(rng.choice([0.0, -0.0, 0.0]))
        elif k == "nanzero":
            obs.append(0.0)
        else:
            obs.append(rng.choice([0.0, -0.0]) if rng.random() < 0.15 else rng.choice(NONZERO))
    for p, k in kinds.items():
        if k in ("nan", "nanzero"):
            rows = [i for i, q in enumerate(raw["pnames"]) if q == p]
            for i in rng.sample(rows, 1 if rng.random() < 0.7 else min(2, len(rows))):
                obs[i] = S.from_bits(rng.choice(NAN_BITS))
    raw["obs"] = obs
    return kinds


def gen_hist_raw(rng, n_max, k_plates=None, mask_mode=None):
    k = k_plates if k_plates is not None else rng.choice([1, 2, 2, 3, 3, 4, 4, 5, 6, 7, 8])
    raw = gen_base(rng, max(n_max, k + 1), k)
    fill_observations(rng, raw)
    x = rng.random() if mask_mode is None else mask_mode
    if x < 0.15:
        raw["mask"] = None
    elif x < 0.45:
        raw["mask"] = [False] * len(raw["pnames"])
    else:
        st = {p: rng.random() < 0.4 for p in sorted(set(raw["pnames"]))}
        raw["mask"] = [st[p] for p in raw["pnames"]]
    kind = "fresh"
    if rng.random() < 0.25:
        try:
            raw["tmap"], raw["smap"] = S.superset_mappings(rng, raw)
            kind = "superset-mapping"
        except Exception:
            raw["tmap"] = raw["smap"] = None
    return raw, kind


def rename_plates(raw, f):
    """injective renaming of the plate names (plate ids follow the sort order of the NEW names)"""
    names = sorted(set(raw["pnames"]))
    ren = {p: f(i, p) for i, p in enumerate(names)}
    raw["pnames"] = [ren[p] for p in raw["pnames"]]
    return raw


def nan_corpus():
    """fixed corpus for the NaN / zero guards: plate `a_finite` (finite values), `b_one_nan` (three wells, ONE NaN), `c_all_nan`
    (every well NaN), `d_zero` (all 0.0 / -0.0), `e_finite`; rows of the plates interleaved.  Requests whose stored values contain
    SOME NaN (a single NaN well; an all-NaN plate together with a finite plate) must be refused, by the library and by the CLI."""
    pn = ["a_finite", "b_one_nan", "c_all_nan", "a_finite", "d_zero", "b_one_nan", "e_finite", "c_all_nan", "b_one_nan", "d_zero", "e_finite"]
    nan = S.from_bits(NAN_BITS[0])
    obs = [0.5, 0.25, nan, 0.75, 0.0, nan, 0.9, S.from_bits(NAN_BITS[2]), 0.1, -0.0, 0.3333333333333333]
    n = len(pn)
    raw = dict(ctrl="control", arity=2, tnames=[["a", "b"] if i % 2 else ["b", "control"] for i in range(n)],
               tdoses=[[1.0, 2.5] if i % 3 else [0.1, 0.0] for i in range(n)], snames=["s%d" % (i % 3) for i in range(n)], pnames=pn,
               obs=obs, mask=[False] * n, tmap=None, smap=None)
    reqs = ["1", "2", "1,0", "2,0", "0,2,4", "1,2", "3", "3,1", "4,0,1", "0", "0,4", "3,0"]     # ids: a=0 b=1 c=2 d=3 e=4
    out = []
    for r in reqs:
        for kind in "rc":
            out.append({"kind": "hist", "raw": raw, "obs_bits": obs_bits_list(raw), "ops": [kind + r], "corpus": "nan-guard"})
    # after a good reveal the NaN plates are still refused, a finite one still accepted
    out.append({"kind": "hist", "raw": raw, "obs_bits": obs_bits_list(raw), "ops": ["r0", "s", "r4", "c1"], "corpus": "nan-guard"})
    return out


def cli_in_other_process(tmp, raw, ids, hashseed):
    """reveal_plate.main() in ANOTHER interpreter (other PYTHONHASHSEED); returns ('ok', observables) or ('err', text)"""
    import subprocess
    from batchie.data import Screen
    fin, fout = os.path.join(tmp, "xp_in.h5"), os.path.join(tmp, "xp_out.h5")
    if os.path.exists(fout):
        os.remove(fout)
    S.build(raw).save_h5(fin)
    code = ("import sys; sys.path.insert(0, %r); sys.argv = ['reveal_plate', '--screen', %r, '--output', %r, '--plate-id'] + %r; "
            "from batchie.cli import reveal_plate; reveal_plate.main()" % (os.path.join(common.REPO, "src"), fin, fout, [str(i) for i in ids]))
    p = subprocess.run([sys.executable, "-c", code], env=dict(os.environ, PYTHONHASHSEED=str(hashseed)), stdout=subprocess.PIPE,
                       stderr=subprocess.PIPE, text=True, timeout=300)
    if p.returncode != 0 or not os.path.exists(fout):
        last = [l for l in p.stderr.strip().splitlines() if l.strip()]
        return "err", (last[-1] if last else "exit %d" % p.returncode)
    return "ok", observables(Screen.load_h5(fout))


def choose_op(rng, snap):
    """next step, chosen from the current state so that reveals are mostly meaningful"""
    pids = sorted(set(snap["plate_ids"]))
    vals = groups(snap["plate_ids"], snap["observations"])
    obs = observed_set(snap["plate_ids"], snap["observation_mask"])
    good = [p for p in pids if not all(is_zero_bits(b) for b in vals[p]) and not any(is_nan_bits(b) for b in vals[p])]
    bad = [p for p in pids if p not in good]
    hidden_good = [p for p in good if p not in obs]
    unknown = UNKNOWN_IDS + [len(pids)]
    x = rng.random()
    if x < 0.10:
        return "m"
    if x < 0.16:
        return "u"
    if x < 0.28:
        return "s"
    kind = "c" if rng.random() < 0.12 else "r"
    mode = rng.random()
    if mode < 0.55 and hidden_good:
        ids = rng.sample(hidden_good, rng.randint(1, min(3, len(hidden_good))))
        if rng.random() < 0.35:
            ids.append(rng.choice(pids))
        if rng.random() < 0.3:
            ids.append(rng.choice(unknown))
        if rng.random() < 0.3:
            ids.append(rng.choice(ids))
        rng.shuffle(ids)
    elif mode < 0.80:
        pool = pids + good + good + unknown
        ids = [rng.choice(pool) for _ in range(rng.randint(1, 5))]
    elif mode < 0.91:
        ids = [rng.choice(bad)] if bad else [rng.choice(unknown)]
        if rng.random() < 0.3 and bad:
            ids.append(rng.choice(bad))
        if rng.random() < 0.2:
            ids.append(rng.choice(unknown))
    elif mode < 0.96 or kind == "c":
        ids = [rng.choice(unknown) for _ in range(rng.randint(1, 2))]
    else:
        ids = []
    return kind + ids_tok(ids)


# ------------------------------------------------------------------------------------------------
# histories
# ------------------------------------------------------------------------------------------------

def choose_reveal(rng, snap):
    """a library reveal request (used for branches: a second call on the same screen object)"""
    for _ in range(20):
        op = choose_op(rng, snap)
        if op[0] == "r":
            return op[1:]
    return "-"


def check_input(res, case, obj, snap, what):
    """the non-mutation clause: the screen object an operation was called on is bit-identical afterwards"""
    try:
        now = observables(obj)
    except Exception as e:
        res.fail("%s leaves the screen it was called on unreadable" % what, case, "%s: %s" % (type(e).__name__, e),
                 "the input screen unchanged", signature=SIG_INPUT)
        return False
    d = first_diff(snap, now)
    if d is not None:
        res.fail("%s modifies the screen it was called on" % what, case, {"field": d[0], "input_after": d[2]},
                 {"field": d[0], "input_before": d[1]}, signature=SIG_INPUT)
        return False
    return True


def save_load(s, tmp, name="step.h5"):
    from batchie.data import Screen
    fn = os.path.join(tmp, name)
    s.save_h5(fn)
    return Screen.load_h5(fn)


def model_ops(ops):
    out = []
    for op in ops:
        if op[0] == "c":
            out += ["s", "r" + op[1:], "s"]
        else:
            out.append(op)
    return S.lst(out, "+")


def judge_reveal(res, case, before, ids, after, exc, via):
    """the reveal clauses of the property; returns the number of newly revealed plates (None when refused / failed)"""
    existing = set(before["plate_ids"])
    req = set(ids) & existing
    sel = [p in req for p in before["plate_ids"]]
    vals = [b for b, t in zip(before["observations"], sel) if t]
    # the text: "revealing refuses plates whose stored values are all zero or contain NaN".  HOW it refuses (the error class) and
    # what happens to a request that names no plate of the screen (refusal or nothing revealed) is not stated: tie only
    all_zero = bool(vals) and all(is_zero_bits(b) for b in vals)
    has_nan = any(is_nan_bits(b) for b in vals)
    if exc is not None:
        if vals and not (all_zero or has_nan):
            res.fail("%s refuses plates whose stored values are neither all zero nor contain NaN" % via, case,
                     "%s: %s" % (type(exc).__name__, exc), {"requested": sorted(ids), "values_bits": vals[:20]}, signature=SIG_REFUSE)
        return None
    if has_nan:
        res.fail("%s reveals plates whose stored values contain NaN" % via, case, "no error",
                 {"required": "ValueError", "requested": sorted(ids), "values_bits": vals[:20]}, signature=SIG_ACCEPT_NAN)
        return None
    if all_zero:
        res.fail("%s reveals plates whose stored values are all zero (or selects nothing)" % via, case, "no error",
                 {"required": "ValueError", "requested": sorted(ids), "values_bits": vals[:20]}, signature=SIG_ACCEPT_ZERO)
        return None
    bm, am = before["observation_mask"], after["observation_mask"]
    hidden = [i for i, (x, y) in enumerate(zip(bm, am)) if x and not y]
    if len(am) != len(bm) or hidden:
        res.fail("%s hides experiments that were observed" % via, case, {"rows_hidden": hidden, "mask_after": am},
                 {"mask_before": bm, "requested": sorted(ids)}, signature=SIG_HIDES)
        return None
    if not check_unchanged(res, case, before, after, "%s changes rows / plate assignment / observation values / ids / mappings" % via, False):
        return None
    ob_before = observed_set(before["plate_ids"], bm)
    ob_after = observed_set(after["plate_ids"], am)
    if ob_after != ob_before | req or am != [x or t for x, t in zip(bm, sel)]:
        res.fail("%s does not make exactly the requested plates (plus the already observed ones) observed" % via, case,
                 {"observed_after": sorted(ob_after), "mask_after": am},
                 {"observed_before": sorted(ob_before), "requested_existing": sorted(req), "mask_before": bm}, signature=SIG_EXACT)
        return None
    newly = len(req - ob_before)
    drop = n_unobserved(before) - n_unobserved(after)
    if drop != newly:
        res.fail("the number of unobserved plates does not drop by the number of newly revealed plates", case,
                 {"drop": drop, "source": "recount"}, {"newly_revealed": newly}, signature=SIG_DROP)
    return newly


@verbose_aware
def run_history(case, tmp, res, rng=None, n_steps=0, meta_p=0.5):
    """execute a history on the real code, judging every stage.  With `rng` the steps are chosen while running and
    appended to case['ops']; otherwise case['ops'] is replayed.  Returns (impl trace, info)."""
    from batchie.cli import reveal_plate
    from batchie.data import Screen
    from batchie.retrospective import mask_screen, reveal_plates, unmask_screen
    info = {"newly": 0, "nontrivial": False, "failed_before": len(res.oracle_failures), "segments": []}
    attempts = 0
    raw = raw_with_bits(case)
    ops = case["ops"]
    branches = case.setdefault("branches", {})     # step index -> ids of an extra reveal on the SAME input object
    chain = []                                     # every screen object of the history with its snapshot
    keep_files = True if rng is None else rng.random() < 0.5

    def at(k):
        c = dict(case)
        c["ops"] = list(ops[:k + 1]) if k >= 0 else []
        c["step"] = k
        c["branches"] = {kk: v for kk, v in branches.items() if int(kk) <= k}
        c.pop("late", None)
        return c

    def remember(obj, snap_, tlen, olen):
        fn = None
        if keep_files and len(snap_["sample_names"]) > 0:
            fn = os.path.join(tmp, "chain_%d.h5" % len(chain))
            try:
                obj.save_h5(fn)
            except Exception:
                fn = None
        chain.append({"obj": obj, "snap": snap_, "tlen": tlen, "olen": olen, "file": fn})

    ids_as = case.get("ids_as", "list")
    try:
        cur = build_layout(raw, case.get("layout", "c"))
    except Exception as e:
        res.fail("constructor raises on a valid screen", at(-1), "%s: %s" % (type(e).__name__, e), "a screen", signature=SIG_RAISES)
        return [S.err_tok(e)], info
    trace = [show_stage(cur)]
    snap = observables(cur)
    if raw["obs"] is not None and snap["observations"] != [S.bits(x) for x in raw["obs"]]:
        res.fail("constructor changes observation values", at(-1), snap["observations"], [S.bits(x) for x in raw["obs"]], signature=SIG_CTOR)
    check_uniform(res, at(-1), snap, "after construction")
    remember(cur, snap, 1, 0)
    meta = None
    k = 0
    while True:
        if rng is not None:
            if attempts >= n_steps:
                break
            attempts += 1
            ops.append(choose_op(rng, snap))
        elif k >= len(ops):
            break
        op = ops[k]
        kind = op[0]
        c = at(k)
        res.count("op." + kind)
        exc = None
        new = None
        stages = []
        if rng is None:
            want_meta = True
        else:
            want_meta = attempts == n_steps or rng.random() < (meta_p if kind in "rc" else meta_p / 3)
        if kind in "rc" and want_meta and meta is None:
            try:
                meta = metadata(cur, tmp)
                check_meta(res, at(k - 1), cur, snap, meta)
                res.count("metadata-cli")
            except Exception as e:
                res.fail("extract_screen_metadata fails on a saved screen", at(k - 1), "%s: %s" % (type(e).__name__, e), "counters", signature=SIG_RAISES)
        # ---- branch: another reveal on the SAME screen object, before the step itself ------------
        if kind == "r":
            if rng is not None and rng.random() < 0.45:
                branches[str(k)] = choose_reveal(rng, snap)
                c = at(k)
            if str(k) in branches:
                bids = parse_ids(branches[str(k)])
                bexc = bnew = bafter = None
                try:
                    bnew = reveal_plates(cur, conv_ids(bids, ids_as))
                    bafter = observables(bnew)
                except Exception as e:
                    bexc = e
                res.count("branch.reveal-on-same-object")
                judge_reveal(res, c, snap, bids, bafter, bexc, "reveal_plates (first of two calls on the same screen object)")
                check_input(res, c, cur, snap, "reveal_plates")
                info["segments"].append((list(ops[:k]) + ["r" + branches[str(k)]],
                                         trace + [S.err_tok(bexc) if bexc is not None else show_stage(bnew)], "branch"))
        try:
            if kind == "m":
                new = mask_screen(cur)
            elif kind == "u":
                new = unmask_screen(cur)
            elif kind == "s":
                new = save_load(cur, tmp)
            elif kind == "r":
                new = reveal_plates(cur, conv_ids(parse_ids(op[1:]), ids_as))
            elif kind == "c":
                ids = parse_ids(op[1:])
                # library path, stage by stage (what the model's s+r+s describes)
                lib_exc = None
                lib = None
                try:
                    t1 = save_load(cur, tmp, "lib1.h5")
                    stages.append(show_stage(t1))
                    t2 = reveal_plates(t1, ids)
                    stages.append(show_stage(t2))
                    lib = save_load(t2, tmp, "lib2.h5")
                except Exception as e:
                    lib_exc = e
                fin, fout = os.path.join(tmp, "cli_in.h5"), os.path.join(tmp, "cli_out.h5")
                if os.path.exists(fout):
                    os.remove(fout)
                cur.save_h5(fin)
                cli_exc = None
                received = []
                real_reveal = reveal_plate.reveal_plates

                def spy(*args_, _real=real_reveal, _rec=received, **kwargs_):
                    # signature-agnostic: forwarded exactly as it came; the plate ids are found by binding
                    try:
                        import inspect
                        _rec.append([int(i) for i in inspect.signature(_real).bind(*args_, **kwargs_).arguments["plate_ids"]])
                    except Exception as e_:
                        _rec.append(None)
                        res.count("wrapper.unexpected-call")
                        if res.distribution.get("wrapper.unexpected-call", 0) <= 3:
                            res.disagree("C12:harness-wrapper", {"wrapper": "reveal_plates recorder"}, "%s: %s" % (type(e_).__name__, e_),
                                         "a call with an argument named plate_ids")
                    return _real(*args_, **kwargs_)
                reveal_plate.reveal_plates = spy
                try:
                    run_cli(reveal_plate, ["reveal_plate", "--screen", fin, "--output", fout, "--plate-id"] + [str(i) for i in ids])
                    new = Screen.load_h5(fout)
                except Exception as e:
                    cli_exc = e
                finally:
                    reveal_plate.reveal_plates = real_reveal
                res.count("class.entry-point.reveal_plate")
                # what the core RECEIVES: the requested plates (as a set: order / repetition are the glue's business), id 0 included
                existing_ = set(snap["plate_ids"])
                if received and received[0] is not None and set(received[0]) & existing_ != set(ids) & existing_:
                    res.fail("the plate ids reaching reveal_plates from reveal_plate.main() are not the plates named on the command line", c,
                             {"received": received[0]}, {"--plate-id": ids}, signature=SIG_CLI)
                a = S.err_tok(lib_exc) if lib_exc is not None else show_stage(lib)
                b = S.err_tok(cli_exc) if cli_exc is not None else show_stage(new)
                if a != b:
                    res.fail("reveal_plate.main() differs from load_h5 + reveal_plates + save_h5", c, b[:600], a[:600], signature=SIG_CLI)
                if cli_exc is not None:
                    raise cli_exc
            else:
                raise RuntimeError("unknown op " + op)
        except Exception as e:
            exc = e
        after = None
        if exc is None:
            try:
                after = observables(new)
            except Exception as e:
                exc = e
        # ---- oracles ------------------------------------------------------------------------
        check_input(res, c, cur, snap, {"m": "mask_screen", "u": "unmask_screen", "s": "save_h5 + load_h5", "r": "reveal_plates",
                                        "c": "reveal_plate.main() / save_h5"}[kind])
        if kind in "rc":
            ids = parse_ids(op[1:])
            via = "reveal_plates" if kind == "r" else "reveal_plate.main()"
            existing = set(snap["plate_ids"])
            if any(i not in existing for i in ids):
                res.count("reveal.unknown-id")
            if len(set(ids)) < len(ids):
                res.count("reveal.repeated-id")
            if set(ids) & observed_set(snap["plate_ids"], snap["observation_mask"]):
                res.count("reveal.already-observed-id")
            if not ids:
                res.count("reveal.empty-list")
            newly = judge_reveal(res, c, snap, ids, after, exc, via)
            if exc is not None:
                res.count("reveal.refused")
            else:
                res.count("reveal.ok")
                if newly:
                    res.count("reveal.newly-revealing")
                    info["newly"] += newly
                    if newly and n_unobserved(after) > 0 and len(set(after["plate_names"])) >= 2:
                        info["nontrivial"] = True
        else:
            name = {"m": "mask_screen", "u": "unmask_screen", "s": "save_h5 + load_h5"}[kind]
            if exc is not None:
                res.fail("%s raises on a valid screen" % name, c, "%s: %s" % (type(exc).__name__, exc), "a screen", signature=SIG_RAISES)
            else:
                check_unchanged(res, c, snap, after, "%s changes rows / plate assignment / observation values / ids / mappings%s"
                                % (name, " / mask" if kind == "s" else ""), kind == "s")
                if kind in "mu" and after["observation_mask"] != [kind == "u"] * len(snap["observation_mask"]):
                    res.fail("%s does not set the whole mask" % name, c, after["observation_mask"], [kind == "u"] * len(snap["observation_mask"]),
                             signature=SIG_MASK)
        if exc is not None:
            if rng is not None and kind in "rc" and isinstance(exc, ValueError) and attempts < n_steps:
                # a refused reveal leaves the screen as it was: this history (ending in the refusal) goes to the model
                # as a segment of its own, the run goes on without the refused step
                info["segments"].append((list(ops), trace + stages + [S.err_tok(exc)], "refusal"))
                ops.pop()
                continue
            trace.extend(stages)
            trace.append(S.err_tok(exc))
            break
        check_uniform(res, c, after, "after " + op)
        old_meta = meta
        meta = None
        if want_meta:
            try:
                meta = metadata(new, tmp)
                res.count("metadata-cli")
                check_meta(res, c, new, after, meta)
            except Exception as e:
                res.fail("extract_screen_metadata fails on a saved screen", c, "%s: %s" % (type(e).__name__, e), "counters", signature=SIG_RAISES)
        if kind in "rc" and old_meta is not None and meta is not None and "n_unobserved_plates" in old_meta and "n_unobserved_plates" in meta:
            existing = set(snap["plate_ids"])
            newly = len((set(parse_ids(op[1:])) & existing) - observed_set(snap["plate_ids"], snap["observation_mask"]))
            drop = old_meta.get("n_unobserved_plates", 0) - meta.get("n_unobserved_plates", 0)
            if drop != newly:
                res.fail("the number of unobserved plates does not drop by the number of newly revealed plates", c,
                         {"drop": drop, "source": "screen_metadata.json", "before": old_meta, "after": meta}, {"newly_revealed": newly},
                         signature=SIG_DROP)
        if kind == "c":
            stages.append(show_stage(new))
            trace.extend(stages)
        else:
            trace.append(show_stage(new))
        cur, snap = new, after
        k += 1
        remember(cur, snap, len(trace), k)
    # ---- end of history: every earlier screen object is still what it was, and equals its saved copy ----------
    cend = at(len(ops) - 1)
    for j, ent in enumerate(chain):
        if not check_input(res, dict(cend, chain_index=j), ent["obj"], ent["snap"], "a later operation of the history (screen %d of the chain)" % j):
            break
        if ent["file"] is not None:
            try:
                back = observables(Screen.load_h5(ent["file"]))
                d = first_diff(ent["snap"], back)
            except Exception as e:
                d = ("load", None, "%s: %s" % (type(e).__name__, e))
            if d is not None:
                res.fail("a screen of the history differs from the copy saved when it was created", dict(cend, chain_index=j),
                         {"field": d[0], "saved_copy": d[2]}, {"field": d[0], "snapshot": d[1]}, signature=SIG_CHANGED)
                break
    # ---- late branch: reuse an EARLIER screen object after the later operations ---------------------------------
    late = case.get("late") if rng is None else None
    if rng is not None and len(chain) >= 2 and rng.random() < 0.5:
        j = rng.randrange(len(chain) - 1)
        late = [j, choose_reveal(rng, chain[j]["snap"])]
        case["late"] = late
    if late is not None and late[0] < len(chain):
        ent = chain[late[0]]
        lids = parse_ids(late[1])
        cl = dict(cend, late=list(late))
        lexc = lnew = lafter = None
        try:
            lnew = reveal_plates(ent["obj"], conv_ids(lids, ids_as))
            lafter = observables(lnew)
        except Exception as e:
            lexc = e
        res.count("branch.reuse-earlier-screen")
        judge_reveal(res, cl, ent["snap"], lids, lafter, lexc, "reveal_plates (on an earlier screen of the history, after later operations)")
        check_input(res, cl, ent["obj"], ent["snap"], "reveal_plates")
        if lafter is not None:
            check_uniform(res, cl, lafter, "after the late reveal")
        info["segments"].append((list(ops[:ent["olen"]]) + ["r" + late[1]],
                                 trace[:ent["tlen"]] + [S.err_tok(lexc) if lexc is not None else show_stage(lnew)], "late-branch"))
    info["failed"] = len(res.oracle_failures) > info["failed_before"]
    return trace, info


def field_diff(a, b):
    """first differing `key=value` field of two stage strings, shortened"""
    fa, fb = a.split("|"), b.split("|")
    for x, y in zip(fa, fb):
        if x != y:
            return x[:300], y[:300]
    return a[:300], b[:300]


class Tie:
    """queued model lines with the implementation's answers; flushed in batches"""

    def __init__(self, ctx, res):
        self.ctx, self.res = ctx, res
        self.items = []

    def add(self, where, line, expect, case, split=False):
        if self.ctx.driver is None:
            return
        self.items.append((where, line, expect, case, split))
        if len(self.items) >= 200:
            self.flush()

    def flush(self):
        if not self.items or self.ctx.driver is None:
            self.items = []
            return
        got = self.ctx.driver.ask([it[1] for it in self.items])
        for (where, line, expect, case, split), g in zip(self.items, got):
            if split:
                model = g.split(" # ")
                if model != expect:
                    i = 0
                    while i < min(len(model), len(expect)) and model[i] == expect[i]:
                        i += 1
                    e = expect[i] if i < len(expect) else "<end of history>"
                    m = model[i] if i < len(model) else "<end of history>"
                    de, dm = field_diff(e, m)
                    self.res.disagree(where, {"line": line[:3000], "stage": i, "ops": case.get("ops")}, de, dm)
            elif g != expect:
                de, dm = field_diff(expect, g)
                self.res.disagree(where, {"line": line[:3000]}, de, dm)
            self.res.traces_validated += 1
        self.items = []


def hist_line(case):
    return "hist %s %s" % (model_ops(case["ops"]), S.raw_to_tokens(raw_with_bits(case)))


# ------------------------------------------------------------------------------------------------
# constructor stream
# ------------------------------------------------------------------------------------------------

def gen_ctor_case(rng, n_max):
    mode = rng.choice(["mixed", "mixed", "mixed", "obs-nomask", "noobs", "mask-noobs", "uniform", "uniform"])
    raw = gen_base(rng, n_max, rng.randint(1, 6))
    fill_observations(rng, raw)
    n = len(raw["pnames"])
    st = {p: rng.random() < 0.5 for p in sorted(set(raw["pnames"]))}
    raw["mask"] = [st[p] for p in raw["pnames"]]
    if mode == "mixed":
        if n == 1:                                  # a plate needs two rows to be mixed
            for key in ("tnames", "tdoses", "snames", "pnames", "obs", "mask"):
                raw[key] = raw[key] + raw[key]
            n = 2
        by = groups(raw["pnames"], range(n))
        multi = [p for p, rows in by.items() if len(rows) >= 2]
        if not multi:
            raw["pnames"][1] = raw["pnames"][0]
            raw["mask"][1] = raw["mask"][0]
            multi = [raw["pnames"][0]]
        for p in rng.sample(multi, 1 if rng.random() < 0.8 else min(2, len(multi))):
            rows = [i for i, q in enumerate(raw["pnames"]) if q == p]
            flip = rng.sample(rows, rng.randint(1, len(rows) - 1))
            for i in flip:
                raw["mask"][i] = not raw["mask"][i]
    elif mode == "obs-nomask":
        raw["mask"] = None
    elif mode == "noobs":
        raw["obs"] = None
        raw["mask"] = None
    elif mode == "mask-noobs":
        raw["obs"] = None
    return {"kind": "ctor", "mode": mode, "raw": raw, "obs_bits": obs_bits_list(raw)}


@verbose_aware
def run_ctor_case(case, res):
    raw = raw_with_bits(case)
    mode = case["mode"]
    n = len(raw["pnames"])
    try:
        s = S.build(raw)
    except Exception as e:
        out = S.err_tok(e)
        if mode in ("mixed", "mask-noobs"):
            pass                        # rejected; the error class is compared with the model only
        else:
            res.fail("constructor rejects a valid screen (%s)" % mode, case, "%s: %s" % (type(e).__name__, e), "a screen", signature=SIG_CTOR)
        return out
    out = S.show_screen(s)
    mask = [bool(b) for b in s.observation_mask]
    obs = [S.bits(x) for x in s.observations]
    if mode == "mixed":
        res.fail("constructor accepts a plate with mixed observation status", case, {"mask": mask}, "ValueError", signature=SIG_CTOR_MIXED)
    elif mode == "mask-noobs":
        pass                            # not in the property's text: compared with the model only
    elif mode == "obs-nomask":
        if mask != [True] * n or obs != case["obs_bits"]:
            res.fail("observations without a mask are not all observed / not stored as given", case, {"mask": mask, "obs": obs},
                     {"mask": [True] * n, "obs": case["obs_bits"]}, signature=SIG_CTOR)
    elif mode == "noobs":
        if mask != [False] * n:         # which placeholder values are stored is compared with the model only
            res.fail("a screen without observations is not all unobserved", case, {"mask": mask}, {"mask": [False] * n}, signature=SIG_CTOR)
    else:
        if mask != raw["mask"] or obs != case["obs_bits"]:
            res.fail("constructor changes a valid mask / the observations", case, {"mask": mask, "obs": obs},
                     {"mask": raw["mask"], "obs": case["obs_bits"]}, signature=SIG_CTOR)
    if mode not in ("mixed", "mask-noobs"):
        check_uniform(res, case, observables(s), "after construction")
    return out


# ------------------------------------------------------------------------------------------------
# combine / concat stream: the union of screens goes through the constructor's per-plate check
# ------------------------------------------------------------------------------------------------

def gen_combine_case(rng, n_max):
    """k screens over one shared pool of plate names.  `status`: 'split' = each part wholly observed or wholly masked (an
    observed and a masked screen sharing plate names: the union has mixed plates unless the parts' plates are disjoint),
    'global' = one status per plate name for all parts (the union is uniform although rows of a plate are spread over
    the parts, interleaved with other plates), 'random' = a plate-uniform mask per part."""
    k = rng.choice([1, 2, 2, 2, 2, 3, 3])
    ppool = rng.sample(S.NAME_POOL, rng.randint(1, 4))
    status = rng.choice(["split", "split", "global", "global", "random"])
    glob = {p: rng.random() < 0.5 for p in ppool}
    arity = rng.choice([1, 2, 2])
    ctrl = rng.choice(["", "control", "dmso"])
    parts = []
    for i in range(k):
        while True:
            raw = S.gen_raw(rng, n_max=n_max, arity=arity, ctrl=ctrl, doses=rng.sample(TAME_DOSES, rng.randint(2, 4)))
            if len(raw["snames"]) >= 1:
                break
        mine = ppool if rng.random() < 0.7 else rng.sample(ppool, rng.randint(1, len(ppool)))
        raw["pnames"] = [rng.choice(mine) for _ in raw["snames"]]
        fill_observations(rng, raw)
        if status == "split":
            whole = rng.random() < 0.5
            raw["mask"] = None if (whole and rng.random() < 0.5) else [whole] * len(raw["pnames"])
        elif status == "global":
            raw["mask"] = [glob[p] for p in raw["pnames"]]
        else:
            st = {p: rng.random() < 0.5 for p in sorted(set(raw["pnames"]))}
            raw["mask"] = [st[p] for p in raw["pnames"]]
        if rng.random() < 0.15:
            try:
                raw["tmap"], raw["smap"] = S.superset_mappings(rng, raw)
                raw["tmap"] = [[str(a) for a in raw["tmap"][0]], [float(b) for b in raw["tmap"][1]], [int(c) for c in raw["tmap"][2]]]
                raw["smap"] = [[str(a) for a in raw["smap"][0]], [int(c) for c in raw["smap"][1]]]
            except Exception:
                raw["tmap"] = raw["smap"] = None
        parts.append(raw)
    odd = None
    z = rng.random()
    if k >= 2 and z < 0.05:                      # another control name: refused before anything is looked at
        parts[-1]["ctrl"] = ctrl + "x"
        parts[-1]["tmap"] = parts[-1]["smap"] = None
        odd = "ctrl"
    elif k >= 2 and z < 0.10:                    # another arity: np.concatenate refuses
        r = parts[-1]
        r["arity"] = arity + 1
        r["tnames"] = [row + [row[0]] for row in r["tnames"]]
        r["tdoses"] = [row + [row[0]] for row in r["tdoses"]]
        r["tmap"] = r["smap"] = None
        odd = "arity"
    return {"kind": "combine", "status": status, "odd": odd, "via": "combine" if k == 2 and rng.random() < 0.5 else "concat",
            "parts": parts, "parts_obs_bits": [obs_bits_list(r) for r in parts]}


def combine_parts(case):
    out = []
    for raw, ob in zip(case["parts"], case["parts_obs_bits"]):
        raw = dict(raw)
        if ob is not None:
            raw["obs"] = [S.from_bits(b) for b in ob]
        if raw.get("tmap") is not None:
            raw["tmap"] = tuple(list(x) for x in raw["tmap"])
            raw["smap"] = tuple(list(x) for x in raw["smap"])
        out.append(raw)
    return out


@verbose_aware
def run_combine_case(case, res):
    from batchie.data import Screen
    raws = combine_parts(case)
    objs = [S.build(r) for r in raws]
    exc = new = None
    try:
        if case["via"] == "combine":
            new = objs[0].combine(objs[1])
        else:
            new = Screen.concat(list(objs))
    except Exception as e:
        exc = e
    # Screen.combine / concat are outside the property's quantifier (histories of mask / unmask / reveal / save / load).  The one
    # thing its text demands of them is what it demands of every construction: the screen they return has no partly observed
    # plate (the union of an observed and a masked part of one plate must not come back as a screen).  Which error is raised,
    # row order, refusals for other reasons, object identity: compared with the MODEL only (tie).
    if exc is not None:
        return S.err_tok(exc)
    after = observables(new)
    check_uniform(res, case, after, "after Screen.%s (a plate has an observed part in one screen and an unobserved part in another)" % case["via"])
    return show_stage(new)


def combine_line(case):
    raws = combine_parts(case)
    return "concat %d %s" % (len(raws), " ".join(S.raw_to_tokens(r) for r in raws))


# ------------------------------------------------------------------------------------------------
# set_observed stream
# ------------------------------------------------------------------------------------------------

VAL_BITS = [S.bits(x) for x in NONZERO + [0.0, -0.0, float("inf")]] + NAN_BITS


def gen_setobs_case(rng, n_max):
    raw = gen_base(rng, n_max, rng.randint(1, 5))
    fill_observations(rng, raw)
    x = rng.random()
    if x < 0.15:
        raw["obs"] = None
        raw["mask"] = None
    elif x < 0.3:
        raw["mask"] = None
    else:
        st = {p: rng.random() < 0.4 for p in sorted(set(raw["pnames"]))}
        raw["mask"] = [st[p] for p in raw["pnames"]]
    n = len(raw["pnames"])
    y = rng.random()
    m = n if y < 0.82 else rng.choice([n + 1, n + 3, max(n - 1, 1) if n > 1 else n + 2]) if y < 0.97 else 0
    p = rng.choice([0.0, 0.2, 0.5, 0.5, 0.8, 1.0])
    sel = [rng.random() < p for _ in range(m)]
    k = sum(sel)
    z = rng.random()
    nv = k if z < 0.7 else 1 if z < 0.85 else rng.choice([k + 1, max(k - 1, 0), k + 2, 0])
    vals = [rng.choice(VAL_BITS) for _ in range(nv)]
    return {"kind": "setobs", "raw": raw, "obs_bits": obs_bits_list(raw), "sel": sel, "val_bits": vals}


@verbose_aware
def run_setobs_case(case, res):
    """The ORACLE speaks only about well-formed calls -- a boolean selection of the screen's length and exactly one value per
    selected row (what the text says: "directly marking a selection observed stores exactly the given values at exactly those
    rows").  For malformed calls (selection of another length incl. 0, another number of values incl. a single broadcast value)
    whatever the implementation does -- which error, or numpy's incidental acceptance -- is compared with the MODEL only (tie)."""
    raw = raw_with_bits(case)
    sel, vals = [bool(b) for b in case["sel"]], [int(b) for b in case["val_bits"]]
    s = S.build(raw)                    # set_observed mutates: a fresh screen per case
    before = observables(s)
    n = len(before["observations"])
    k = sum(sel)
    well_formed = len(sel) == n and len(vals) == k
    exc = None
    try:
        s.set_observed(np.array(sel, dtype=bool), np.array([S.from_bits(b) for b in vals], dtype=float))
    except Exception as e:
        exc = e
    out = S.err_tok(exc) if exc is not None else show_stage(s)
    if not well_formed:
        return out                      # tie only
    if exc is not None:
        res.fail("set_observed raises although the selection has the screen's length and there is one value per selected row", case,
                 "%s: %s" % (type(exc).__name__, exc), "the values stored at the selected rows", signature=SIG_SETOBS)
        return out
    after = observables(s)
    it = iter(vals)
    exp_obs = [next(it) if t else b for b, t in zip(before["observations"], sel)]
    exp_mask = [m or t for m, t in zip(before["observation_mask"], sel)]
    if after["observations"] != exp_obs:
        res.fail("set_observed does not store exactly the given values at exactly the selected rows", case,
                 {"observations": after["observations"]}, {"observations": exp_obs, "selection": sel, "values": vals}, signature=SIG_SETOBS)
    elif after["observation_mask"] != exp_mask:
        res.fail("set_observed does not mark exactly the selected rows (plus the already observed ones) observed", case,
                 {"mask": after["observation_mask"]}, {"mask": exp_mask, "selection": sel, "mask_before": before["observation_mask"]},
                 signature=SIG_SETOBS)
    else:
        before["attributes_by_introspection"].pop("_observations", None)
        after["attributes_by_introspection"].pop("_observations", None)
        for f in before:
            if f not in ("observations", "observation_mask") and before[f] != after[f]:
                res.fail("set_observed changes something other than observations and mask", case, {"field": f, "after": after[f]},
                         {"field": f, "before": before[f]}, signature=SIG_SETOBS)
                break
    return out


def setobs_line(case):
    return "setobs %s %s %s" % (S.sel_tok(case["sel"]), S.lst(str(int(b)) for b in case["val_bits"]), S.raw_to_tokens(raw_with_bits(case)))


# ------------------------------------------------------------------------------------------------
# entry points
# ------------------------------------------------------------------------------------------------

def one_history(ctx, res, tie, tmp, case, rng=None, n_steps=0, where="C12:hist"):
    trace, info = run_history(case, tmp, res, rng=rng, n_steps=n_steps, meta_p=0.5 if ctx.tier == "quick" else 0.35)
    res.evaluations += 1
    res.count("history.steps", len(trace) - 1)
    res.count("plates.%d" % len(set(case["raw"]["pnames"])))
    if trace[-1].startswith("err:"):
        res.count("history.ended-by-refusal")
    for seg_ops, seg_trace, seg_kind in info["segments"]:
        res.count("history.segment." + seg_kind)
        seg = dict(case)
        seg["ops"] = seg_ops
        tie.add(where, hist_line(seg), seg_trace, seg, split=True)
    if case.get("verbose"):
        res.count("class.verbose-logging")
    res.count("class.input-mutation")                    # every input snapshotted before / compared after every step + at the end
    res.count("class.attribute-completeness")            # all instance attributes by introspection in every snapshot
    if case.get("branches") or case.get("late"):
        res.count("class.object-reuse")                  # several reveal calls with DIFFERENT ids on the same screen object
    if any(op[0] in "rc" and parse_ids(op[1:]) in ([0], []) for op in case["ops"]):
        res.count("class.falsy-boundaries")              # plate id 0 alone, empty request
    if any(op[0] == "c" for op in case["ops"]):
        res.count("history.with-cli-reveal")
    if info["nontrivial"]:
        res.nontrivial.add(common.short_hash([case["raw"], case["ops"]]))
    tie.add(where, hist_line(case), trace, case, split=True)
    return trace, info


def run(ctx, res):
    res.rule = RULE
    rng = ctx.subrng("c12")
    thorough = ctx.tier != "quick" or ctx.mode == "search"
    n_hist = ctx.scale(200, 2800, 1500)
    n_ctor = ctx.scale(150, 2000, 1000)
    n_set = ctx.scale(200, 2500, 1500)
    tie = Tie(ctx, res)
    tmp = tempfile.mkdtemp(prefix="verif_c12_")
    try:
        # ---- 0. fixed corpus: NaN / zero guards, library and CLI, and the CLI in another interpreter -----------
        for i_, case in enumerate(nan_corpus()):
            case["verbose"] = i_ % 4 == 1
            trace, info = one_history(ctx, res, tie, tmp, case, where="C12:hist:nan-corpus")
            res.count("corpus.nan-guard")
            res.count("corpus.nan-guard.%s" % ("refused" if trace[-1].startswith("err:") else "revealed"))
        craw = nan_corpus()[0]["raw"]
        craw = dict(craw, obs=[S.from_bits(b) for b in obs_bits_list(craw)])
        for ids, must in (([0, 4], "ok"), ([1, 0], "err"), ([2, 4], "err")):
            try:
                st, val = cli_in_other_process(tmp, craw, ids, 1 + rng.randrange(4000000000))
            except Exception as e:
                res.notes.append("cross-process CLI not run: %s" % e)
                break
            res.count("class.cross-process")
            res.evaluations += 1
            xcase = {"kind": "hist", "raw": nan_corpus()[0]["raw"], "obs_bits": obs_bits_list(craw), "ops": ["c" + ids_tok(ids)], "corpus": "cross-process"}
            if st != must:
                res.fail("reveal_plate.main() in another interpreter %s" % ("reveals plates whose stored values contain NaN" if must == "err"
                                                                            else "fails on good plates"), xcase, val if st == "err" else "a saved screen",
                         "a ValueError" if must == "err" else "the revealed screen", signature=SIG_ACCEPT_NAN if must == "err" else SIG_CLI)
            elif st == "ok":
                from batchie.retrospective import reveal_plates as _rp
                want = observables(_rp(S.build(craw), ids))
                d = first_diff(want, val)
                if d is not None:
                    res.fail("reveal_plate.main() in another interpreter process differs from reveal_plates here ('%s')" % d[0], xcase,
                             {"field": d[0], "other_process": d[2]}, {"field": d[0], "this_process": d[1]}, signature=SIG_CLI)
        # ---- 1. random histories ----------------------------------------------------------------
        for t in range(n_hist):
            big = thorough and rng.random() < 0.2
            z = rng.random()
            if z < 0.08:
                # >= 11 plates with numeric suffixes: two-digit plate ids, `plate_10` sorts before `plate_2`
                raw, kind = gen_hist_raw(rng, rng.randint(12, 20), k_plates=rng.randint(11, 13))
                raw = rename_plates(raw, lambda i, p: "plate_%d" % ((i * 7) % 13))
                kind += "+many-plates"
            else:
                raw, kind = gen_hist_raw(rng, rng.randint(1, 40 if big else 14))
                if z < 0.18:
                    # plate names of >= 25 characters of unequal length
                    raw = rename_plates(raw, lambda i, p: p + "_" + "0123456789abcdef" * (1 + i % 3) + "0123456789"[:i % 10])
                    kind += "+long-plate-names"
            case = {"kind": "hist", "raw": raw, "obs_bits": obs_bits_list(raw), "ops": [], "verbose": t % 7 == 3,
                    "layout": rng.choice(LAYOUTS) if rng.random() < 0.3 else "c",
                    "ids_as": rng.choice(["list", "list", "np.int64-list", "np.array", "tuple"])}
            if case["layout"] != "c" or case["ids_as"] != "list" or "long-plate" in kind:
                res.count("class.memory-layout-dtype")
            if "many-plates" in kind:
                res.count("class.size-boundary.ge-11-plates")
            if "superset" in kind:
                res.count("class.non-default-ids")
            pn_ = raw["pnames"]
            if any(pn_[i] != pn_[i - 1] and pn_[i] in pn_[:i - 1] for i in range(2, len(pn_))):
                res.count("class.row-orderings")                   # rows of a plate interleaved with other plates
            if len(pn_) <= 1 or len(set(pn_)) == 1:
                res.count("class.falsy-boundaries")                # n = 1, k = 1 plate
            n_steps = rng.randint(1, 20 if (thorough and rng.random() < 0.2) else 8)
            res.count("screen." + kind)
            res.count("mask.%s" % ("none" if raw["mask"] is None else "all-hidden" if not any(raw["mask"]) else "some-observed"))
            trace, info = one_history(ctx, res, tie, tmp, case, rng=rng, n_steps=n_steps)
            if rng.random() < 0.03 or (info["nontrivial"] and len(res.samples) < 2):
                res.sample({"ops": case["ops"], "plates": case["raw"]["pnames"], "mask0": case["raw"]["mask"],
                            "masks": [x.split("|mask=")[1].split("|")[0] if "|mask=" in x else x for x in trace],
                            "nunobs": [x.split("|nunobs=")[1].split("|")[0] if "|nunobs=" in x else x for x in trace]})
        # ---- 2. exhaustive reveal requests from a masked screen ------------------------------------
        n_ex = ctx.scale(1, 6, 3)
        for t in range(n_ex):
            kp = rng.randint(2, 4 if not thorough else 5)
            raw, kind = gen_hist_raw(rng, rng.randint(kp, 12), k_plates=kp, mask_mode=0.9)
            pids = list(range(len(set(raw["pnames"]))))
            for r in range(len(pids) + 1):
                for sub in itertools.combinations(pids, r):
                    case = {"kind": "hist", "raw": raw, "obs_bits": obs_bits_list(raw), "ops": ["m", "r" + ids_tok(sub)]}
                    one_history(ctx, res, tie, tmp, case, where="C12:hist:exhaustive")
                    res.count("exhaustive.subsets")
        for t in range(ctx.scale(1, 4, 2)):
            kp = rng.randint(2, 3)
            raw, kind = gen_hist_raw(rng, rng.randint(kp, 9), k_plates=kp, mask_mode=0.9)
            pids = list(range(len(set(raw["pnames"]))))
            subs = [sub for r in range(len(pids) + 1) for sub in itertools.combinations(pids, r)]
            for a in subs:
                for b in subs:
                    case = {"kind": "hist", "raw": raw, "obs_bits": obs_bits_list(raw),
                            "ops": ["m", "r" + ids_tok(a), "r" + ids_tok(b)]}
                    one_history(ctx, res, tie, tmp, case, where="C12:hist:exhaustive")
                    res.count("exhaustive.pairs")
        # ---- 3. constructor ------------------------------------------------------------------------
        for t in range(n_ctor):
            case = gen_ctor_case(rng, 14 if not thorough else rng.choice([14, 14, 40]))
            case["verbose"] = t % 7 == 3
            if case["verbose"]:
                res.count("class.verbose-logging")
            out = run_ctor_case(case, res)
            res.evaluations += 1
            res.count("ctor." + case["mode"])
            tie.add("C12:ctor:" + case["mode"], "mkscreen " + S.raw_to_tokens(raw_with_bits(case)), out, case)
        # ---- 4. set_observed -----------------------------------------------------------------------
        skipped = 0
        for t in range(n_set):
            case = gen_setobs_case(rng, 14 if not thorough else rng.choice([14, 14, 40]))
            case["verbose"] = t % 7 == 3
            if case["verbose"]:
                res.count("class.verbose-logging")
            try:
                out = run_setobs_case(case, res)
            except Exception as e:
                res.fail("constructor raises on a valid screen", case, "%s: %s" % (type(e).__name__, e), "a screen", signature=SIG_RAISES)
                continue
            res.evaluations += 1
            res.count("setobs.%s" % (out if out.startswith("err:") else "ok"))
            if len(case["val_bits"]) == 1 and sum(case["sel"]) != 1 and not out.startswith("err:"):
                res.count("setobs.broadcast")
            if len(case["sel"]) == 0 and len(case["raw"]["pnames"]) > 0:
                # numpy accepts a zero-length boolean index on a non-empty array (selects nothing); so does the model
                res.count("setobs.zero-length-selection")
            tie.add("C12:setobs", setobs_line(case), out, case)
        # ---- 5. combine / concat -------------------------------------------------------------------
        for t in range(ctx.scale(150, 2000, 1000)):
            case = gen_combine_case(rng, 6 if not thorough else rng.choice([6, 6, 20]))
            case["verbose"] = t % 7 == 3
            if case["verbose"]:
                res.count("class.verbose-logging")
            try:
                out = run_combine_case(case, res)
            except Exception as e:
                res.fail("constructor raises on a valid screen", case, "%s: %s" % (type(e).__name__, e), "a screen", signature=SIG_RAISES)
                continue
            res.evaluations += 1
            res.count("combine.%s.%s" % (case["status"], "refused" if out.startswith("err:") else "ok"))
            res.count("combine.parts.%d" % len(case["parts"]))
            if case["odd"]:
                res.count("combine.other-" + case["odd"])
            tie.add("C12:combine", combine_line(case), out, case)
        tie.flush()
        res.count("class.entry-point.extract_screen_metadata", metadata.calls)
    finally:
        shutil.rmtree(tmp, ignore_errors=True)


def replay(ctx, case, res):
    kind = case.get("kind")
    if kind == "combine":
        try:
            run_combine_case(case, res)
        except Exception as e:
            res.fail("constructor raises on a valid screen", case, "%s: %s" % (type(e).__name__, e), "a screen", signature=SIG_RAISES)
        return
    if kind == "ctor":
        run_ctor_case(case, res)
        return
    if kind == "setobs":
        try:
            run_setobs_case(case, res)
        except Exception as e:
            res.fail("constructor raises on a valid screen", case, "%s: %s" % (type(e).__name__, e), "a screen", signature=SIG_RAISES)
        return
    tmp = tempfile.mkdtemp(prefix="verif_c12_")
    try:
        c = dict(case)
        c["ops"] = list(case.get("ops", []))
        run_history(c, tmp, res)
    finally:
        shutil.rmtree(tmp, ignore_errors=True)
