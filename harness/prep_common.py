"""Shared machinery of the C11 / C13 harnesses: the retrospective preparation layer
(generators, smoothers, initial plate, combination filter, hold-out splits).

* real operations are run with a *recording* generator (duck-typed `rng`) and a recording proxy for
  `batchie.retrospective.heapq`; the recorded values are the choice log handed to the Lean model;
* `execute(case)` is deterministic in the case (screen, parameters, numpy seed), so a case replays exactly;
* `oracles_c11` / `oracles_c13` evaluate the property clauses on the implementation's observable output only; the INPUT side of
  every comparison is a `RawView` built from the raw case description, not a batchie `Screen`;
* besides the random screens, `directed_cases` builds the input families on which realistic edits go wrong but which small
  random screens do not reach (big plates for the hold-out counts, vehicle-only rows, >= 11 generated plates, odd plate counts
  over several top-bottom iterations, exact stopping sums, size ties, several samples to drop); `clause_counters` records in the
  evidence how often each clause was actually exercised.

What is canonicalised: nothing is reordered -- every operation is deterministic given the log, so the output rows are
compared in order (names, doses as exact rationals, sample, plate, observation bits, mask, plate ids).  Not compared:
the stale `plate_mapping` the merge smoothers leave behind (they re-encode `_plate_ids` only).
"""
import heapq as _heapq
import inspect
import math
from collections import Counter

import numpy as np

from vlib import common
from harness import screens as S

common.use_repo_sources()

import logging  # noqa: E402
logging.getLogger("batchie").setLevel(logging.ERROR)   # the wrappers warn when nothing is unobserved

OPS = ["gen-perm", "gen-seg", "gen-pair", "sm-fixed", "sm-opt", "sm-nplate", "sm-mergemin", "sm-topbottom",
       "sm-ensemble", "cover", "combofilter", "ho-bal", "ho-rand"]
GENERATORS = ("gen-perm", "gen-seg", "gen-pair")
SMOOTHERS = ("sm-fixed", "sm-opt", "sm-nplate", "sm-mergemin", "sm-topbottom", "sm-ensemble")
MERGES = ("sm-mergemin", "sm-topbottom")

PLATE_POOL = ["p1", "p10", "p2", "P", "", "plate é", "generated_plate_0", "generated_plate_1", "q", "r", "zz", "a",
              "b", "c", "d", "e", "f", "g", "h", "i", "j", "k", "initial_plate", "unobserved_pl", "generated_plate_10"]
SAMPLE_POOL = ["s1", "s2", "s3", "S", "", "é", "s10", "cell line", "zz"]
TREAT_POOL = ["a", "b", "c", "d", "ab", "B", "e", "f"]


# ------------------------------------------------------------------ recording proxies

def _sig_choice(a, size=None, replace=True, p=None, axis=0, shuffle=True):
    """reference signature of numpy.random.Generator.choice (for binding recorded calls)"""


def _sig_permutation(x, axis=0):
    """reference signature of numpy.random.Generator.permutation"""


class RecRng:
    """recording wrapper around a seeded numpy Generator (the rng argument is duck-typed everywhere).
    HARDENING item 21: every method takes and forwards `*args, **kwargs` unchanged; what is recorded is found by binding the call to
    numpy's signature inside a try -- a call form the recorder does not understand is noted in `self.unexpected` (reported as
    `wrapper.unexpected-call` + a broken tie by the streams) and still forwarded."""

    def __init__(self, seed):
        self.g = np.random.default_rng(seed)
        self.log = []
        self.unexpected = []

    def permutation(self, *args, **kwargs):
        out = self.g.permutation(*args, **kwargs)
        try:
            b = inspect.signature(_sig_permutation).bind(*args, **kwargs)
            x = b.arguments["x"]
            pop = list(range(int(x))) if isinstance(x, (int, np.integer)) else np.asarray(x).tolist()
            self.log.append(("permutation", pop, np.asarray(out).tolist()))
        except Exception as e:
            self.unexpected.append("permutation: %r" % (e,))
            self.log.append(("other:permutation",))
        return out

    def choice(self, *args, **kwargs):
        out = self.g.choice(*args, **kwargs)
        try:
            self._record_choice(out, *args, **kwargs)
        except Exception as e:
            self.unexpected.append("choice: %r" % (e,))
            self.log.append(("other:choice",))
        return out

    def _record_choice(self, out, *args, **kwargs):
        b = inspect.signature(_sig_choice).bind(*args, **kwargs)
        b.apply_defaults()
        a = b.arguments["a"]
        pop = list(range(int(a))) if isinstance(a, (int, np.integer)) else list(np.asarray(a).tolist())
        self.log.append(("choice", pop, np.atleast_1d(np.asarray(out)).tolist(), bool(b.arguments["replace"])))

    def __getattr__(self, name):
        # anything else the code might start calling is recorded by name and delegated
        def f(*a, **k):
            self.log.append(("other:" + name,))
            return getattr(self.g, name)(*a, **k)
        return f


class HeapProxy:
    """stands in for the `heapq` module inside batchie.retrospective: forwards every call unchanged, records which plate a pop returned"""

    def __init__(self):
        self.pops = []
        self.unexpected = []

    def heappop(self, *args, **kwargs):
        p = _heapq.heappop(*args, **kwargs)
        try:
            self.pops.append(int(np.argmax(p.selection_vector)))
        except Exception as e:
            self.unexpected.append("heappop: %r" % (e,))
        return p

    def __getattr__(self, name):
        # heapify, heappush and whatever else of heapq the code uses
        return getattr(_heapq, name)


# ------------------------------------------------------------------ screens

class RawView:
    """the input experiments read straight from the raw description -- independent of batchie's `Screen` (the oracles
    compare the implementation's output with *this*, so nothing the constructor might do to its arrays can hide a change)"""

    def __init__(self, raw):
        n, a = len(raw["snames"]), raw["arity"]
        self.size = n
        self.treatment_names = np.array(raw["tnames"], dtype=str).reshape(n, a)
        self.treatment_doses = np.array(raw["tdoses"], dtype=float).reshape(n, a)
        self.sample_names = np.array(raw["snames"], dtype=str)
        self.plate_names = np.array(raw["pnames"], dtype=str)
        if raw["obs"] is None:
            self.observations = np.zeros(n)
            self.observation_mask = np.zeros(n, dtype=bool)
        else:
            self.observations = np.array(raw["obs"], dtype=float)
            self.observation_mask = np.ones(n, dtype=bool) if raw["mask"] is None else np.array(raw["mask"], dtype=bool)


def fill_treatments(rng, n, a, ctrl, tpool, dpool, p_single=0.25, p_vehicle=0.06, p_dup=0.1):
    """treatment cells of n rows: full combinations, single-agent rows (one control cell, by name or by dose),
    vehicle-only rows (EVERY cell is the control, by name and/or by dose) and exact duplicates of earlier conditions"""
    pos = [d for d in dpool if d > 0]
    tn, td = [], []
    for _ in range(n):
        u = rng.random()
        if tn and u < p_dup:
            j = rng.randrange(len(tn))
            r_n, r_d = list(tn[j]), list(td[j])
        elif u < p_dup + p_vehicle:
            r_n, r_d = [], []
            for _ in range(a):
                if rng.random() < 0.5:
                    r_n.append(ctrl)
                    r_d.append(rng.choice(dpool))
                else:
                    r_n.append(rng.choice(tpool))
                    r_d.append(rng.choice([0.0, -1.0]))
        elif u < p_dup + p_vehicle + p_single and a >= 2:
            r_n = [rng.choice(tpool) for _ in range(a)]
            r_d = [rng.choice(pos) for _ in range(a)]
            k = rng.randrange(a)
            if rng.random() < 0.5:
                r_n[k] = ctrl
            else:
                r_d[k] = rng.choice([0.0, -1.0])
        else:
            r_n = [rng.choice(tpool) for _ in range(a)]
            r_d = [rng.choice(dpool) for _ in range(a)]
        tn.append(r_n)
        td.append(r_d)
    return tn, td


def obs_values(rng, n):
    """distinct values (so that moving a value between rows is visible), a few duplicates and zeros"""
    obs = [round((i + 1) / (n + 3.0), 6) for i in range(n)]
    rng.shuffle(obs)
    for i in range(n):
        if rng.random() < 0.08:
            obs[i] = rng.choice([0.0, 0.5, 1.0, obs[0]])
    return obs


def pools(rng, ctrl=None, n_treat=None):
    ctrl = ctrl if ctrl is not None else rng.choice(["", "control", "dmso", "a"])
    tpool = rng.sample(TREAT_POOL, n_treat or rng.randint(2, 6)) + ([ctrl] if rng.random() < 0.7 else [])
    dpool = rng.sample([0.0, 1.0, 2.0, 0.5, -1.0, 10.0, 0.1], rng.randint(2, 4))
    if all(d <= 0 for d in dpool):
        dpool.append(1.0)
    return ctrl, tpool, dpool


def raw_from_layout(rng, rows, arity=None, shuffle=True, mask_none=False, **fill):
    """raw screen from a layout [(sample, plate, observed)]"""
    a = arity if arity is not None else rng.choice([2, 2, 2, 2, 1, 3])
    ctrl, tpool, dpool = pools(rng)
    rows = list(rows)
    if shuffle:
        rng.shuffle(rows)
    n = len(rows)
    tn, td = fill_treatments(rng, n, a, ctrl, tpool, dpool, **fill)
    mask = None if mask_none else [o for _, _, o in rows]
    return dict(ctrl=ctrl, arity=a, tnames=tn, tdoses=td, snames=[s for s, _, _ in rows], pnames=[p for _, p, _ in rows],
                obs=obs_values(rng, n), mask=mask, tmap=None, smap=None)


def gen_screen(rng, style, arity=None, n_scale=1):
    """raw screen for the preparation operations.  style:
       seg    one-sample-per-plate design (merge / n-plate smoothers), assorted plate sizes
       mixed  plates cut across samples
       lump   all unobserved rows in a single plate
       full   fully observed (initial plate generator)"""
    samples = rng.sample(SAMPLE_POOL, rng.randint(1, 4))
    pnames = rng.sample(PLATE_POOL, len(PLATE_POOL))
    rows = []  # (sample, plate, observed)
    if style == "seg":
        for s in samples:
            for _ in range(rng.randint(1, 4)):
                p = pnames.pop()
                for _ in range(rng.choice([1, 1, 2, 2, 3, 3, 4, 5, 6]) * (n_scale if rng.random() < 0.3 else 1)):
                    rows.append((s, p, False))
        for _ in range(rng.choice([0, 0, 1, 2])):
            p = pnames.pop()
            for _ in range(rng.randint(1, 4)):
                rows.append((rng.choice(samples), p, True))
    elif style in ("mixed", "lump", "full"):
        n_pl = 1 if style == "lump" else rng.randint(1, 6)
        plist = [pnames.pop() for _ in range(n_pl)]
        observed = {p: (style == "full") for p in plist}
        n = rng.randint(1, 14 * n_scale)
        # a few samples with few experiments each, sometimes one dominant sample
        weights = [rng.choice([1, 1, 2, 5]) for _ in samples]
        for _ in range(n):
            s = rng.choices(samples, weights)[0]
            rows.append((s, rng.choice(plist), None))
        rows = [(s, p, observed[p]) for s, p, _ in rows]
        if style != "full":
            for _ in range(rng.choice([0, 0, 1, 2])):
                p = pnames.pop()
                for _ in range(rng.randint(1, 4)):
                    rows.append((rng.choice(samples), p, True))
    return raw_from_layout(rng, rows, arity=arity, mask_none=(style == "full" and rng.random() < 0.5))


def ensure_combo_rows(rng, raw, p=0.8):
    """(mostly) give every sample with unobserved rows an unobserved full-combination row, so that the pairwise
    generator finds a plate for the sample's single-agent / vehicle-only rows"""
    if rng.random() >= p:
        return raw
    ctrl = raw["ctrl"]
    good = [x for x in TREAT_POOL if x != ctrl]
    mask = raw["mask"] or [True] * len(raw["snames"])
    for s in sorted(set(raw["snames"])):
        idx = [i for i, x in enumerate(raw["snames"]) if x == s and not mask[i]]
        if idx:
            i = rng.choice(idx)
            raw["tnames"][i] = [rng.choice(good) for _ in range(raw["arity"])]
            raw["tdoses"][i] = [rng.choice([1.0, 2.0]) for _ in range(raw["arity"])]
    return raw


def gen_pair_screen(rng):
    """screen (arity 2, sometimes 3 or 1) where (mostly) every single-agent sample also has combination rows"""
    raw = gen_screen(rng, rng.choice(["mixed", "lump", "seg"]), arity=rng.choice([2, 2, 2, 2, 3, 3, 1]))
    return ensure_combo_rows(rng, raw)


def superset_maps(rng, raw):
    """mappings batchie itself produces for a superset of the data, as plain python values (the case must be JSON-able)"""
    try:
        tm, sm = S.superset_mappings(rng, raw)
        raw["tmap"] = ([str(x) for x in tm[0]], [float(x) for x in tm[1]], [int(x) for x in tm[2]])
        raw["smap"] = ([str(x) for x in sm[0]], [int(x) for x in sm[1]])
    except Exception:
        raw["tmap"] = raw["smap"] = None


def gen_case(rng, op):
    seed = rng.randrange(2 ** 31)
    p = {}
    if op == "gen-perm":
        raw = gen_screen(rng, rng.choice(["mixed", "seg", "lump"]))
        m = rng.random()
        present = sorted(set(raw["pnames"]))
        if m < 0.35:
            p["force"] = None
        elif m < 0.45:
            p["force"] = []
        else:
            p["force"] = rng.sample(present, rng.randint(1, len(present))) + (["nope"] if rng.random() < 0.2 else [])
    elif op == "gen-seg":
        raw = gen_screen(rng, rng.choice(["mixed", "lump", "seg", "mixed"]))
        sizes = list(Counter(s for s, m in zip(raw["snames"], raw["mask"] or [True] * len(raw["snames"])) if not m).values()) or [1]
        p["max"] = rng.choice([1, 2, 3, 4, 5, 7, rng.choice(sizes), rng.choice(sizes), max(sizes) + 1, 0 if rng.random() < 0.3 else 2,
                               -1 if rng.random() < 0.3 else 3])
    elif op == "gen-pair":
        raw = gen_pair_screen(rng)
        p["subset"] = rng.choice([1, 1, 2, 2, 3, 0 if rng.random() < 0.3 else 1, -1 if rng.random() < 0.3 else 2])
        p["anchor"] = rng.choice([0, 0, 1, 2, 3, -1])
    elif op == "sm-fixed":
        raw = gen_screen(rng, rng.choice(["seg", "mixed", "seg"]))
        p["k"] = rng.choice([0, 1, 2, 2, 3, 3, 4, 5, 6, -1 if rng.random() < 0.4 else 2])
    elif op == "sm-opt":
        raw = gen_screen(rng, rng.choice(["seg", "mixed", "seg", "lump"]))
    elif op == "sm-nplate":
        raw = gen_screen(rng, rng.choice(["seg", "seg", "seg", "mixed"]))
        p["k"] = rng.choice([0, 1, 2, 2, 3, 3, 4, -1])
    elif op == "sm-mergemin":
        raw = gen_screen(rng, rng.choice(["seg", "seg", "seg", "mixed"]))
        p["k"] = rng.choice([0, 1, 2, 3, 4, 5, 6, 8, 10, 14, 100, -1])
    elif op == "sm-topbottom":
        raw = gen_screen(rng, rng.choice(["seg", "seg", "seg", "mixed"]))
        p["k"] = rng.choice([0, 1, 1, 2, 2, 3, 5])
    elif op == "sm-ensemble":
        raw = gen_screen(rng, rng.choice(["seg", "seg", "seg", "mixed"]))
        p["min_size"] = rng.choice([0, 2, 3, 4, 6, 10])
        p["n_iter"] = rng.choice([0, 1, 2])
        p["min_n"] = rng.choice([0, 1, 2, 3])
    elif op == "cover":
        raw = gen_screen(rng, "full" if rng.random() < 0.9 else "mixed")
        p["reveal"] = rng.random() < 0.5
    elif op == "combofilter":
        raw = gen_screen(rng, rng.choice(["mixed", "full", "seg"]), arity=rng.choice([2, 2, 2, 3, 1]))
    elif op in ("ho-bal", "ho-rand"):
        raw = gen_screen(rng, rng.choice(["mixed", "seg", "lump", "full"]))
        if rng.random() < 0.3:
            superset_maps(rng, raw)
        p["fraction"] = rng.choice([0.0, 1.0, 0.5, 0.1, 0.25, 1 / 3.0, 0.2, 0.7, 0.9999, 1e-9, rng.random(), rng.random(),
                                    -0.1 if rng.random() < 0.3 else 0.5, 1.5 if rng.random() < 0.3 else 1.0])
    else:
        raise ValueError(op)
    if op in ("combofilter", "gen-pair", "cover") and raw["arity"] >= 2 and rng.random() < 0.5:
        add_multidose_single_agents(rng, raw)
    if rng.random() < 0.06:
        for i in rng.sample(range(len(raw["obs"])), min(len(raw["obs"]), 2)):
            raw["obs"][i] = rng.choice([float("inf"), float("-inf"), float("nan"), -0.0])
    if (op in GENERATORS or op in SMOOTHERS) and rng.random() < 0.04:
        # nothing unobserved: the wrappers return the input screen itself
        full = gen_screen(rng, "full")
        full["mask"] = [True] * len(full["snames"])
        raw = full
    return {"op": op, "params": p, "raw": raw, "npseed": seed}


# ------------------------------------------------------------------ directed cases
#
# Families of inputs that random screens of <= 14 rows practically never reach but on which realistic edits of the code
# go wrong (each family is listed in the evidence `distribution` as `directed.<family>`):
#   ho-bal-big / ho-rand-big   plates of >= 12 rows and several fractions: ceil(fraction x size) >= 2 on every plate, so a draw
#                              WITH replacement (numpy's default) holds out too few rows -- the per-plate count oracle is exact
#   vehicle                    unobserved rows in which EVERY treatment is the control (and duplicate conditions, arity 2/3)
#                              through every operation: a non-complementary combo/single split drops them
#   seg-11 / pair-11 / perm-11 >= 11 generated plates in one call (`generated_plate_10` in a fixed-width `<U17` buffer
#                              becomes `generated_plate_1`), samples exactly at / one above the size limit
#   topbottom-odd              plate counts 3,5,6,7,11 (and others) per sample with 1-4 iterations: ceil-halving per iteration
#   mergemin-exact             two smallest plates summing to exactly the limit / the limit + 1
#   fixed-exact / opt-ties     plates exactly of the requested size; size lists whose retained count ties between sizes
#   nplate-multi               several samples below the minimum interleaved (in id order) with samples that stay
#   pair-arity                 pairwise generator at arity 3 and 1

def _plate_names(rng, k, generated_ok=True):
    """k distinct plate names; some collide in their first 17 characters when written into a narrow buffer.
    (`generated_ok=False` for the inputs of generators: an observed input plate that is already called `generated_plate_<n>`
    collides with a generated name and the constructor refuses the mixed plate -- behaviour, but a wasted case.)"""
    style = rng.choice(["pl", "generated", "generated", "generated", "mixed"])   # smoothers mostly run on generated plates
    if not generated_ok:
        style = rng.choice(["pl", "mixed"])
    if style == "pl":
        return ["pl%d" % i for i in rng.sample(range(0, 40), k)]
    if style == "generated":
        return ["generated_plate_%d" % i for i in rng.sample(range(0, 3 * k + 12), k)]
    pool = ["w%d" % i for i in range(k)] + rng.sample(PLATE_POOL, min(len(PLATE_POOL), k))
    if not generated_ok:
        pool = [x for x in pool if not x.startswith("generated_plate_")]
    return rng.sample(sorted(set(pool)), k)


def _samples(rng, k):
    pool = SAMPLE_POOL + ["s4", "s5", "s6", "s7", "s11", "s12", "A", "b c"]
    return rng.sample(pool, k)


def _observed_extra(rng, rows, samples, names):
    for _ in range(rng.choice([0, 1, 1, 2])):
        p = names.pop()
        for _ in range(rng.randint(1, 5)):
            rows.append((rng.choice(samples), p, True))


def seg_layout(rng, counts_sizes, observed=True):
    """one-sample-per-plate design: counts_sizes = {sample: [plate sizes]}"""
    total = sum(len(v) for v in counts_sizes.values()) + 3
    names = _plate_names(rng, total)
    rows = []
    for smp, sizes in counts_sizes.items():
        for sz in sizes:
            p = names.pop()
            rows += [(smp, p, False)] * sz
    if observed:
        _observed_extra(rng, rows, list(counts_sizes), names)
    return rows


def d_holdout_big(rng, op):
    samples = _samples(rng, rng.randint(1, 3))
    names = _plate_names(rng, 7)
    rows = []
    for _ in range(rng.randint(2, 4) if op == "ho-bal" else rng.randint(1, 3)):
        p = names.pop()
        for _ in range(rng.choice([12, 12, 13, 15, 16, 20, 24, 30])):
            rows.append((rng.choice(samples), p, False))
    if rng.random() < 0.5:      # a small unobserved plate next to the big ones (ceil of a fraction of 1..3 rows)
        p = names.pop()
        rows += [(rng.choice(samples), p, False)] * rng.randint(1, 3)
    _observed_extra(rng, rows, samples, names)
    raw = raw_from_layout(rng, rows, p_vehicle=0.08, p_dup=0.15)
    if rng.random() < 0.3:
        superset_maps(rng, raw)
    f = rng.choice([0.1, 0.2, 0.25, 1 / 3.0, 0.4, 0.5, 0.5, 0.6, 0.7, 0.75, 0.9, 1.0, 0.15 + 0.8 * rng.random()])
    return {"op": op, "params": {"fraction": f}, "raw": raw, "npseed": rng.randrange(2 ** 31)}


def vehicle_raw(rng, style, arity):
    """screen with at least two unobserved vehicle-only rows and at least one duplicated condition"""
    raw = gen_screen(rng, style, arity=arity, n_scale=2)
    a, ctrl = raw["arity"], raw["ctrl"]
    mask = raw["mask"] or [True] * len(raw["snames"])
    target = [i for i, m in enumerate(mask) if not m] or list(range(len(mask)))
    for i in rng.sample(target, min(len(target), rng.randint(2, 3))):
        by_name = rng.random() < 0.5
        raw["tnames"][i] = [ctrl if (by_name or rng.random() < 0.5) else rng.choice(TREAT_POOL) for _ in range(a)]
        raw["tdoses"][i] = [1.0 if raw["tnames"][i][k] == ctrl and rng.random() < 0.5 else rng.choice([0.0, -1.0]) for k in range(a)]
    if len(target) >= 2:
        i, j = rng.sample(target, 2)
        raw["tnames"][j], raw["tdoses"][j] = list(raw["tnames"][i]), list(raw["tdoses"][i])
        if raw["snames"][i] != raw["snames"][j] and rng.random() < 0.5:
            pass  # same condition on two samples
    return raw


def d_vehicle(rng, op):
    a = rng.choice([2, 2, 3])
    p = {}
    if op == "gen-perm":
        raw = vehicle_raw(rng, rng.choice(["mixed", "seg"]), a)
        present = sorted(set(raw["pnames"]))
        p["force"] = rng.choice([None, rng.sample(present, 1)])
    elif op == "gen-seg":
        raw = vehicle_raw(rng, "mixed", a)
        p["max"] = rng.choice([1, 2, 3, 4])
    elif op == "gen-pair":
        raw = ensure_combo_rows(rng, vehicle_raw(rng, rng.choice(["mixed", "lump", "seg"]), a), p=1.0)
        p["subset"] = rng.choice([1, 1, 2])
        p["anchor"] = rng.choice([0, 0, 1, 2])
    elif op == "sm-fixed":
        raw = vehicle_raw(rng, "seg", a)
        p["k"] = rng.choice([1, 2, 2, 3])
    elif op == "sm-opt":
        raw = vehicle_raw(rng, "seg", a)
    elif op == "sm-nplate":
        raw = vehicle_raw(rng, "seg", a)
        p["k"] = rng.choice([1, 2, 2])
    elif op == "sm-mergemin":
        raw = vehicle_raw(rng, "seg", a)
        p["k"] = rng.choice([3, 4, 6, 8])
    elif op == "sm-topbottom":
        raw = vehicle_raw(rng, "seg", a)
        p["k"] = rng.choice([1, 2, 3])
    elif op == "sm-ensemble":
        raw = vehicle_raw(rng, "seg", a)
        p["min_size"], p["n_iter"], p["min_n"] = rng.choice([2, 4, 6]), rng.choice([0, 1, 2]), rng.choice([0, 1, 2])
    elif op == "cover":
        raw = vehicle_raw(rng, "full", a)
        p["reveal"] = rng.random() < 0.5
    elif op == "combofilter":
        raw = vehicle_raw(rng, rng.choice(["mixed", "full"]), a)
    else:
        raw = vehicle_raw(rng, rng.choice(["mixed", "seg"]), a)
        p["fraction"] = rng.choice([0.25, 0.5, 0.75, 1.0])
    return {"op": op, "params": p, "raw": raw, "npseed": rng.randrange(2 ** 31)}


def d_seg11(rng):
    """>= 11 generated plates; samples exactly at / one above / below the limit"""
    mx = rng.choice([1, 2, 2, 3, 3, 4, 5])
    style = rng.random()
    if style < 0.5:      # a few samples that split into many plates
        samples = _samples(rng, rng.randint(2, 4))
        sizes = {smp: rng.choice([mx, mx + 1, 2 * mx, 2 * mx + 1, 3 * mx, 4 * mx - 1 if mx > 1 else 4, 5 * mx + 1]) for smp in samples}
        target = rng.randint(11, 18)
        while sum(-(-n // mx) for n in sizes.values()) < target:
            sizes[rng.choice(samples)] += mx
    else:                # many samples at or below the limit (one plate each) and a few above
        samples = _samples(rng, rng.randint(11, 14))
        sizes = {smp: rng.choice([1, mx, mx, max(1, mx - 1), mx + 1]) for smp in samples}
    names = _plate_names(rng, 4, generated_ok=False)
    rows = []
    for smp, n in sizes.items():
        for _ in range(n):
            rows.append((smp, rng.choice(names[:2]), False))
    _observed_extra(rng, rows, samples, names[2:])
    raw = raw_from_layout(rng, rows)
    return {"op": "gen-seg", "params": {"max": mx}, "raw": raw, "npseed": rng.randrange(2 ** 31)}


def d_pair11(rng):
    """pairwise generator with >= 11 generated plates: >= 3 samples, each with 4..9 distinct (group, group) tuples"""
    a = rng.choice([2, 2, 2, 3])
    ctrl = rng.choice(["", "control", "dmso"])
    treats = rng.sample([t for t in TREAT_POOL if t != ctrl], rng.randint(5, 7))
    samples = _samples(rng, rng.randint(3, 5))
    names = _plate_names(rng, 4, generated_ok=False)
    rows, tn, td = [], [], []
    for smp in samples:
        combos = set()
        want = rng.randint(4, 9)
        for _ in range(60):
            if len(combos) >= want:
                break
            combos.add(tuple(sorted(rng.sample(treats, a) if rng.random() < 0.85 else [rng.choice(treats)] * a)))
        for c in sorted(combos):
            for _ in range(rng.choice([1, 1, 1, 2])):
                rows.append((smp, rng.choice(names[:2]), False))
                c2 = list(c)
                rng.shuffle(c2)
                tn.append(c2)
                td.append([1.0] * a)
        for _ in range(rng.choice([0, 1, 2])):      # single-agent / vehicle-only rows of the sample
            rows.append((smp, rng.choice(names[:2]), False))
            r_n = [rng.choice(treats) for _ in range(a)]
            r_d = [1.0] * a
            for k in (range(a) if rng.random() < 0.4 else [rng.randrange(a)]):
                if rng.random() < 0.5:
                    r_n[k] = ctrl
                else:
                    r_d[k] = 0.0
            tn.append(r_n)
            td.append(r_d)
    n_un = len(rows)
    for _ in range(rng.choice([0, 1])):
        p = names[2]
        for _ in range(rng.randint(1, 4)):
            rows.append((rng.choice(samples), p, True))
            tn.append([rng.choice(treats) for _ in range(a)])
            td.append([rng.choice([1.0, 2.0, 0.0]) for _ in range(a)])
    order = list(range(len(rows)))
    rng.shuffle(order)
    raw = dict(ctrl=ctrl, arity=a, tnames=[tn[i] for i in order], tdoses=[td[i] for i in order],
               snames=[rows[i][0] for i in order], pnames=[rows[i][1] for i in order], obs=obs_values(rng, len(rows)),
               mask=[rows[i][2] for i in order], tmap=None, smap=None)
    sub = rng.choice([1, 1, 1, 2])
    p = {"subset": sub, "anchor": rng.choice([0, 0, 0, sub, 2 * sub])}
    return {"op": "gen-pair", "params": p, "raw": raw, "npseed": rng.randrange(2 ** 31)}


def d_pair_arity(rng):
    raw = ensure_combo_rows(rng, gen_screen(rng, rng.choice(["mixed", "lump", "seg"]), arity=rng.choice([3, 3, 1]), n_scale=2), p=1.0)
    sub = rng.choice([1, 1, 2])
    p = {"subset": sub, "anchor": rng.choice([0, 0, sub, 2 * sub, 3])}
    return {"op": "gen-pair", "params": p, "raw": raw, "npseed": rng.randrange(2 ** 31)}


def d_perm11(rng):
    samples = _samples(rng, rng.randint(2, 4))
    names = _plate_names(rng, rng.randint(12, 15))
    rows = []
    obs_pl = set(rng.sample(names, rng.choice([0, 1, 2])))
    for p in names:
        for _ in range(rng.randint(1, 3)):
            rows.append((rng.choice(samples), p, p in obs_pl))
    raw = raw_from_layout(rng, rows)
    force = rng.choice([None, rng.sample(names, rng.randint(1, 4))])
    return {"op": "gen-perm", "params": {"force": force}, "raw": raw, "npseed": rng.randrange(2 ** 31)}


def _sizes(rng, k, pool=(1, 1, 2, 2, 3, 3, 4)):
    return [rng.choice(pool) for _ in range(k)]


def d_topbottom(rng):
    samples = _samples(rng, rng.randint(1, 3))
    counts = {smp: rng.choice([3, 5, 6, 7, 11, 3, 5, 7, 2, 4, 9, 1]) for smp in samples}
    if all(c in (1, 2, 4) for c in counts.values()):
        counts[samples[0]] = rng.choice([3, 5, 6, 7, 11])
    layout = seg_layout(rng, {smp: _sizes(rng, c) for smp, c in counts.items()})
    raw = raw_from_layout(rng, layout)
    return {"op": "sm-topbottom", "params": {"k": rng.choice([1, 2, 2, 3, 3, 4])}, "raw": raw, "npseed": rng.randrange(2 ** 31)}


def d_mergemin(rng):
    samples = _samples(rng, rng.randint(1, 3))
    k = rng.choice([3, 4, 5, 6, 8])
    cs = {}
    for smp in samples:
        sizes = _sizes(rng, rng.randint(3, 7), pool=(1, 1, 2, 2, 3, 4, 5))
        # make the two smallest plates sum to exactly the limit, or to the limit + 1, at the start or after one merge
        mode = rng.choice(["eq", "eq+1", "after", "free"])
        if mode in ("eq", "eq+1"):
            t = k if mode == "eq" else k + 1
            x = rng.randint(1, max(1, t // 2))
            sizes = [x, t - x] + [max(z, t - x) for z in sizes[2:]]
        elif mode == "after" and k >= 3:
            x = rng.randint(1, k - 2)
            y = rng.randint(1, k - 1 - x)
            sizes = [x, y, k - x - y] + [max(z, k) for z in sizes[3:]]
        cs[smp] = [z for z in sizes if z > 0]
    raw = raw_from_layout(rng, seg_layout(rng, cs))
    return {"op": "sm-mergemin", "params": {"k": k}, "raw": raw, "npseed": rng.randrange(2 ** 31)}


TIE_SIZES = [[2, 4], [2, 2, 4, 4], [3, 6], [1, 2], [2, 3, 6], [4, 4, 8], [3, 3, 3, 9], [1, 1, 2], [2, 2, 2, 3, 3], [1, 2, 3, 6],
             [5, 5], [2, 3, 4, 6, 12], [6, 4, 3], [4, 2, 2, 1, 1, 1, 1]]


def d_opt(rng):
    sizes = list(rng.choice(TIE_SIZES))
    if rng.random() < 0.3:
        sizes = [z * 2 for z in sizes]
    rng.shuffle(sizes)
    samples = _samples(rng, rng.randint(1, 3))
    cs = {smp: [] for smp in samples}
    for z in sizes:
        cs[rng.choice(samples)].append(z)
    raw = raw_from_layout(rng, seg_layout(rng, {k: v for k, v in cs.items() if v}))
    return {"op": "sm-opt", "params": {}, "raw": raw, "npseed": rng.randrange(2 ** 31)}


def d_fixed(rng):
    k = rng.choice([2, 3, 4, 5])
    samples = _samples(rng, rng.randint(1, 3))
    cs = {smp: [rng.choice([k, k, k - 1, k + 1, k + 3, 1, 2 * k]) for _ in range(rng.randint(2, 5))] for smp in samples}
    raw = raw_from_layout(rng, seg_layout(rng, cs))
    return {"op": "sm-fixed", "params": {"k": k}, "raw": raw, "npseed": rng.randrange(2 ** 31)}


def d_nplate(rng, ensemble=False):
    k = rng.choice([2, 2, 3])
    samples = sorted(_samples(rng, rng.randint(5, 7)))
    # in sorted (= id) order: droppable and staying samples interleaved, at least two to drop
    counts = {smp: rng.choice([k - 1, k - 1, 1, k, k + 1, k + 2]) for smp in samples}
    low = [smp for smp in samples if counts[smp] < k]
    while len(low) < 2:
        smp = rng.choice(samples)
        counts[smp] = 1
        low = [x for x in samples if counts[x] < k]
    if len(low) == len(samples):
        counts[rng.choice(samples[1:])] = k + 1
    cs = {smp: _sizes(rng, counts[smp], pool=(1, 2, 2, 3)) for smp in samples}
    raw = raw_from_layout(rng, seg_layout(rng, cs))
    if ensemble:
        p = {"min_size": rng.choice([0, 1, 2]), "n_iter": 0 if rng.random() < 0.7 else 1, "min_n": k}
        return {"op": "sm-ensemble", "params": p, "raw": raw, "npseed": rng.randrange(2 ** 31)}
    return {"op": "sm-nplate", "params": {"k": k}, "raw": raw, "npseed": rng.randrange(2 ** 31)}


def d_ensemble(rng):
    samples = _samples(rng, rng.randint(2, 4))
    cs = {smp: _sizes(rng, rng.choice([2, 3, 4, 5, 6, 7])) for smp in samples}
    raw = raw_from_layout(rng, seg_layout(rng, cs))
    p = {"min_size": rng.choice([2, 3, 4, 6]), "n_iter": rng.choice([1, 2, 3]), "min_n": rng.choice([1, 2, 2])}
    return {"op": "sm-ensemble", "params": p, "raw": raw, "npseed": rng.randrange(2 ** 31)}


def d_pair_nonprefix(rng):
    """HARDENING class non-default-ids: the samples that have single-agent rows are NOT a sorted-name prefix of the samples with
    combinations (combos for a,b,c; single agents only for a and c, or only for the last sample) -- the two sub-screens built
    by `.to_screen()` number their samples independently, so comparing sample IDS across them assigns the wrong plates"""
    a = 2
    ctrl = rng.choice(["", "control", "dmso"])
    treats = rng.sample([t for t in TREAT_POOL if t != ctrl], rng.randint(3, 5))
    samples = sorted(_samples(rng, rng.randint(3, 5)))
    mode = rng.choice(["last", "skip", "skip"])
    with_single = [samples[-1]] if mode == "last" else [x for i, x in enumerate(samples) if i % 2 == 0 and i > 0] + ([samples[0]] if rng.random() < 0.5 else [])
    if with_single == samples[:len(with_single)]:
        with_single = [samples[-1]]
    names = _plate_names(rng, 3, generated_ok=False)
    rows, tn, td = [], [], []
    for smp in samples:
        for _ in range(rng.randint(2, 4)):
            rows.append((smp, rng.choice(names[:2]), False))
            tn.append(rng.sample(treats, a))
            td.append([1.0] * a)
        if smp in with_single:
            for _ in range(rng.randint(1, 3)):
                rows.append((smp, rng.choice(names[:2]), False))
                r_n, r_d = [rng.choice(treats) for _ in range(a)], [1.0] * a
                if rng.random() < 0.5:
                    r_n[rng.randrange(a)] = ctrl
                else:
                    r_d[rng.randrange(a)] = 0.0
                tn.append(r_n)
                td.append(r_d)
    order = list(range(len(rows)))
    rng.shuffle(order)
    raw = dict(ctrl=ctrl, arity=a, tnames=[tn[i] for i in order], tdoses=[td[i] for i in order],
               snames=[rows[i][0] for i in order], pnames=[rows[i][1] for i in order], obs=obs_values(rng, len(rows)),
               mask=[False] * len(rows), tmap=None, smap=None)
    sub = rng.choice([1, 1, 2])
    return {"op": "gen-pair", "params": {"subset": sub, "anchor": rng.choice([0, 0, sub])}, "raw": raw, "npseed": rng.randrange(2 ** 31)}


def permute_maps(rng, raw):
    """supplied mappings whose ROWS are shuffled and whose ids are a permutation of 0..n-1 (ids are not sort positions)"""
    superset_maps(rng, raw)
    if raw["tmap"] is None:
        return raw
    tn, tdz, ti = raw["tmap"]
    nonc = sorted(set(i for i in ti if i >= 0))
    perm = dict(zip(nonc, rng.sample(nonc, len(nonc))))
    order = list(range(len(ti)))
    rng.shuffle(order)
    raw["tmap"] = ([tn[i] for i in order], [tdz[i] for i in order], [perm.get(ti[i], ti[i]) for i in order])
    sn, si = raw["smap"]
    sperm = dict(zip(si, rng.sample(si, len(si))))
    order = list(range(len(si)))
    rng.shuffle(order)
    raw["smap"] = ([sn[i] for i in order], [sperm[si[i]] for i in order])
    return raw


def d_holdout_ids(rng, op):
    """hold-out on a partially observed screen with observed rows first / in the middle, permuted supplied mappings"""
    case = d_holdout_big(rng, op) if rng.random() < 0.4 else gen_case(rng, op)
    case["raw"]["tmap"] = case["raw"]["smap"] = None
    permute_maps(rng, case["raw"])
    if not (0 < case["params"]["fraction"] <= 1):
        case["params"]["fraction"] = rng.choice([0.3, 0.5, 1.0])
    return case


def no_control(raw):
    """the same layout without any control: every control cell becomes a positive-dose cell of a real treatment"""
    ctrl = raw["ctrl"]
    others = [t for t in TREAT_POOL if t != ctrl]
    for r_n, r_d in zip(raw["tnames"], raw["tdoses"]):
        for k in range(len(r_n)):
            if r_n[k] == ctrl:
                r_n[k] = others[(k + len(r_d)) % len(others)]
            if r_d[k] <= 0:
                r_d[k] = 1.0
    return raw


def long_names(raw, n=27):
    """every plate / sample / non-control treatment name gets >= 27 characters (longer than any buffer a refactor might allocate)"""
    ext = lambda x: x + "_" + "L" * max(1, n - len(x) - 1)
    raw["pnames"] = [ext(x) for x in raw["pnames"]]
    raw["snames"] = [ext(x) for x in raw["snames"]]
    raw["tnames"] = [[x if x == raw["ctrl"] else ext(x) for x in r] for r in raw["tnames"]]
    if raw.get("tmap") is not None:
        raw["tmap"] = ([x if x == raw["ctrl"] else ext(x) for x in raw["tmap"][0]], raw["tmap"][1], raw["tmap"][2])
        raw["smap"] = ([ext(x) for x in raw["smap"][0]], raw["smap"][1])
    return raw


def d_seg101(rng):
    """>= 101 generated plates (three-digit names)"""
    samples = _samples(rng, rng.randint(2, 4))
    rows = []
    names = _plate_names(rng, 2, generated_ok=False)
    for i in range(rng.randint(101, 112)):
        rows.append((samples[i % len(samples)], names[0], False))
    rows += [(samples[0], names[1], True)] * rng.randint(0, 2)
    raw = raw_from_layout(rng, rows, arity=2)
    return {"op": "gen-seg", "params": {"max": 1}, "raw": raw, "npseed": rng.randrange(2 ** 31)}


def d_falsy(rng, op):
    """seed 0, a one-row screen or a one-plate one-sample screen, size parameters 1"""
    case = gen_case(rng, op)
    case["npseed"] = 0
    if rng.random() < 0.4:
        raw = case["raw"]
        for k in ("tnames", "tdoses", "snames", "pnames", "obs"):
            raw[k] = raw[k][:1]
        if raw["mask"] is not None:
            raw["mask"] = raw["mask"][:1]
        raw["tmap"] = raw["smap"] = None
    for k in ("max", "k", "subset", "min_size", "n_iter", "min_n"):
        if k in case["params"] and rng.random() < 0.6:
            case["params"][k] = 1
    return case


def add_history(rng, case):
    """give the case a `hist` screen for the call that precedes the judged one on the same object: either an unrelated
    screen, or a relative of the input (a shuffled subset of its rows plus rows on a plate / sample the input does not have;
    for the permutation generator that extra plate is also named in `force`, so only the earlier call has forced plates)"""
    op, raw = case["op"], case["raw"]
    if rng.random() < 0.4 or not raw["snames"]:
        case["hist"] = gen_case(rng, op)["raw"]
        return case
    n = len(raw["snames"])
    keep = sorted(rng.sample(range(n), rng.randint(1, n)))
    rng.shuffle(keep)
    mask = raw["mask"] if raw["mask"] is not None else [True] * n
    h = dict(ctrl=raw["ctrl"], arity=raw["arity"], tnames=[list(raw["tnames"][i]) for i in keep], tdoses=[list(raw["tdoses"][i]) for i in keep],
             snames=[raw["snames"][i] for i in keep], pnames=[raw["pnames"][i] for i in keep], obs=[raw["obs"][i] for i in keep],
             mask=[mask[i] for i in keep], tmap=None, smap=None)
    extra_obs = op == "cover" or rng.random() < 0.3
    for _ in range(rng.randint(1, 4)):
        i = rng.randrange(n)
        h["tnames"].append(list(raw["tnames"][i]))
        h["tdoses"].append(list(raw["tdoses"][i]))
        h["snames"].append(rng.choice([raw["snames"][i], "warm sample"]))
        h["pnames"].append("warm_only_plate")
        h["obs"].append(0.123)
        h["mask"].append(extra_obs)
    if op == "gen-perm" and rng.random() < 0.7:
        case["params"]["force"] = (case["params"]["force"] or []) + ["warm_only_plate"]
    case["hist"] = h
    return case


def same_size_variant(rng, raw):
    """a screen of exactly the same shape: rows permuted, sample and plate labels permuted among themselves, observation values shuffled"""
    n = len(raw["snames"])
    order = list(range(n))
    rng.shuffle(order)
    sm = sorted(set(raw["snames"]))
    pm = sorted(set(raw["pnames"]))
    smap = dict(zip(sm, rng.sample(sm, len(sm))))
    pmap = dict(zip(pm, rng.sample(pm, len(pm))))
    obs = list(raw["obs"])
    rng.shuffle(obs)
    mask = raw["mask"]
    return dict(ctrl=raw["ctrl"], arity=raw["arity"], tnames=[list(raw["tnames"][i]) for i in order], tdoses=[list(raw["tdoses"][i]) for i in order],
                snames=[smap[raw["snames"][i]] for i in order], pnames=[pmap[raw["pnames"][i]] for i in order], obs=obs,
                mask=None if mask is None else [mask[i] for i in order], tmap=None, smap=None)


def add_temporaries(rng, case):
    case["raw"]["tmap"] = case["raw"]["smap"] = None
    case["temps"] = [same_size_variant(rng, case["raw"]) for _ in range(5)]
    return case


def d_wide(rng, kind):
    """integer-width boundaries: 127/128/129 or 255/256/257 generated plates, hold-out on a plate of 255..257 rows in a screen of > 257 rows"""
    samples = _samples(rng, rng.randint(2, 3))
    if kind in ("seg8", "seg9"):
        n = rng.choice([128, 129]) if kind == "seg8" else rng.choice([257, 258, 260])
        rows = [(samples[i % len(samples)], "pl0", False) for i in range(n)] + [(samples[0], "pl1", True)] * rng.randint(0, 2)
        raw = raw_from_layout(rng, rows, arity=2)
        return {"op": "gen-seg", "params": {"max": 1}, "raw": raw, "npseed": rng.randrange(2 ** 31)}
    big = rng.choice([255, 256, 257])
    rows = [(rng.choice(samples), "pl0", False) for _ in range(big)] + [(rng.choice(samples), "pl1", False) for _ in range(rng.choice([127, 128, 129]))]
    rows += [(samples[0], "pl2", True)] * rng.randint(1, 3)
    raw = raw_from_layout(rng, rows, arity=2)
    return {"op": "ho-bal", "params": {"fraction": rng.choice([0.5, 0.75, 1.0, 0.9])}, "raw": raw, "npseed": rng.randrange(2 ** 31)}


def add_multidose_single_agents(rng, raw):
    """HARDENING item 18 (a dose-blind combination filter): single-agent rows whose treatment NAME occurs in full combinations but
    whose (name, dose) pair does not -- the filter must drop them -- next to single-agent rows at a dose that does occur"""
    a, ctrl = raw["arity"], raw["ctrl"]
    is_c = lambda nm, d: nm == ctrl or d <= 0
    combos = [(rn, rd) for rn, rd in zip(raw["tnames"], raw["tdoses"]) if not any(is_c(x, y) for x, y in zip(rn, rd))]
    if not combos or a < 2:
        return raw
    n = len(raw["snames"])
    for i in rng.sample(range(n), min(n, rng.randint(1, 3))):
        rn, rd = rng.choice(combos)
        k = rng.randrange(a)
        names = [ctrl] * a
        doses = [1.0] * a
        names[k] = rn[k]
        doses[k] = rng.choice([rd[k], 7.0, 0.3, rd[k] * 3.0])      # 7.0 / 0.3 / 3x never occur in the pools of full combinations
        raw["tnames"][i], raw["tdoses"][i] = names, doses
    return raw


def directed_cases(rng, mult):
    """[(family, case)]"""
    out = []
    fams = [
        ("ho-bal-big", 7, lambda: d_holdout_big(rng, "ho-bal")),
        ("ho-rand-big", 3, lambda: d_holdout_big(rng, "ho-rand")),
        ("seg-11", 5, lambda: d_seg11(rng)),
        ("pair-11", 5, lambda: d_pair11(rng)),
        ("pair-arity", 3, lambda: d_pair_arity(rng)),
        ("perm-11", 2, lambda: d_perm11(rng)),
        ("topbottom-odd", 8, lambda: d_topbottom(rng)),
        ("mergemin-exact", 6, lambda: d_mergemin(rng)),
        ("opt-ties", 4, lambda: d_opt(rng)),
        ("fixed-exact", 3, lambda: d_fixed(rng)),
        ("nplate-multi", 4, lambda: d_nplate(rng)),
        ("nplate-multi-ensemble", 2, lambda: d_nplate(rng, ensemble=True)),
        ("ensemble", 3, lambda: d_ensemble(rng)),
    ]
    for name, n, f in fams:
        for _ in range(n * mult):
            out.append((name, f()))
    for op in OPS:
        for _ in range((2 if op == "gen-pair" else 1) * mult):
            out.append(("vehicle", d_vehicle(rng, op)))
    for _ in range(3 * mult):
        out.append(("pair-single-nonprefix", d_pair_nonprefix(rng)))
    for _ in range(3 * mult):
        out.append(("ho-permuted-maps", d_holdout_ids(rng, "ho-bal")))
    for _ in range(1 * mult):
        out.append(("ho-permuted-maps", d_holdout_ids(rng, "ho-rand")))
    out.append(("seg-101", d_seg101(rng)))
    out.append(("wide-seg", d_wide(rng, "seg8")))
    out.append(("wide-seg", d_wide(rng, "seg9")))
    out.append(("wide-holdout", d_wide(rng, "ho")))
    for op in OPS:
        for _ in range(mult):
            out.append(("temporaries", add_temporaries(rng, gen_case(rng, op))))
    for i, op in enumerate(OPS):
        out.append(("falsy", d_falsy(rng, op)))
        c = gen_case(rng, op)
        c["raw"]["tmap"] = c["raw"]["smap"] = None
        no_control(c["raw"])
        if op == "gen-pair":
            c["raw"] = ensure_combo_rows(rng, c["raw"], p=1.0)
        out.append(("no-control", c))
    return out


# ------------------------------------------------------------------ running the real code

LAYOUTS = ("fortran", "strided", "negstride", "readonly", "wideU")


def build_work(raw, layout=None):
    """the real input Screen; `layout` (HARDENING class memory-layout/dtype) hands the constructor the same values as
    Fortran-ordered / strided / negative-stride / read-only / wider fixed-width arrays"""
    if not layout:
        return S.build(raw)
    from batchie.data import Screen
    return Screen(**screen_kwargs(raw, layout))


def screen_kwargs(raw, layout=None):
    """constructor arguments for the raw screen (all arrays allocated here, so that `Screen(**kw)` itself allocates the instance first)"""
    n, a = len(raw["snames"]), raw["arity"]

    def lay(x):
        if layout == "fortran":
            x = np.asfortranarray(x)
        elif layout == "strided":
            big = np.repeat(x, 2, axis=0)
            x = big[::2]
        elif layout == "negstride":
            x = np.array(x[::-1])[::-1]
        elif layout == "wideU" and x.dtype.kind == "U":
            x = x.astype("<U48")
        if layout == "readonly":
            x = x.copy()
            x.setflags(write=False)
        return x

    kw = dict(treatment_names=lay(np.array(raw["tnames"], dtype=str).reshape(n, a)),
              treatment_doses=lay(np.array(raw["tdoses"], dtype=float).reshape(n, a)),
              sample_names=lay(np.array(raw["snames"], dtype=str)), plate_names=lay(np.array(raw["pnames"], dtype=str)),
              control_treatment_name=raw["ctrl"])
    if raw["obs"] is not None:
        kw["observations"] = lay(np.array(raw["obs"], dtype=float))
    if raw["mask"] is not None:
        kw["observation_mask"] = lay(np.array(raw["mask"], dtype=bool))
    if raw.get("tmap") is not None:
        kw["treatment_mapping"] = (np.array(raw["tmap"][0], dtype=str), np.array(raw["tmap"][1], dtype=float), np.array(raw["tmap"][2], dtype=int))
    if raw.get("smap") is not None:
        kw["sample_mapping"] = (np.array(raw["smap"][0], dtype=str), np.array(raw["smap"][1], dtype=int))
    return kw


def make_call(case):
    """callable (screen, rng) -> result; generators / smoothers / the initial-plate generator are ONE object held by the
    closure (so that calling it repeatedly reuses the object)"""
    import batchie.retrospective as R
    from batchie.data import filter_dataset_to_treatments_that_appear_in_at_least_one_combo
    op, p = case["op"], case["params"]
    if op == "gen-perm":
        return R.PlatePermutationPlateGenerator(force_include_plate_names=p["force"]).generate_plates
    if op == "gen-seg":
        return R.SampleSegregatingPermutationPlateGenerator(max_plate_size=p["max"]).generate_plates
    if op == "gen-pair":
        return R.PairwisePlateGenerator(subset_size=p["subset"], anchor_size=p["anchor"]).generate_plates
    if op == "sm-fixed":
        return R.FixedSizeSmoother(plate_size=p["k"]).smooth_plates
    if op == "sm-opt":
        return R.OptimalSizeSmoother().smooth_plates
    if op == "sm-nplate":
        return R.NPlatePerCellLineSmoother(min_n_cell_line_plates=p["k"]).smooth_plates
    if op == "sm-mergemin":
        return R.MergeMinPlateSmoother(min_size=p["k"]).smooth_plates
    if op == "sm-topbottom":
        return R.MergeTopBottomPlateSmoother(n_iterations=p["k"]).smooth_plates
    if op == "sm-ensemble":
        return R.BatchieEnsemblePlateSmoother(min_size=p["min_size"], n_iterations=p["n_iter"],
                                              min_n_cell_line_plates=p["min_n"]).smooth_plates
    if op == "cover":
        return R.SparseCoverPlateGenerator(reveal_single_treatment_experiments=p["reveal"]).generate_and_unmask_initial_plate
    if op == "combofilter":
        return lambda scr, rng: filter_dataset_to_treatments_that_appear_in_at_least_one_combo(scr)
    if op == "ho-bal":
        return lambda scr, rng: R.create_plate_balanced_holdout_set_among_masked_plates(scr, p["fraction"], rng)
    if op == "ho-rand":
        return lambda scr, rng: R.create_random_holdout(scr, p["fraction"], rng)
    raise ValueError(op)


PER_ROW = ("_treatment_ids", "_sample_ids", "_plate_ids", "_observations", "_observation_mask", "_sample_names", "plate_names",
           "_treatment_names", "_treatment_doses")


def snapshot(x):
    """bytes of every array reachable from a Screen / tuple of Screens (attributes enumerated by introspection)"""
    if isinstance(x, tuple):
        return tuple(snapshot(y) for y in x)
    if x is None:
        return None
    out = {}
    for k, v in sorted(vars(x).items()):
        if isinstance(v, np.ndarray):
            out[k] = (str(v.dtype), v.shape, np.ascontiguousarray(v).tobytes())
        elif isinstance(v, tuple):
            out[k] = tuple((str(np.asarray(w).dtype), np.asarray(w).shape, np.ascontiguousarray(np.asarray(w)).tobytes()) for w in v)
        else:
            out[k] = repr(v)
    return out


def snap_diff(a, b):
    if isinstance(a, tuple) and isinstance(b, tuple) and len(a) == len(b):
        return sorted(set(sum((snap_diff(x, y) for x, y in zip(a, b)), [])))
    if a is None or b is None or isinstance(a, tuple) or isinstance(b, tuple):
        return [] if a == b else ["<shape>"]
    return sorted(k for k in set(a) | set(b) if a.get(k) != b.get(k))


class Outcome:
    def __init__(self):
        self.inp = None      # RawView of the input
        self.out = None      # Screen or (Screen, Screen)
        self.err = None
        self.rng = None
        self.pops = []
        self.parent_err = None
        self.address_reused = False
        self.history = []    # findings of the history run (object reuse / input mutation / result aliasing): (what, detail)


def _guarded(fn, screen, rng):
    """one call under the recording heap proxy -> (result, error, pops)"""
    import batchie.retrospective as R
    proxy = HeapProxy()
    saved = R.heapq
    R.heapq = proxy
    try:
        return fn(screen, rng), None, proxy.pops
    except Exception as e:   # part of the behaviour: class only
        return None, e, proxy.pops
    finally:
        R.heapq = saved


def execute(case):
    """run the case on the real code.

    `case["hist"]` (a second raw screen): the call is embedded in a history on ONE operation object:
        op(warm, seed+1) ; op(a fresh copy of the input, seed+7) ; op(input, seed) [judged, compared with the model] ; op(input, seed+2)
    the input must be bit-identical afterwards, the judged result must not change when the later call runs, and it must equal
    -- output, draw trace, heap trace and final generator state -- what a fresh object gives on a fresh copy of the input with the
    same seed (so a per-object cache that skips a draw when the same screen comes back with ANOTHER generator shows).

    `case["temps"]` (raw screens of the same size as the input): the same object is first called on each of them built as a
    TEMPORARY (only the result is kept), then on the input, also a temporary -- CPython reuses the freed addresses, so a memo keyed
    by `id(screen)` (+ size) hands back another screen's result."""
    if case.get("verbose") and not case.get("_in_verbose"):
        # HARDENING item 19: the whole execution (constructor, operation, history calls) under the `batchie` logger at DEBUG
        with common.verbose_logging():
            return execute(dict(case, _in_verbose=True))
    o = Outcome()
    try:
        work = build_work(case["raw"], case.get("layout"))
        o.inp = RawView(case["raw"])
    except Exception as e:
        o.parent_err = e
        return o
    call = make_call(case)
    if case.get("temps"):
        from batchie.data import Screen
        del work
        kept, seen_ids = [], set()
        try:
            kws = [screen_kwargs(r) for r in case["temps"]] + [screen_kwargs(case["raw"], case.get("layout"))]
            scr = Screen(**kws[0])
            for kw in kws[1:]:
                seen_ids.add(id(scr))
                kept.append(_guarded(call, scr, RecRng(case["npseed"]))[0])
                del scr                 # the temporary dies ...
                scr = Screen(**kw)      # ... and the next screen is allocated at once: CPython hands out the freed address again
        except Exception as e:
            o.parent_err = e
            return o
        o.address_reused = id(scr) in seen_ids
        rng = RecRng(case["npseed"])
        o.rng = rng
        o.out, o.err, o.pops = _guarded(call, scr, rng)
        return o
    hist = case.get("hist")
    if hist is not None:
        try:
            warm = S.build(hist)
        except Exception:
            warm = None
        if warm is not None:
            _guarded(call, warm, RecRng(case["npseed"] + 1))
        _guarded(call, build_work(case["raw"], case.get("layout")), RecRng(case["npseed"] + 7))
    before = snapshot(work)
    rng = RecRng(case["npseed"])
    o.rng = rng
    o.out, o.err, o.pops = _guarded(call, work, rng)
    d = snap_diff(before, snapshot(work))      # every case: the input must be bit-identical after the call
    if d:
        o.history.append(("the operation modified its input screen in place", d))
    if hist is not None:
        out_snap = snapshot(o.out)
        trace = lambda oo: (impl_canon(case, oo), repr(oo.rng.log), list(oo.pops), repr(oo.rng.g.bit_generator.state))
        mine = trace(o)
        _guarded(call, work, RecRng(case["npseed"] + 2))
        if o.out is not work:
            d = snap_diff(out_snap, snapshot(o.out))
            if d:
                o.history.append(("an earlier result changed when the operation was called again", d))
        d = snap_diff(before, snapshot(work))
        if d and not o.history:
            o.history.append(("the operation modified its input screen in place", d))
        fresh = Outcome()
        fresh.rng = RecRng(case["npseed"])
        fresh.out, fresh.err, fresh.pops = _guarded(make_call(case), build_work(case["raw"], case.get("layout")), fresh.rng)
        theirs = trace(fresh)
        if theirs != mine:
            which = [n for n, a, b in zip(("output", "draw trace", "heap trace", "generator state"), mine, theirs) if a != b]
            o.history.append(("a reused operation object answers differently from a fresh one",
                              {"differs in": which, "reused": mine[0][:300], "fresh": theirs[0][:300]}))
    return o


# ------------------------------------------------------------------ protocol

def nat_list(l):
    return "-" if not l else ",".join(str(int(x)) for x in l)


def nat_ll(ll):
    return "-" if not ll else ";".join(("_" if not l else ",".join(str(int(x)) for x in l)) for l in ll)


def names_list(l):
    return "_" if not l else ",".join(S.name_tok(str(x)) for x in l)


def names_ll(ll):
    return "-" if not ll else ";".join(names_list(l) for l in ll)


def driver_line(case, o):
    op, p = case["op"], case["params"]
    log = o.rng.log if o.rng is not None else []
    perms = [e[2] for e in log if e[0] == "permutation"]
    choices = [e[2] for e in log if e[0] == "choice"]
    raw = S.raw_to_tokens(case["raw"])
    if op == "gen-perm":
        force = p["force"] or []
        return "gen-perm %s %s %s" % (names_list(force) if force else "-", names_list(perms[0]) if perms else "-", raw)
    if op == "gen-seg":
        return "gen-seg %d %s %s" % (p["max"], nat_ll(perms), raw)
    if op == "gen-pair":
        assign = [e[2] for e in log if e[0] == "choice" and e[1] and all(isinstance(x, str) for x in e[1])]
        pin = [e[1] for e in log if e[0] == "permutation"]
        anchor = pin[0] if (p["anchor"] > 0 and pin) else []   # the value of unique[argsort(-counts)[:k]] the code went on with
        return "gen-pair %d %d %s %s %s %s" % (p["subset"], p["anchor"], nat_list(anchor), nat_ll(perms), names_ll(assign), raw)
    if op == "sm-fixed":
        return "sm-fixed %d %s %s" % (p["k"], nat_ll(choices), raw)
    if op == "sm-opt":
        return "sm-opt %s %s" % (nat_ll(choices), raw)
    if op == "sm-nplate":
        return "sm-nplate %d %s" % (p["k"], raw)
    if op == "sm-mergemin":
        return "sm-mergemin %d %s %s" % (p["k"], nat_list(o.pops), raw)
    if op == "sm-topbottom":
        return "sm-topbottom %d %s" % (p["k"], raw)
    if op == "sm-ensemble":
        return "sm-ensemble %d %d %d %s %s %s" % (p["min_size"], p["n_iter"], p["min_n"], nat_list(o.pops), nat_ll(choices), raw)
    if op == "cover":
        return "cover %d %s %s" % (1 if p["reveal"] else 0, nat_list([c[0] for c in choices]), raw)
    if op == "combofilter":
        return "combofilter " + raw
    if op == "ho-bal":
        return "ho-bal %d %s %s" % (S.bits(p["fraction"]), nat_ll(choices), raw)
    if op == "ho-rand":
        return "ho-rand %d %s %s" % (S.bits(p["fraction"]), nat_list(choices[0]) if choices else "-", raw)
    raise ValueError(op)


def show_out(t):
    return ("ok " + S.show_rows(t) + "|obs=" + S.lst(str(S.bits(x)) for x in t.observations)
            + "|mask=" + S.lst("1" if b else "0" for b in t.observation_mask) + "|pids=" + S.show_ids(t.plate_ids))


def impl_canon(case, o):
    if o.parent_err is not None:
        return "parent-" + S.err_tok(o.parent_err)
    if o.err is not None:
        return S.err_tok(o.err)
    if isinstance(o.out, tuple):
        a, b = o.out
        return S.show_screen(a) + "|" + S.show_rows(a) + "#" + S.show_screen(b)[3:] + "|" + S.show_rows(b)
    return show_out(o.out)


# ------------------------------------------------------------------ row views used by the oracles

def rows(s, plate=False, mask=False, force_mask=None):
    out = []
    tn, td = s.treatment_names, s.treatment_doses
    for i in range(s.size):
        r = (str(s.sample_names[i]), tuple(str(x) for x in tn[i]), tuple(S.bits(x) for x in td[i]), S.bits(s.observations[i]))
        if plate:
            r = r + (str(s.plate_names[i]),)
        if mask:
            r = r + (bool(s.observation_mask[i]) if force_mask is None else force_mask,)
        out.append(r)
    return out


def sub_multiset(a, b):
    ca, cb = Counter(a), Counter(b)
    return all(cb[k] >= v for k, v in ca.items())


def unobs_plates(s):
    """{plate name: [row indices]} of the unobserved rows"""
    d = {}
    for i in range(s.size):
        if not s.observation_mask[i]:
            d.setdefault(str(s.plate_names[i]), []).append(i)
    return d


def plates_by_sample(s):
    """{sample: sorted sizes of its unobserved plates}; a multi-sample plate is attributed to every sample it touches"""
    d = {}
    for p, idx in unobs_plates(s).items():
        for smp in set(str(s.sample_names[i]) for i in idx):
            d.setdefault(smp, []).append(len(idx))
    return {k: sorted(v) for k, v in d.items()}


def single_sample_design(s):
    return all(len(set(str(s.sample_names[i]) for i in idx)) == 1 for idx in unobs_plates(s).values())


def nontrivial(case, o):
    if o.inp is None or o.err is not None:
        return False
    s = o.inp
    return s.size >= 4 and len(unobs_plates(s)) + (0 if case["op"] != "cover" else 2) >= 2 and len(set(s.sample_names.tolist())) >= 1


# ------------------------------------------------------------------ oracles shared by C11 and C13 (HARDENING classes 1, 2, 5)

def is_control(raw, nm, d):
    return nm == raw["ctrl"] or d <= 0


EXPERIMENT_ATTRS = ("_observations", "_observation_mask", "_sample_names", "_treatment_names", "_treatment_doses")


def tie(res, prop, case, what, detail):
    """something the harness pins down that the property TEXT does not state (HARDENING item 14): reported as a broken tie
    (`no-failing-input-found`), never as a violation with a replay"""
    res.disagree("%s:%s:%s" % (prop, case["op"], what), case, str(detail)[:600], "harness expectation beyond the property text: " + what)


def oracle_common(res, case, o, prop):
    """history findings and result attributes.  Only ONE of these is a property violation: C11 says experiments are never altered,
    so an operation that changes sample / treatments / doses / observation values / masks of its INPUT screen, or of a result it
    returned earlier, violates C11.  Everything else here (plate labels of the input relabelled in place, a reused object answering
    differently from a fresh one, id / attribute bookkeeping of results -- C01's subject) is outside the text of C11 / C13: tie."""
    op = case["op"]
    for what, detail in o.history:
        touched = detail if isinstance(detail, list) else []
        if prop == "C11" and any(k in EXPERIMENT_ATTRS for k in touched) and "reused" not in what:
            res.fail(what, case, touched, "experiments (sample, treatments, doses, observation value, mask) are never altered",
                     signature="%s:%s:%s" % (prop, op, what))
        else:
            tie(res, prop, case, what, detail)
    if o.err is not None or o.out is None:
        return
    outs = o.out if isinstance(o.out, tuple) else (o.out,)
    raw = case["raw"]
    for t in outs:
        n = int(t.size)
        # attribute completeness: the per-row arrays are found by introspection, every one of them is looked at
        for k, v in vars(t).items():
            if isinstance(v, np.ndarray) and v.ndim >= 1 and k not in PER_ROW:
                tie(res, prop, case, "result screen carries an array attribute no oracle looks at", k)
        for k in PER_ROW:
            v = getattr(t, k, None)
            if not isinstance(v, np.ndarray) or v.shape[0] != n:
                tie(res, prop, case, "per-row attribute missing or of the wrong length", {k: None if v is None else list(np.shape(v))})
                return
        for ids, names, lab in ((t._plate_ids, t.plate_names, "plate"), (t._sample_ids, t._sample_names, "sample")):
            pairs = set((int(i), str(x)) for i, x in zip(ids, names))
            if not (len(pairs) == len(set(i for i, _ in pairs)) == len(set(x for _, x in pairs))):
                tie(res, prop, case, "%s ids of the result do not correspond one-to-one to %s names" % (lab, lab), sorted(pairs)[:6])
        tp = set()
        bad = False
        for i in range(n):
            for k in range(t._treatment_ids.shape[1]):
                tid, nm, d = int(t._treatment_ids[i][k]), str(t._treatment_names[i][k]), float(t._treatment_doses[i][k])
                if (tid == -1) != is_control(raw, nm, d):
                    bad = True
                if tid != -1:
                    tp.add((tid, nm, d))
        if bad or not (len(tp) == len(set(x[0] for x in tp)) == len(set(x[1:] for x in tp))):
            tie(res, prop, case, "treatment ids of the result do not correspond to (name, dose)", sorted(tp)[:6])


# ------------------------------------------------------------------ C11 oracles

def oracles_c11(res, case, o):
    op = case["op"]
    if o.inp is None or o.err is not None or o.out is None:
        return
    s = o.inp
    fail = lambda what, obs, req, sig=None: res.fail(what, case, obs, req, signature=sig or ("C11:" + op + ":" + what))
    if op in ("ho-bal", "ho-rand"):
        keep, hold = o.out
        f = case["params"]["fraction"]
        if Counter(rows(keep, plate=True)) + Counter(rows(hold, plate=True)) != Counter(rows(s, plate=True)):
            fail("training + hold-out differs from the input as multisets of (experiment, plate)",
                 {"training": keep.size, "holdout": hold.size}, {"input": s.size})
            return
        if not bool(np.all(hold.observation_mask)):
            fail("hold-out is not fully observed", [bool(b) for b in hold.observation_mask], "all True")
        if not sub_multiset(rows(keep, plate=True, mask=True), rows(s, plate=True, mask=True)):
            fail("training rows do not carry their original mask", None, "mask as it was")
        got = Counter(str(x) for x in hold.plate_names)
        if op == "ho-bal":
            size = Counter(str(x) for x in s.plate_names)
            seen = {str(x): bool(m) for x, m in zip(s.plate_names, s.observation_mask)}
            for nm in sorted(size):
                want = 0 if seen[nm] else math.ceil(size[nm] * f)
                if got.get(nm, 0) != want:
                    fail("hold-out takes the wrong number of experiments from a plate",
                         {"plate": nm, "observed": seen[nm], "size": size[nm], "taken": got.get(nm, 0), "fraction": f}, want)
                    return
            if set(got) - set(size):
                fail("hold-out has a plate label that is not in the input", sorted(set(got) - set(size)), "input plates")
        else:
            if hold.size != math.ceil(s.size * f):
                fail("random hold-out has the wrong size", int(hold.size), math.ceil(s.size * f))
        return
    if op in ("cover", "combofilter"):
        t = o.out
        if op == "cover":
            if Counter(rows(t)) != Counter(rows(s)):     # "generators keep all of them": a multiset statement (row order: tie with the model)
                fail("initial-plate generation does not keep exactly the input experiments", {"n_out": int(t.size)}, {"n_in": int(s.size)})
        # the combination filter is not a subject of C11's text (C13 states which rows it keeps): model tie only
        return
    t = o.out
    obs_in = [r for r in rows(s, plate=True, mask=True) if r[-1]]
    obs_out = [r for r in rows(t, plate=True, mask=True) if r[-1]]
    if Counter(obs_in) != Counter(obs_out):
        fail("observed part is not carried through unchanged and observed", {"n_out": len(obs_out)}, {"n_in": len(obs_in)})
    un_in = [r[:-1] for r in rows(s, mask=True) if not r[-1]]
    un_out = [r[:-1] for r in rows(t, mask=True) if not r[-1]]
    if op in GENERATORS:      # "generators keep all of them, smoothers keep a sub-collection" (that merging drops nothing: model tie)
        if Counter(un_in) != Counter(un_out):
            fail("unobserved experiments are not conserved", {"n_out": len(un_out)}, {"n_in": len(un_in)})
    else:
        if not sub_multiset(un_out, un_in):
            fail("smoothed experiments are not a sub-collection of the input", {"n_out": len(un_out)}, {"n_in": len(un_in)})
    if t.size > s.size:
        fail("output has more experiments than the input", int(t.size), int(s.size))


# ------------------------------------------------------------------ C13 oracles

def halve(n, k):
    for _ in range(k):
        if n <= 1:
            break
        n = n - n // 2
    return n


def combo_reference(raw):
    ctrl = raw["ctrl"]
    is_ctrl = lambda nm, d: nm == ctrl or d <= 0
    in_combo = set()
    for rn, rd in zip(raw["tnames"], raw["tdoses"]):
        if not any(is_ctrl(a, b) for a, b in zip(rn, rd)):
            in_combo.update((a, float(b)) for a, b in zip(rn, rd))
    return [all(is_ctrl(a, b) or (a, float(b)) in in_combo for a, b in zip(rn, rd)) for rn, rd in zip(raw["tnames"], raw["tdoses"])]


def oracles_c13(res, case, o):
    op, p = case["op"], case["params"]
    if o.inp is None or o.err is not None or o.out is None or isinstance(o.out, tuple):
        return
    s, t = o.inp, o.out
    fail = lambda what, obs, req, sig=None: res.fail(what, case, obs, req, signature=sig or ("C13:" + op + ":" + what))
    up_in, up_out = unobs_plates(s), unobs_plates(t)
    sizes_in = sorted(len(v) for v in up_in.values())
    sizes_out = sorted(len(v) for v in up_out.values())
    if op in ("gen-seg", "gen-pair") and up_in:
        for nm, idx in up_out.items():
            smp = set(str(t.sample_names[i]) for i in idx)
            if len(smp) != 1:
                fail("generated plate holds more than one sample", {"plate": nm, "samples": sorted(smp)}, "single sample")
                return
            if op == "gen-seg" and len(idx) > p["max"]:
                fail("generated plate exceeds max_plate_size", {"plate": nm, "size": len(idx)}, p["max"])
                return
    if op == "cover":
        m = np.asarray(t.observation_mask, dtype=bool)
        for smp in set(t.sample_names.tolist()):
            if not np.any(m & (t.sample_names == smp)):
                fail("initial plate observes no experiment of a sample", str(smp), ">= 1")
        seen = set(np.asarray(t.treatment_ids)[m].flatten().tolist())
        for tid in set(np.asarray(t.treatment_ids).flatten().tolist()):
            if tid not in seen:
                fail("initial plate observes no experiment of a treatment", int(tid), ">= 1")
        if len(up_out) > 1:
            fail("unobserved remainder is not a single plate", sorted(up_out), "one plate")
        if len(set(str(x) for x in t.plate_names[m])) > 1:      # not stated by the text (only the remainder is "one unobserved plate")
            tie(res, "C13", case, "initial plate is not one plate", sorted(set(str(x) for x in t.plate_names[m])))
    if op == "combofilter":
        ref = combo_reference(case["raw"])
        want = [r for r, k in zip(rows(s), ref) if k]
        if Counter(rows(t)) != Counter(want):       # "keeps exactly the experiments ...": which experiments, not their order / labels
            fail("combination filter keeps the wrong experiments", {"kept": int(t.size)}, {"should_keep": len(want)})
    if op == "sm-fixed" and up_in:
        k = p["k"]
        if any(x != k for x in sizes_out):
            fail("fixed-size smoothing leaves a plate of another size", sizes_out, k)
        elif k > 0 and len(sizes_out) != sum(1 for x in sizes_in if x >= k):    # the text only demands one common size
            tie(res, "C13", case, "fixed-size smoothing drops a plate that is large enough", {"plates_out": len(sizes_out), "sizes_in": sizes_in})
    if op == "sm-opt" and up_in:
        if len(set(sizes_out)) > 1:
            fail("optimal-size smoothing leaves plates of different sizes", sizes_out, "one common size")
        else:
            kept = sum(sizes_out)
            best = max(sz * sum(1 for x in sizes_in if x >= sz) for sz in range(1, max(sizes_in) + 2))
            if kept != best:
                fail("optimal-size smoothing does not retain the most experiments", {"retained": kept, "sizes_in": sizes_in}, best)
    if op in ("sm-nplate", "sm-ensemble") and up_in:
        k = p["k"] if op == "sm-nplate" else p["min_n"]
        for smp, szs in plates_by_sample(t).items():
            if len(szs) < k:
                fail("a sample is left with fewer unobserved plates than configured", {"sample": smp, "plates": len(szs)}, k)
        if op == "sm-nplate":
            pin = plates_by_sample(s)
            pout = plates_by_sample(t)
            for smp, szs in pin.items():
                if len(szs) >= k and pout.get(smp) != szs:      # the text only demands that no sample is left with fewer plates
                    tie(res, "C13", case, "a sample with enough plates lost experiments", {"sample": smp, "in": szs, "out": pout.get(smp)})
    if op in MERGES and up_in:
        # merging only coarsens the plate partition, within one sample
        un_idx_in = [i for i in range(s.size) if not s.observation_mask[i]]
        un_idx_out = [i for i in range(t.size) if not t.observation_mask[i]]
        if len(un_idx_in) == len(un_idx_out):
            pin = [str(s.plate_names[i]) for i in un_idx_in]
            pout = [str(t.plate_names[i]) for i in un_idx_out]
            smp = [str(s.sample_names[i]) for i in un_idx_in]
            img = {}
            for a, b in zip(pin, pout):
                if img.setdefault(a, b) != b:       # the text speaks about which plates are MERGED only
                    tie(res, "C13", case, "a plate was split by a merge smoother", a)
                    break
            srcs, samp = {}, {}
            for a, b, x in zip(pin, pout, smp):
                srcs.setdefault(b, set()).add(a)
                samp.setdefault(b, set()).add(x)
            for b in srcs:
                if len(srcs[b]) > 1 and len(samp[b]) > 1:
                    fail("plates of different samples were merged", {"plate": b, "samples": sorted(samp[b])}, "same sample")
                    break
        if op == "sm-mergemin":
            k = p["k"]
            for smp_, szs in plates_by_sample(t).items():
                if len(szs) >= 2 and szs[0] + szs[1] <= k:
                    fail("min-merging stopped although the two smallest plates fit", {"sample": smp_, "sizes": szs}, k)
            if single_sample_design(s):
                merged = Counter(sizes_out) - Counter(sizes_in)
                for sz in merged:
                    if sz > max(k, 0):
                        fail("min-merging produced a plate above the limit", {"size": sz}, k)
        if op == "sm-topbottom":
            pin, pout = plates_by_sample(s), plates_by_sample(t)
            for smp_, szs in pin.items():
                want = halve(len(szs), p["k"])
                if len(pout.get(smp_, [])) != want:
                    fail("top-bottom merging does not halve (rounding up) the plates of a sample",
                         {"sample": smp_, "before": len(szs), "after": len(pout.get(smp_, []))}, want)


# ------------------------------------------------------------------ common run / replay

def clause_counters(res, case, o):
    """how often the generated inputs make each clause of C11 / C13 non-trivial (evidence `distribution`)"""
    if o.inp is None or o.err is not None or o.out is None:
        return
    op, p, s = case["op"], case["params"], o.inp
    up = unobs_plates(s)
    a = case["raw"]["arity"]
    if isinstance(o.out, tuple):
        f = p["fraction"]
        if op == "ho-bal":
            ks = [math.ceil(len(v) * f) for v in up.values()]
            if any(k >= 2 for k in ks):
                res.count("clause.ho-bal: some plate with ceil(fraction x size) >= 2")
            if any(len(v) >= 12 and 2 <= math.ceil(len(v) * f) < len(v) for v in up.values()):
                res.count("clause.ho-bal: plate of >= 12 rows, 2 <= count < size")
            if up and not bool(np.all(~s.observation_mask)):
                res.count("clause.ho-bal: observed and unobserved plates together")
        elif math.ceil(s.size * f) >= 2:
            res.count("clause.ho-rand: count >= 2")
        return
    t = o.out
    un = ~np.asarray(s.observation_mask, dtype=bool)
    if un.any() and op not in ("cover", "combofilter"):
        veh = [i for i in range(s.size) if un[i] and all(
            str(s.treatment_names[i][k]) == case["raw"]["ctrl"] or s.treatment_doses[i][k] <= 0 for k in range(a))]
        if veh:
            res.count("clause.%s: unobserved vehicle-only rows" % op)
        if a >= 3:
            res.count("clause.%s: arity >= 3" % op)
        if (~un).any():
            res.count("clause.%s: observed part present" % op)
    if op in GENERATORS and un.any():
        n_out = len(unobs_plates(t))
        if n_out >= 11:
            res.count("clause.%s: >= 11 unobserved plates in the result" % op)
    if op == "gen-seg" and un.any():
        per = Counter(str(s.sample_names[i]) for i in range(s.size) if un[i])
        if sum(1 for v in per.values() if v <= p["max"]) >= 2:
            res.count("clause.gen-seg: >= 2 samples at or below the limit")
        if any(v == p["max"] for v in per.values()):
            res.count("clause.gen-seg: sample exactly at the limit")
    if op == "sm-topbottom" and single_sample_design(s):
        for smp, szs in plates_by_sample(s).items():
            n, it = len(szs), 0
            while it < p["k"] and n > 1:
                if n % 2 == 1 and n >= 3 and it + 1 < p["k"]:
                    res.count("clause.sm-topbottom: odd count >= 3 before the last iteration")
                    break
                n, it = n - n // 2, it + 1
    if op == "sm-mergemin" and single_sample_design(s):
        for smp, szs in plates_by_sample(t).items():
            if len(szs) >= 2 and szs[0] + szs[1] == p["k"] + 1:
                res.count("clause.sm-mergemin: stopped at exactly limit + 1")
        if any(sz == p["k"] for sz in (Counter(len(v) for v in unobs_plates(t).values()) - Counter(len(v) for v in up.values()))):
            res.count("clause.sm-mergemin: merged to exactly the limit")
    if op == "sm-opt" and up:
        sizes = [len(v) for v in up.values()]
        vals = sorted((sz * sum(1 for x in sizes if x >= sz) for sz in set(sizes)), reverse=True)
        if len(vals) >= 2 and vals[0] == vals[1]:
            res.count("clause.sm-opt: retained count ties between two sizes")
    if op == "sm-fixed" and up and any(len(v) == p["k"] for v in up.values()) and any(len(v) > p["k"] for v in up.values()):
        res.count("clause.sm-fixed: plates exactly at and above the size")
    if op == "sm-nplate" and single_sample_design(s):
        pin = plates_by_sample(s)
        drop = sorted(x for x, v in pin.items() if len(v) < p["k"])
        if len(drop) >= 2 and len(drop) < len(pin):
            res.count("clause.sm-nplate: >= 2 samples dropped, some kept")


def digest(case, o):
    if o.parent_err is not None:
        return "parent"
    return common.short_hash([driver_line(case, o), impl_canon(case, o)])


def xproc_digests(cases, hashseed):
    """digests of the cases re-executed in ANOTHER interpreter with another PYTHONHASHSEED (HARDENING class 6)"""
    import json, os, subprocess, sys, tempfile
    d = tempfile.mkdtemp()
    try:
        fn = os.path.join(d, "cases.json")
        with open(fn, "w") as f:
            json.dump(cases, f)
        env = dict(os.environ, PYTHONHASHSEED=str(hashseed))
        p = subprocess.run([sys.executable, "-m", "harness.prep_common", fn], cwd=common.VERIF, env=env, stdout=subprocess.PIPE,
                           stderr=subprocess.PIPE, text=True, timeout=600)
        if p.returncode != 0:
            return None
        return json.loads(p.stdout.strip().split("\n")[-1])
    finally:
        import shutil
        shutil.rmtree(d, ignore_errors=True)


def class_counters(res, case, o, fam):
    """HARDENING_CHECKLIST classes: how many cases of this run fall into each (evidence `distribution`, keys `class.*`)"""
    op, p, raw = case["op"], case["params"], case["raw"]
    if o.parent_err is not None:
        return
    ret = o.err is None and o.out is not None
    if ret:
        res.count("class.input-mutation: input screen (all arrays, by bytes) identical after the call")
    if case.get("hist") is not None and ret:
        res.count("class.object-reuse: op(other screen); op(input); op(input) on ONE object == fresh object")
        res.count("class.aliasing: judged result bit-identical after later calls")
    if case.get("hist") is not None and ret:
        res.count("class.reuse-different-seed: op(x, seed') then op(x, seed) on ONE object == fresh op(x, seed) in output, draw trace, generator state")
    if case.get("temps") and ret and o.address_reused:
        res.count("class.temporaries: the judged input screen got the ADDRESS of an earlier temporary (id() collision observed)")
    if case.get("temps") and ret:
        res.count("class.temporaries: same object on 5 same-size temporary screens, then on the input as a temporary")
    if ret and o.inp.size >= 257:
        res.count("class.int-width: screen of >= 257 rows")
    if ret and op in GENERATORS and len(unobs_plates(o.out)) >= 128:
        res.count("class.int-width: >= 128 generated plates" + (" (>= 256)" if len(unobs_plates(o.out)) >= 256 else ""))
    if ret and isinstance(o.out, tuple) and any(len(v) in (255, 256, 257) for v in unobs_plates(o.inp).values()):
        res.count("class.int-width: hold-out from a plate of 255/256/257 rows")
    if case.get("layout") and ret:
        res.count("class.memory-layout: " + case["layout"])
    if ret and any(len(x) >= 25 for x in raw["pnames"]):
        res.count("class.memory-layout: plate / sample / treatment names >= 25 characters")
    if ret and raw.get("tmap") is not None:
        res.count("class.non-default-ids: supplied mappings (superset => id gaps)")
        if list(raw["smap"][1]) != sorted(raw["smap"][1]) or [x for x in raw["tmap"][2] if x >= 0] != sorted(x for x in raw["tmap"][2] if x >= 0):
            res.count("class.non-default-ids: supplied mappings with shuffled rows and permuted ids")
    if ret:
        cells = [(nm, d) for rn, rd in zip(raw["tnames"], raw["tdoses"]) for nm, d in zip(rn, rd)]
        if cells and not any(is_control(raw, nm, d) for nm, d in cells):
            res.count("class.non-default-ids: screen without any control")
        if any(nm == raw["ctrl"] and d > 0 for nm, d in cells):
            res.count("class.non-default-ids: named control with a positive dose")
        res.count("class.attribute-completeness: result screens whose array attributes were enumerated by introspection",
                  2 if isinstance(o.out, tuple) else 1)
    s = o.inp
    m = np.asarray(s.observation_mask, dtype=bool)
    if ret and m.any() and (~m).any():
        first_un, last_un = int(np.argmax(~m)), int(len(m) - 1 - np.argmax(~m[::-1]))
        if m[:first_un].any() or m[first_un:last_un].any():
            res.count("class.row-order: observed rows before / between unobserved rows (%s)" % ("hold-out" if isinstance(o.out, tuple) else "other"))
        else:
            res.count("class.row-order: every unobserved row precedes every observed row")
    if ret and s.size >= 3:
        def scattered(col):
            seen, last = set(), None
            for x in col:
                if x != last and x in seen:
                    return True
                seen.add(x)
                last = x
            return False
        if scattered([str(x) for x in s.plate_names]):
            res.count("class.row-order: rows of a plate not contiguous")
        if scattered([str(x) for x in s.sample_names]):
            res.count("class.row-order: rows of a sample not contiguous (A,B,A)")
    if ret:
        if case["npseed"] == 0:
            res.count("class.falsy: generator seed 0")
        if s.size == 1:
            res.count("class.falsy: one-row screen")
        if any(p.get(k) == 1 for k in ("max", "k", "subset", "min_size", "n_iter", "min_n")):
            res.count("class.falsy: size parameter 1")
        if any(p.get(k) == 0 for k in ("max", "k", "subset", "min_size", "n_iter", "min_n", "anchor")) or p.get("fraction") == 0.0 or p.get("force") == []:
            res.count("class.falsy: parameter 0 / fraction 0 / empty force list")
        if op == "sm-nplate" and single_sample_design(s) and (~m).any():
            pin = plates_by_sample(s)
            un_samples = sorted(set(str(s.sample_names[i]) for i in range(s.size) if not m[i]))
            if un_samples and len(pin.get(un_samples[0], [])) < p["k"] and len(pin) > 1:
                res.count("class.falsy: the sample with id 0 is the one to drop")
        if isinstance(o.out, tuple) and o.rng is not None and any(e[0] == "choice" and 0 in e[2] for e in o.rng.log):
            res.count("class.falsy: row 0 drawn into the hold-out")
    if ret and op in GENERATORS and (~m).any():
        k = len(unobs_plates(o.out))
        if k >= 11:
            res.count("class.size-boundary: >= 11 generated plates (two-digit names)")
        if k >= 101:
            res.count("class.size-boundary: >= 101 generated plates (three-digit names)")
    if ret and op == "gen-pair" and (~m).any():
        a = raw["arity"]
        combo, single = set(), set()
        for i in range(s.size):
            if not m[i]:
                ctl = [is_control(raw, raw["tnames"][i][k], raw["tdoses"][i][k]) for k in range(a)]
                (single if any(ctl) else combo).add(str(s.sample_names[i]))
        cs, ss = sorted(combo), sorted(single)
        if ss and ss != cs[:len(ss)]:
            res.count("class.non-default-ids: samples with single-agent rows are not a sorted prefix of the samples with combinations")
    if fam == "xproc":
        res.count("class.cross-process: cases repeated in another interpreter with another PYTHONHASHSEED")


def run_property(ctx, res, prop, oracle, rule, extra_stream=None):
    res.rule = rule
    rng = ctx.subrng(prop, "prep")
    frng = ctx.subrng(prop, "flags")
    per_op = ctx.scale(37, 540, 200)
    todo = []
    for op in OPS:
        for j in range(per_op):
            case = gen_case(rng, op)
            if j < ctx.scale(3, 8, 4):          # history on one object: reuse / aliasing of results
                add_history(frng, case)
            elif j % 5 == 0:                    # memory layouts of the input arrays
                case["layout"] = LAYOUTS[(j // 5) % len(LAYOUTS)]
            elif j % 11 == 3:
                long_names(case["raw"])
            todo.append(("random", case))
    for fam, case in directed_cases(ctx.subrng(prop, "directed"), ctx.scale(2, 8, 4)):
        u = frng.random()
        if u < 0.12:
            case["layout"] = frng.choice(LAYOUTS)
        elif u < 0.2:
            long_names(case["raw"])
        elif u < 0.26 and len(case["raw"]["snames"]) <= 40:
            add_history(frng, case)
        todo.append((fam, case))
    for idx, (fam, case) in enumerate(todo):
        if idx % 8 == 5 or (fam in ("falsy", "wide-seg", "wide-holdout", "seg-101", "no-control") and idx % 2 == 0):
            case["verbose"] = True
    lines, expect, cases = [], [], []
    xp = []
    for idx, (fam, case) in enumerate(todo):
        op = case["op"]
        o = execute(case)
        if case.get("verbose"):
            res.count("class.verbose-logging: case executed under verbose_logging(), compared with the quiet run")
            quiet = {k: v for k, v in case.items() if k != "verbose"}
            oq = execute(quiet)
            same = (impl_canon(quiet, oq) == impl_canon(case, o) and (oq.rng is None) == (o.rng is None)
                    and (o.rng is None or repr(oq.rng.log) == repr(o.rng.log)) and list(oq.pops) == list(o.pops))
            if not same:
                tie(res, prop, case, "the result under DEBUG logging differs from the quiet run (output, draw trace or heap trace)", None)
        res.evaluations += 1
        res.count("op." + op)
        if fam != "random":
            res.count("directed." + fam)
        if o.parent_err is not None:
            res.count("parent-error")
            continue
        res.count("outcome." + ("error:" + type(o.err).__name__ if o.err is not None else "returned"))
        if fam != "random" and o.err is not None:
            res.count("directed-error.%s.%s" % (fam, type(o.err).__name__))
        res.count("rows.%s" % ("1-5" if o.inp.size <= 5 else "6-15" if o.inp.size <= 15 else "16-40" if o.inp.size <= 40 else "41+"))
        if o.rng is not None and any(e[0].startswith("other:") for e in o.rng.log):
            res.notes.append("unrecorded generator method used by %s: %s" % (op, [e[0] for e in o.rng.log if e[0].startswith("other:")][:3]))
        if o.rng is not None and o.rng.unexpected:
            res.count("wrapper.unexpected-call")
            tie(res, prop, case, "a recording wrapper of the harness met a call form it does not understand", o.rng.unexpected[:2])
        oracle(res, case, o)
        oracle_common(res, case, o, prop)
        clause_counters(res, case, o)
        class_counters(res, case, o, fam)
        if nontrivial(case, o):
            res.nontrivial.add((op, common.short_hash(case)))
        line = driver_line(case, o)
        out = impl_canon(case, o)
        if rng.random() < 0.01:
            res.sample({"op": op, "params": case["params"], "line": line[:400], "impl": out[:300]})
        lines.append(line)
        expect.append(out)
        cases.append(case)
        if case.get("hist") is None and o.err is None and o.inp.size <= 60:
            xp.append((case, digest(case, o)))
    # ---- cross-process repetition with another hash seed: per operation the cases with the most distinct names
    # (set / dict-of-str iteration order can only matter when there are several names)
    want = ctx.scale(5, 20, 10)
    by_op = {}
    for c, d in xp:
        by_op.setdefault(c["op"], []).append((len(set(c["raw"]["snames"])) * 3 + len(set(c["raw"]["pnames"])), len(by_op.get(c["op"], [])), c, d))
    xp = []
    for op_ in OPS:
        for _, _, c, d in sorted(by_op.get(op_, []), key=lambda t: (-t[0], t[1]))[:want]:
            xp.append((c, d))
    if xp:
        hs = 1 + (ctx.seed * 7919 + 12345) % 4000000
        got = xproc_digests([c for c, _ in xp], hs)
        if got is None:
            res.notes.append("cross-process repetition could not be run")
        else:
            for (c, d), g in zip(xp, got):
                res.count("class.cross-process: cases repeated in another interpreter with another PYTHONHASHSEED")
                if g != d:      # not a clause of C11 / C13 (both quantify over all draws): broken tie -- the replay of a case would not be reproducible
                    tie(res, prop, dict(c, xproc=hs), "the result depends on PYTHONHASHSEED (same screen, parameters and generator seed in another interpreter)", [g, d])
    if extra_stream is not None:
        extra_stream(ctx, res, prop, lines, expect, cases)
    if res.oracle_failures and ctx.mode != "replay":
        # put a failure whose case reproduces on its own first (check.py writes the FIRST failure as the replay file); failures that
        # need state left behind by other cases (identity-keyed memo) may not reproduce in a fresh process
        from vlib.common import Result as _R
        for i, f in enumerate(res.oracle_failures[:12]):
            if f["case"].get("op") == "pipeline":
                break
            r2 = _R()
            try:
                replay_property(ctx, f["case"], r2, oracle, prop)
            except Exception:
                continue
            if r2.oracle_failures:
                res.oracle_failures.insert(0, res.oracle_failures.pop(i))
                break
    if ctx.driver is not None:
        got = ctx.driver.ask(lines)
        for l, e, g, c in zip(lines, expect, got, cases):
            if e != g:
                res.disagree("%s:%s" % (prop, c["op"]), c, e[:800], g[:800])
        res.traces_validated += len(lines)


def replay_property(ctx, case, res, oracle, prop=None):
    # the case is re-executed up to eight times in this process: a failure that needs state left behind by earlier calls
    # (module-level memo, identity-keyed cache hitting a recycled address) shows from the second execution on
    for _ in range(8):
        o = execute(case)
        oracle(res, case, o)
        oracle_common(res, case, o, prop or ctx.prop)
        if res.oracle_failures:
            break


if __name__ == "__main__":
    # child of `xproc_digests`: re-execute the cases of a JSON file, print their digests
    import json as _json
    import sys as _sys
    logging.disable(logging.CRITICAL)
    with open(_sys.argv[1]) as _f:
        _cases = _json.load(_f)
    print(_json.dumps([digest(c, execute(c)) for c in _cases]))
