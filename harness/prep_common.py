"""Shared machinery of the C11 / C13 harnesses: the retrospective preparation layer
(generators, smoothers, initial plate, combination filter, hold-out splits).

* real operations are run with a *recording* generator (duck-typed `rng`) and a recording proxy for
  `batchie.retrospective.heapq`; the recorded values are the choice log handed to the Lean model;
* `execute(case)` is deterministic in the case (screen, parameters, numpy seed), so a case replays exactly;
* `oracles_c11` / `oracles_c13` evaluate the property clauses on the implementation's observable output only.

What is canonicalised: nothing is reordered -- every operation is deterministic given the log, so the output rows are
compared in order (names, doses as exact rationals, sample, plate, observation bits, mask, plate ids).  Not compared:
the stale `plate_mapping` the merge smoothers leave behind (they re-encode `_plate_ids` only).
"""
import heapq as _heapq
import math
from collections import Counter

import numpy as np

from vlib import common
from harness import screens as S

common.use_repo_sources()

import logging  # noqa: E402
logging.getLogger("batchie").setLevel(logging.ERROR)   # the wrappers warn when nothing is unobserved

OPS = ["gen-perm", "gen-seg", "gen-pair", "sm-fixed", "sm-opt", "sm-nplate", "sm-mergemin", "sm-topbottom",
       "sm-ensemble", "cover", "combofilter", "ho-bal", "ho-rand"]
GENERATORS = ("gen-perm", "gen-seg", "gen-pair")
SMOOTHERS = ("sm-fixed", "sm-opt", "sm-nplate", "sm-mergemin", "sm-topbottom", "sm-ensemble")
MERGES = ("sm-mergemin", "sm-topbottom")

PLATE_POOL = ["p1", "p10", "p2", "P", "", "plate é", "generated_plate_0", "generated_plate_1", "q", "r", "zz", "a",
              "b", "c", "d", "e", "f", "g", "h", "i", "j", "k", "initial_plate", "unobserved_pl", "generated_plate_10"]
SAMPLE_POOL = ["s1", "s2", "s3", "S", "", "é", "s10", "cell line", "zz"]
TREAT_POOL = ["a", "b", "c", "d", "ab", "B", "e", "f"]


# ------------------------------------------------------------------ recording proxies

class RecRng:
    """recording wrapper around a seeded numpy Generator (the rng argument is duck-typed everywhere)"""

    def __init__(self, seed):
        self.g = np.random.default_rng(seed)
        self.log = []

    def permutation(self, x):
        out = self.g.permutation(x)
        self.log.append(("permutation", np.asarray(x).tolist(), np.asarray(out).tolist()))
        return out

    def choice(self, a, size=None, replace=True, **kw):
        out = self.g.choice(a, size, replace=replace, **kw)
        self.log.append(("choice", list(np.asarray(a).tolist()), np.atleast_1d(np.asarray(out)).tolist(), bool(replace)))
        return out

    def __getattr__(self, name):
        # anything else the code might start calling is recorded by name and delegated
        def f(*a, **k):
            self.log.append(("other:" + name,))
            return getattr(self.g, name)(*a, **k)
        return f


class HeapProxy:
    def __init__(self):
        self.pops = []

    def heapify(self, h):
        _heapq.heapify(h)

    def heappush(self, h, x):
        _heapq.heappush(h, x)

    def heappop(self, h):
        p = _heapq.heappop(h)
        self.pops.append(int(np.argmax(p.selection_vector)))
        return p


# ------------------------------------------------------------------ screens

def gen_screen(rng, style, arity=None, n_scale=1):
    """raw screen for the preparation operations.  style:
       seg    one-sample-per-plate design (merge / n-plate smoothers), assorted plate sizes
       mixed  plates cut across samples
       lump   all unobserved rows in a single plate
       full   fully observed (initial plate generator)"""
    a = arity if arity is not None else rng.choice([2, 2, 2, 2, 1, 3])
    ctrl = rng.choice(["", "control", "dmso", "a"])
    tpool = rng.sample(TREAT_POOL, rng.randint(2, 6)) + ([ctrl] if rng.random() < 0.7 else [])
    dpool = rng.sample([0.0, 1.0, 2.0, 0.5, -1.0, 10.0, 0.1], rng.randint(2, 4))
    if all(d <= 0 for d in dpool):
        dpool.append(1.0)
    samples = rng.sample(SAMPLE_POOL, rng.randint(1, 4))
    pnames = rng.sample(PLATE_POOL, len(PLATE_POOL))
    rows = []  # (sample, plate, observed)
    if style == "seg":
        for s in samples:
            for _ in range(rng.randint(1, 4)):
                p = pnames.pop()
                for _ in range(rng.choice([1, 1, 2, 2, 3, 3, 4, 5, 6]) * (n_scale if rng.random() < 0.3 else 1)):
                    rows.append((s, p, False))
        for _ in range(rng.choice([0, 0, 1, 2])):
            p = pnames.pop()
            for _ in range(rng.randint(1, 4)):
                rows.append((rng.choice(samples), p, True))
    elif style in ("mixed", "lump", "full"):
        n_pl = 1 if style == "lump" else rng.randint(1, 6)
        plist = [pnames.pop() for _ in range(n_pl)]
        observed = {p: (style == "full") for p in plist}
        n = rng.randint(1, 14 * n_scale)
        # a few samples with few experiments each, sometimes one dominant sample
        weights = [rng.choice([1, 1, 2, 5]) for _ in samples]
        for _ in range(n):
            s = rng.choices(samples, weights)[0]
            rows.append((s, rng.choice(plist), None))
        rows = [(s, p, observed[p]) for s, p, _ in rows]
        if style != "full":
            for _ in range(rng.choice([0, 0, 1, 2])):
                p = pnames.pop()
                for _ in range(rng.randint(1, 4)):
                    rows.append((rng.choice(samples), p, True))
    rng.shuffle(rows)
    n = len(rows)
    tn, td = [], []
    for _ in range(n):
        if rng.random() < 0.25 and a >= 2:
            # single-agent row: one control cell (by name or by dose)
            r_n = [rng.choice(tpool) for _ in range(a)]
            r_d = [rng.choice([d for d in dpool if d > 0]) for _ in range(a)]
            k = rng.randrange(a)
            if rng.random() < 0.5:
                r_n[k] = ctrl
            else:
                r_d[k] = rng.choice([0.0, -1.0])
        else:
            r_n = [rng.choice(tpool) for _ in range(a)]
            r_d = [rng.choice(dpool) for _ in range(a)]
        tn.append(r_n)
        td.append(r_d)
    # observation values: distinct (so that moving a value between rows is visible), a few duplicates and zeros
    obs = [round((i + 1) / (n + 3.0), 6) for i in range(n)]
    rng.shuffle(obs)
    for i in range(n):
        if rng.random() < 0.08:
            obs[i] = rng.choice([0.0, 0.5, 1.0, obs[0]])
    mask = [o for _, _, o in rows]
    if style == "full" and rng.random() < 0.5:
        mask = None
    return dict(ctrl=ctrl, arity=a, tnames=tn, tdoses=td, snames=[s for s, _, _ in rows], pnames=[p for _, p, _ in rows],
                obs=obs, mask=mask, tmap=None, smap=None)


def gen_pair_screen(rng):
    """arity-2 screen where (mostly) every single-agent sample also has combination rows"""
    raw = gen_screen(rng, rng.choice(["mixed", "lump", "seg"]), arity=2)
    if rng.random() < 0.8:
        ctrl = raw["ctrl"]
        good = [x for x in TREAT_POOL if x != ctrl]
        for s in set(raw["snames"]):
            # make sure the sample has an unobserved combination row
            idx = [i for i, x in enumerate(raw["snames"]) if x == s and not raw["mask"][i]]
            if idx:
                i = rng.choice(idx)
                raw["tnames"][i] = [rng.choice(good), rng.choice(good)]
                raw["tdoses"][i] = [1.0, rng.choice([1.0, 2.0])]
    return raw


def gen_case(rng, op):
    seed = rng.randrange(2 ** 31)
    p = {}
    if op == "gen-perm":
        raw = gen_screen(rng, rng.choice(["mixed", "seg", "lump"]))
        m = rng.random()
        present = sorted(set(raw["pnames"]))
        if m < 0.35:
            p["force"] = None
        elif m < 0.45:
            p["force"] = []
        else:
            p["force"] = rng.sample(present, rng.randint(1, len(present))) + (["nope"] if rng.random() < 0.2 else [])
    elif op == "gen-seg":
        raw = gen_screen(rng, rng.choice(["mixed", "lump", "seg", "mixed"]))
        sizes = list(Counter(s for s, m in zip(raw["snames"], raw["mask"] or [True] * len(raw["snames"])) if not m).values()) or [1]
        p["max"] = rng.choice([1, 2, 3, 4, 5, 7, rng.choice(sizes), rng.choice(sizes), max(sizes) + 1, 0 if rng.random() < 0.3 else 2,
                               -1 if rng.random() < 0.3 else 3])
    elif op == "gen-pair":
        raw = gen_pair_screen(rng)
        p["subset"] = rng.choice([1, 1, 2, 2, 3, 0 if rng.random() < 0.3 else 1, -1 if rng.random() < 0.3 else 2])
        p["anchor"] = rng.choice([0, 0, 1, 2, 3, -1])
    elif op == "sm-fixed":
        raw = gen_screen(rng, rng.choice(["seg", "mixed", "seg"]))
        p["k"] = rng.choice([0, 1, 2, 2, 3, 3, 4, 5, 6, -1 if rng.random() < 0.4 else 2])
    elif op == "sm-opt":
        raw = gen_screen(rng, rng.choice(["seg", "mixed", "seg", "lump"]))
    elif op == "sm-nplate":
        raw = gen_screen(rng, rng.choice(["seg", "seg", "seg", "mixed"]))
        p["k"] = rng.choice([0, 1, 2, 2, 3, 3, 4, -1])
    elif op == "sm-mergemin":
        raw = gen_screen(rng, rng.choice(["seg", "seg", "seg", "mixed"]))
        p["k"] = rng.choice([0, 1, 2, 3, 4, 5, 6, 8, 10, 14, 100, -1])
    elif op == "sm-topbottom":
        raw = gen_screen(rng, rng.choice(["seg", "seg", "seg", "mixed"]))
        p["k"] = rng.choice([0, 1, 1, 2, 2, 3, 5])
    elif op == "sm-ensemble":
        raw = gen_screen(rng, rng.choice(["seg", "seg", "seg", "mixed"]))
        p["min_size"] = rng.choice([0, 2, 3, 4, 6, 10])
        p["n_iter"] = rng.choice([0, 1, 2])
        p["min_n"] = rng.choice([0, 1, 2, 3])
    elif op == "cover":
        raw = gen_screen(rng, "full" if rng.random() < 0.9 else "mixed")
        p["reveal"] = rng.random() < 0.5
    elif op == "combofilter":
        raw = gen_screen(rng, rng.choice(["mixed", "full", "seg"]), arity=rng.choice([2, 2, 2, 3, 1]))
    elif op in ("ho-bal", "ho-rand"):
        raw = gen_screen(rng, rng.choice(["mixed", "seg", "lump", "full"]))
        if rng.random() < 0.3:
            try:
                raw["tmap"], raw["smap"] = S.superset_mappings(rng, raw)
            except Exception:
                raw["tmap"] = raw["smap"] = None
        p["fraction"] = rng.choice([0.0, 1.0, 0.5, 0.1, 0.25, 1 / 3.0, 0.2, 0.7, 0.9999, 1e-9, rng.random(), rng.random(),
                                    -0.1 if rng.random() < 0.3 else 0.5, 1.5 if rng.random() < 0.3 else 1.0])
    else:
        raise ValueError(op)
    if (op in GENERATORS or op in SMOOTHERS) and rng.random() < 0.04:
        # nothing unobserved: the wrappers return the input screen itself
        full = gen_screen(rng, "full")
        full["mask"] = [True] * len(full["snames"])
        raw = full
    return {"op": op, "params": p, "raw": raw, "npseed": seed}


# ------------------------------------------------------------------ running the real code

class Outcome:
    def __init__(self):
        self.inp = None      # the input Screen (fresh)
        self.out = None      # Screen or (Screen, Screen)
        self.err = None
        self.rng = None
        self.pops = []
        self.parent_err = None


def execute(case):
    import batchie.retrospective as R
    from batchie.data import filter_dataset_to_treatments_that_appear_in_at_least_one_combo
    o = Outcome()
    try:
        o.inp = S.build(case["raw"])
        work = S.build(case["raw"])
    except Exception as e:
        o.parent_err = e
        return o
    op, p = case["op"], case["params"]
    rng = RecRng(case["npseed"])
    o.rng = rng
    proxy = HeapProxy()
    saved = R.heapq
    R.heapq = proxy
    try:
        if op == "gen-perm":
            o.out = R.PlatePermutationPlateGenerator(force_include_plate_names=p["force"]).generate_plates(work, rng)
        elif op == "gen-seg":
            o.out = R.SampleSegregatingPermutationPlateGenerator(max_plate_size=p["max"]).generate_plates(work, rng)
        elif op == "gen-pair":
            o.out = R.PairwisePlateGenerator(subset_size=p["subset"], anchor_size=p["anchor"]).generate_plates(work, rng)
        elif op == "sm-fixed":
            o.out = R.FixedSizeSmoother(plate_size=p["k"]).smooth_plates(work, rng)
        elif op == "sm-opt":
            o.out = R.OptimalSizeSmoother().smooth_plates(work, rng)
        elif op == "sm-nplate":
            o.out = R.NPlatePerCellLineSmoother(min_n_cell_line_plates=p["k"]).smooth_plates(work, rng)
        elif op == "sm-mergemin":
            o.out = R.MergeMinPlateSmoother(min_size=p["k"]).smooth_plates(work, rng)
        elif op == "sm-topbottom":
            o.out = R.MergeTopBottomPlateSmoother(n_iterations=p["k"]).smooth_plates(work, rng)
        elif op == "sm-ensemble":
            o.out = R.BatchieEnsemblePlateSmoother(min_size=p["min_size"], n_iterations=p["n_iter"],
                                                   min_n_cell_line_plates=p["min_n"]).smooth_plates(work, rng)
        elif op == "cover":
            o.out = R.SparseCoverPlateGenerator(reveal_single_treatment_experiments=p["reveal"]).generate_and_unmask_initial_plate(work, rng)
        elif op == "combofilter":
            o.out = filter_dataset_to_treatments_that_appear_in_at_least_one_combo(work)
        elif op == "ho-bal":
            o.out = R.create_plate_balanced_holdout_set_among_masked_plates(work, p["fraction"], rng)
        elif op == "ho-rand":
            o.out = R.create_random_holdout(work, p["fraction"], rng)
        else:
            raise ValueError(op)
    except Exception as e:  # part of the behaviour: class only
        o.err = e
    finally:
        R.heapq = saved
    o.pops = proxy.pops
    return o


# ------------------------------------------------------------------ protocol

def nat_list(l):
    return "-" if not l else ",".join(str(int(x)) for x in l)


def nat_ll(ll):
    return "-" if not ll else ";".join(("_" if not l else ",".join(str(int(x)) for x in l)) for l in ll)


def names_list(l):
    return "_" if not l else ",".join(S.name_tok(str(x)) for x in l)


def names_ll(ll):
    return "-" if not ll else ";".join(names_list(l) for l in ll)


def driver_line(case, o):
    op, p = case["op"], case["params"]
    log = o.rng.log if o.rng is not None else []
    perms = [e[2] for e in log if e[0] == "permutation"]
    choices = [e[2] for e in log if e[0] == "choice"]
    raw = S.raw_to_tokens(case["raw"])
    if op == "gen-perm":
        force = p["force"] or []
        return "gen-perm %s %s %s" % (names_list(force) if force else "-", names_list(perms[0]) if perms else "-", raw)
    if op == "gen-seg":
        return "gen-seg %d %s %s" % (p["max"], nat_ll(perms), raw)
    if op == "gen-pair":
        assign = [e[2] for e in log if e[0] == "choice" and e[1] and all(isinstance(x, str) for x in e[1])]
        pin = [e[1] for e in log if e[0] == "permutation"]
        anchor = pin[0] if (p["anchor"] > 0 and pin) else []   # the value of unique[argsort(-counts)[:k]] the code went on with
        return "gen-pair %d %d %s %s %s %s" % (p["subset"], p["anchor"], nat_list(anchor), nat_ll(perms), names_ll(assign), raw)
    if op == "sm-fixed":
        return "sm-fixed %d %s %s" % (p["k"], nat_ll(choices), raw)
    if op == "sm-opt":
        return "sm-opt %s %s" % (nat_ll(choices), raw)
    if op == "sm-nplate":
        return "sm-nplate %d %s" % (p["k"], raw)
    if op == "sm-mergemin":
        return "sm-mergemin %d %s %s" % (p["k"], nat_list(o.pops), raw)
    if op == "sm-topbottom":
        return "sm-topbottom %d %s" % (p["k"], raw)
    if op == "sm-ensemble":
        return "sm-ensemble %d %d %d %s %s %s" % (p["min_size"], p["n_iter"], p["min_n"], nat_list(o.pops), nat_ll(choices), raw)
    if op == "cover":
        return "cover %d %s %s" % (1 if p["reveal"] else 0, nat_list([c[0] for c in choices]), raw)
    if op == "combofilter":
        return "combofilter " + raw
    if op == "ho-bal":
        return "ho-bal %d %s %s" % (S.bits(p["fraction"]), nat_ll(choices), raw)
    if op == "ho-rand":
        return "ho-rand %d %s %s" % (S.bits(p["fraction"]), nat_list(choices[0]) if choices else "-", raw)
    raise ValueError(op)


def show_out(t):
    return ("ok " + S.show_rows(t) + "|obs=" + S.lst(str(S.bits(x)) for x in t.observations)
            + "|mask=" + S.lst("1" if b else "0" for b in t.observation_mask) + "|pids=" + S.show_ids(t.plate_ids))


def impl_canon(case, o):
    if o.parent_err is not None:
        return "parent-" + S.err_tok(o.parent_err)
    if o.err is not None:
        return S.err_tok(o.err)
    if isinstance(o.out, tuple):
        a, b = o.out
        return S.show_screen(a) + "|" + S.show_rows(a) + "#" + S.show_screen(b)[3:] + "|" + S.show_rows(b)
    return show_out(o.out)


# ------------------------------------------------------------------ row views used by the oracles

def rows(s, plate=False, mask=False, force_mask=None):
    out = []
    tn, td = s.treatment_names, s.treatment_doses
    for i in range(s.size):
        r = (str(s.sample_names[i]), tuple(str(x) for x in tn[i]), tuple(S.bits(x) for x in td[i]), S.bits(s.observations[i]))
        if plate:
            r = r + (str(s.plate_names[i]),)
        if mask:
            r = r + (bool(s.observation_mask[i]) if force_mask is None else force_mask,)
        out.append(r)
    return out


def sub_multiset(a, b):
    ca, cb = Counter(a), Counter(b)
    return all(cb[k] >= v for k, v in ca.items())


def unobs_plates(s):
    """{plate name: [row indices]} of the unobserved rows"""
    d = {}
    for i in range(s.size):
        if not s.observation_mask[i]:
            d.setdefault(str(s.plate_names[i]), []).append(i)
    return d


def plates_by_sample(s):
    """{sample: sorted sizes of its unobserved plates}; a multi-sample plate is attributed to every sample it touches"""
    d = {}
    for p, idx in unobs_plates(s).items():
        for smp in set(str(s.sample_names[i]) for i in idx):
            d.setdefault(smp, []).append(len(idx))
    return {k: sorted(v) for k, v in d.items()}


def single_sample_design(s):
    return all(len(set(str(s.sample_names[i]) for i in idx)) == 1 for idx in unobs_plates(s).values())


def nontrivial(case, o):
    if o.inp is None or o.err is not None:
        return False
    s = o.inp
    return s.size >= 4 and len(unobs_plates(s)) + (0 if case["op"] != "cover" else 2) >= 2 and len(set(s.sample_names.tolist())) >= 1


# ------------------------------------------------------------------ C11 oracles

def oracles_c11(res, case, o):
    op = case["op"]
    if o.inp is None or o.err is not None or o.out is None:
        return
    s = o.inp
    fail = lambda what, obs, req, sig=None: res.fail(what, case, obs, req, signature=sig or ("C11:" + op + ":" + what))
    if op in ("ho-bal", "ho-rand"):
        keep, hold = o.out
        f = case["params"]["fraction"]
        if Counter(rows(keep, plate=True)) + Counter(rows(hold, plate=True)) != Counter(rows(s, plate=True)):
            fail("training + hold-out differs from the input as multisets of (experiment, plate)",
                 {"training": keep.size, "holdout": hold.size}, {"input": s.size})
            return
        if not bool(np.all(hold.observation_mask)):
            fail("hold-out is not fully observed", [bool(b) for b in hold.observation_mask], "all True")
        if not sub_multiset(rows(keep, plate=True, mask=True), rows(s, plate=True, mask=True)):
            fail("training rows do not carry their original mask", None, "mask as it was")
        got = Counter(str(x) for x in hold.plate_names)
        if op == "ho-bal":
            for pl in s.plates:
                nm = str(pl.plate_name)
                want = 0 if pl.is_observed else math.ceil(pl.size * f)
                if got.get(nm, 0) != want:
                    fail("hold-out takes the wrong number of experiments from a plate",
                         {"plate": nm, "observed": bool(pl.is_observed), "size": int(pl.size), "taken": got.get(nm, 0)}, want)
                    return
        else:
            if hold.size != math.ceil(s.size * f):
                fail("random hold-out has the wrong size", int(hold.size), math.ceil(s.size * f))
        return
    if op in ("cover", "combofilter"):
        t = o.out
        if op == "cover":
            if rows(t) != rows(s):
                fail("initial-plate generation changed the experiments", None, "same rows in the same order")
        else:
            if not sub_multiset(rows(t, plate=True, mask=True), rows(s, plate=True, mask=True)):
                fail("combination filter output is not a sub-collection of the input", None, "sub-multiset")
        return
    t = o.out
    obs_in = [r for r in rows(s, plate=True, mask=True) if r[-1]]
    obs_out = [r for r in rows(t, plate=True, mask=True) if r[-1]]
    if Counter(obs_in) != Counter(obs_out):
        fail("observed part is not carried through unchanged and observed", {"n_out": len(obs_out)}, {"n_in": len(obs_in)})
    un_in = [r[:-1] for r in rows(s, mask=True) if not r[-1]]
    un_out = [r[:-1] for r in rows(t, mask=True) if not r[-1]]
    if op in GENERATORS or op in MERGES:
        if Counter(un_in) != Counter(un_out):
            fail("unobserved experiments are not conserved", {"n_out": len(un_out)}, {"n_in": len(un_in)})
    else:
        if not sub_multiset(un_out, un_in):
            fail("smoothed experiments are not a sub-collection of the input", {"n_out": len(un_out)}, {"n_in": len(un_in)})
    if t.size > s.size:
        fail("output has more experiments than the input", int(t.size), int(s.size))


# ------------------------------------------------------------------ C13 oracles

def halve(n, k):
    for _ in range(k):
        if n <= 1:
            break
        n = n - n // 2
    return n


def combo_reference(raw):
    ctrl = raw["ctrl"]
    is_ctrl = lambda nm, d: nm == ctrl or d <= 0
    in_combo = set()
    for rn, rd in zip(raw["tnames"], raw["tdoses"]):
        if not any(is_ctrl(a, b) for a, b in zip(rn, rd)):
            in_combo.update((a, float(b)) for a, b in zip(rn, rd))
    return [all(is_ctrl(a, b) or (a, float(b)) in in_combo for a, b in zip(rn, rd)) for rn, rd in zip(raw["tnames"], raw["tdoses"])]


def oracles_c13(res, case, o):
    op, p = case["op"], case["params"]
    if o.inp is None or o.err is not None or o.out is None or isinstance(o.out, tuple):
        return
    s, t = o.inp, o.out
    fail = lambda what, obs, req, sig=None: res.fail(what, case, obs, req, signature=sig or ("C13:" + op + ":" + what))
    up_in, up_out = unobs_plates(s), unobs_plates(t)
    sizes_in = sorted(len(v) for v in up_in.values())
    sizes_out = sorted(len(v) for v in up_out.values())
    if op in ("gen-seg", "gen-pair") and up_in:
        for nm, idx in up_out.items():
            smp = set(str(t.sample_names[i]) for i in idx)
            if len(smp) != 1:
                fail("generated plate holds more than one sample", {"plate": nm, "samples": sorted(smp)}, "single sample")
                return
            if op == "gen-seg" and len(idx) > p["max"]:
                fail("generated plate exceeds max_plate_size", {"plate": nm, "size": len(idx)}, p["max"])
                return
    if op == "cover":
        m = np.asarray(t.observation_mask, dtype=bool)
        for smp in set(t.sample_names.tolist()):
            if not np.any(m & (t.sample_names == smp)):
                fail("initial plate observes no experiment of a sample", str(smp), ">= 1")
        seen = set(np.asarray(t.treatment_ids)[m].flatten().tolist())
        for tid in set(np.asarray(t.treatment_ids).flatten().tolist()):
            if tid not in seen:
                fail("initial plate observes no experiment of a treatment", int(tid), ">= 1")
        if len(up_out) > 1:
            fail("unobserved remainder is not a single plate", sorted(up_out), "one plate")
        if len(set(str(x) for x in t.plate_names[m])) > 1:
            fail("initial plate is not one plate", sorted(set(str(x) for x in t.plate_names[m])), "one plate")
    if op == "combofilter":
        ref = combo_reference(case["raw"])
        want = [r for r, k in zip(rows(s, plate=True, mask=True), ref) if k]
        if rows(t, plate=True, mask=True) != want:
            fail("combination filter keeps the wrong experiments", {"kept": int(t.size)}, {"should_keep": len(want)})
    if op == "sm-fixed" and up_in:
        k = p["k"]
        if any(x != k for x in sizes_out):
            fail("fixed-size smoothing leaves a plate of another size", sizes_out, k)
        elif k > 0 and len(sizes_out) != sum(1 for x in sizes_in if x >= k):
            fail("fixed-size smoothing drops a plate that is large enough", {"plates_out": len(sizes_out), "sizes_in": sizes_in},
                 sum(1 for x in sizes_in if x >= k))
    if op == "sm-opt" and up_in:
        if len(set(sizes_out)) > 1:
            fail("optimal-size smoothing leaves plates of different sizes", sizes_out, "one common size")
        else:
            kept = sum(sizes_out)
            best = max(sz * sum(1 for x in sizes_in if x >= sz) for sz in range(1, max(sizes_in) + 2))
            if kept != best:
                fail("optimal-size smoothing does not retain the most experiments", {"retained": kept, "sizes_in": sizes_in}, best)
    if op in ("sm-nplate", "sm-ensemble") and up_in:
        k = p["k"] if op == "sm-nplate" else p["min_n"]
        for smp, szs in plates_by_sample(t).items():
            if len(szs) < k:
                fail("a sample is left with fewer unobserved plates than configured", {"sample": smp, "plates": len(szs)}, k)
        if op == "sm-nplate":
            pin = plates_by_sample(s)
            pout = plates_by_sample(t)
            for smp, szs in pin.items():
                if len(szs) >= k and pout.get(smp) != szs:
                    fail("a sample with enough plates lost experiments", {"sample": smp, "in": szs, "out": pout.get(smp)}, szs)
    if op in MERGES and up_in:
        # merging only coarsens the plate partition, within one sample
        un_idx_in = [i for i in range(s.size) if not s.observation_mask[i]]
        un_idx_out = [i for i in range(t.size) if not t.observation_mask[i]]
        if len(un_idx_in) == len(un_idx_out):
            pin = [str(s.plate_names[i]) for i in un_idx_in]
            pout = [str(t.plate_names[i]) for i in un_idx_out]
            smp = [str(s.sample_names[i]) for i in un_idx_in]
            img = {}
            for a, b in zip(pin, pout):
                if img.setdefault(a, b) != b:
                    fail("a plate was split by a merge smoother", a, "plates only merge")
                    break
            srcs, samp = {}, {}
            for a, b, x in zip(pin, pout, smp):
                srcs.setdefault(b, set()).add(a)
                samp.setdefault(b, set()).add(x)
            for b in srcs:
                if len(srcs[b]) > 1 and len(samp[b]) > 1:
                    fail("plates of different samples were merged", {"plate": b, "samples": sorted(samp[b])}, "same sample")
                    break
        if op == "sm-mergemin":
            k = p["k"]
            for smp_, szs in plates_by_sample(t).items():
                if len(szs) >= 2 and szs[0] + szs[1] <= k:
                    fail("min-merging stopped although the two smallest plates fit", {"sample": smp_, "sizes": szs}, k)
            if single_sample_design(s):
                merged = Counter(sizes_out) - Counter(sizes_in)
                for sz in merged:
                    if sz > max(k, 0):
                        fail("min-merging produced a plate above the limit", {"size": sz}, k)
        if op == "sm-topbottom":
            pin, pout = plates_by_sample(s), plates_by_sample(t)
            for smp_, szs in pin.items():
                want = halve(len(szs), p["k"])
                if len(pout.get(smp_, [])) != want:
                    fail("top-bottom merging does not halve (rounding up) the plates of a sample",
                         {"sample": smp_, "before": len(szs), "after": len(pout.get(smp_, []))}, want)


# ------------------------------------------------------------------ common run / replay

def run_property(ctx, res, prop, oracle, rule):
    res.rule = rule
    rng = ctx.subrng(prop, "prep")
    per_op = ctx.scale(80, 700, 250)
    lines, expect, cases = [], [], []
    for op in OPS:
        for _ in range(per_op):
            case = gen_case(rng, op)
            o = execute(case)
            res.evaluations += 1
            res.count("op." + op)
            if o.parent_err is not None:
                res.count("parent-error")
                continue
            res.count("outcome." + ("error:" + type(o.err).__name__ if o.err is not None else "returned"))
            res.count("rows.%s" % ("1-5" if o.inp.size <= 5 else "6-15" if o.inp.size <= 15 else "16+"))
            if o.rng is not None and any(e[0].startswith("other:") for e in o.rng.log):
                res.notes.append("unrecorded generator method used by %s: %s" % (op, [e[0] for e in o.rng.log if e[0].startswith("other:")][:3]))
            oracle(res, case, o)
            if nontrivial(case, o):
                res.nontrivial.add((op, common.short_hash(case)))
            line = driver_line(case, o)
            out = impl_canon(case, o)
            if rng.random() < 0.01:
                res.sample({"op": op, "params": case["params"], "line": line[:400], "impl": out[:300]})
            lines.append(line)
            expect.append(out)
            cases.append(case)
    if ctx.driver is not None:
        got = ctx.driver.ask(lines)
        for l, e, g, c in zip(lines, expect, got, cases):
            if e != g:
                res.disagree("%s:%s" % (prop, c["op"]), c, e[:800], g[:800])
        res.traces_validated += len(lines)


def replay_property(ctx, case, res, oracle):
    o = execute(case)
    oracle(res, case, o)
