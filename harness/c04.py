"""C04 -- masked observations never influence training, scoring or selection.

Pairs of real screens that differ only behind the mask (replacement values 0, 1, a finite value, a negative
value, NaN -- "poison": a NaN read anywhere propagates) go through the real code:
  train      Model(...).add_observations(screen.subset_observed())  -> wrapped_model.y/cline/dd1/dd2, single_effect_lookup
  thetas     sampling.sample(model, seed)                              (training is deterministic in the seed)
  distance   calculate_pairwise_distance_matrix_on_predictions(thetas, MSEDistance(), screen)
  scores     score_chunk with GaussianDBALScorer and RandomScorer (same seeded generator), several n_chunks / batches
  selection  ChunkedScoresHolder.concat + select_next_plate
  CLI        the first pairs (negative / NaN / mixed poison) also go through FILES and the command line mains:
             train_model -> calculate_distance_matrix -> calculate_scores (2 chunks, optional batch) -> select_next_plate
  direct     add_observations handed a selection directly (observed rows only / observed + one masked row / masked rows
             only / empty / the partially observed Screen object): same outcome on both screens of the pair, refusal
             whenever a masked row is included, exactly the selected rows recorded otherwise
  build      constructing the poisoned screen itself must succeed (a validation that reads behind the mask is a violation)
Oracles (implementation only): every output identical within a pair; the recorded training tuples are exactly the
observed rows the model documents using (all observed rows for SparseDrugCombo, observed rows without a control
treatment for SparseDrugComboInteraction), once each, in order, with y = logit(clip(float32(obs), .01, .99)) resp.
logit(float32(obs)); single-effect table computed from observed rows only; add_observations refuses a subset with a
masked row, and fully observed input with a negative or NaN observation.
Tie: `train` / `add` / `addpriv` lines to the Lean model (tuples carry the observation's bit pattern; the harness
applies the transform).
"""
import logging
import os
import shutil
import sys
import tempfile

import numpy as np

from vlib import common
from harness import screens as S

common.use_repo_sources()

RULE = ("arity-2 screens with 1-2 samples, 2-4 treatments, 2-5 plates; plate 0 (always observed) holds every single-agent row so the "
        "interaction model can predict everywhere, the other plates hold combinations, repeated conditions and extra singles and are observed "
        "at random (at least one masked); observed values from (0,1) plus 0, 1 and >1; masked values replaced by 0 / 1 / 0.37 / -2.5 / NaN "
        "(one uniform poison per variant plus a mixed one); the first pairs (negative, NaN, mixed) also run the four command line programs on saved files; "
        "hardening classes generated in every run (counters class.*): read-only strided / Fortran / negative-stride / <U64 input arrays, names >= 25 chars, "
        "supplied mappings with id gaps, control spelled three ways, plate id 0 masked, nothing observed, masked +-inf / -0.0, np.int64 batch ids, "
        "batches >= 2, more chunks than plates, one scorer/metric object reused for all calls, one model trained in two instalments, every model attribute "
        "compared by introspection, inputs snapshotted for in-place writes, the CLI chain repeated in a second interpreter with another PYTHONHASHSEED; "
        "every pair also hands random selection vectors (observed only, observed + masked, masked only, empty, whole screen) directly to add_observations. Non-trivial: >=1 masked row, >=2 observed combination rows, >=1 observed "
        "single-agent row, and the pair differs in at least one masked value that is NaN or negative.")

POISONS = [("zero", 0.0), ("one", 1.0), ("finite", 0.37), ("negative", -2.5), ("nan", float("nan")), ("inf", float("inf")),
           ("neginf", float("-inf")), ("negzero", -0.0)]
# order in which the variants are used: the first pairs of a run also go through the command line programs
KIND_ORDER = ["negative", "nan", "mixed", "neginf", "inf", "zero", "one", "finite", "negzero"]
LONG = "_a_name_longer_than_25_characters"
MODELS = [("combo", "batchie.models.sparse_combo", "SparseDrugCombo"),
          ("interaction", "batchie.models.sparse_combo_interaction", "SparseDrugComboInteraction")]


class Demote:
    """a Result view for inputs OUTSIDE the property's quantifier (or clauses the property text does not state): what would be an oracle
    failure becomes a model/implementation disagreement (the check turns red as `no-failing-input-found`, never with a concrete replay)"""

    def __init__(self, res, why):
        object.__setattr__(self, "_res", res)
        object.__setattr__(self, "_why", why)

    def fail(self, what, case, observed, required, signature=None):
        self._res.count("demoted.%s.%s" % (self._why, signature or what))
        self._res.disagree("C04:demoted:%s:%s" % (self._why, signature or what), {k: v for k, v in dict(case).items() if k not in ("raw", "full")},
                           str(observed)[:300], str(required)[:300])

    def __getattr__(self, name):
        return getattr(self._res, name)

    def __setattr__(self, name, value):
        setattr(self._res, name, value)


VERBOSE = [0]      # > 0 while a slice runs under vlib.common.verbose_logging()


def raised_by_harness(e):
    """True when the innermost frame of the exception is harness code (a recording wrapper / proxy of ours): such an exception is a
    broken tie, never the implementation's behaviour"""
    import traceback
    tb = traceback.extract_tb(e.__traceback__)
    return bool(tb) and os.path.abspath(tb[-1].filename).startswith(os.path.join(common.VERIF, "harness"))


def quiet():
    import warnings
    warnings.filterwarnings("ignore")
    np.seterr(all="ignore")
    if not VERBOSE[0]:
        logging.disable(logging.CRITICAL)


class verbose_slice:
    """run a slice the way every batchie command runs under -v/--verbose (logger `batchie` at DEBUG with a formatting sink); the CLI mains
    called inside additionally get `--verbose` (see _main)"""

    def __enter__(self):
        self.cm = common.verbose_logging()
        self.sink = self.cm.__enter__()
        VERBOSE[0] += 1
        return self

    def __exit__(self, *a):
        VERBOSE[0] -= 1
        r = self.cm.__exit__(*a)
        quiet()
        return r


def get_model_cls(kind):
    import importlib
    for k, mod, cls in MODELS:
        if k == kind:
            return getattr(importlib.import_module(mod), cls)
    raise KeyError(kind)


def gen_base(rng, big=False, force=None):
    """raw screen (no poison yet); masked rows carry 0.5.  `force`: None | "no-observed" | "plate0-masked" """
    ns = rng.randint(1, 2)
    samples = ["s%d" % i for i in range(ns)]
    names = rng.sample(["a", "b", "c", "d"], rng.randint(2, 3))
    doses = rng.sample([1.0, 2.0, 0.5], rng.randint(1, 2))
    long_names = rng.random() < 0.2
    if long_names:      # names longer than any fixed-width buffer a refactor might allocate
        samples = [s + LONG for s in samples]
        names = [n + LONG for n in names]
    treats = [(n, d) for n in names for d in doses]
    # three spellings of "no treatment": the control name at dose 0, the control name at a positive dose, a drug at dose 0
    ctrls = [("control", 0.0), ("control", 2.0), (names[0], 0.0)]

    def ctrl():
        return ctrls[0] if rng.random() < 0.6 else rng.choice(ctrls)
    # the plate with every single-agent row: usually the first plate id, sometimes the last (then plate id 0 is an ordinary plate)
    home = "p9" if (force == "plate0-masked" or rng.random() < 0.35) else "p0"
    rows = []   # (plate, sample, t1, t2)
    for s in samples:
        for t in treats:
            rows.append((home, s, t, ctrl()) if rng.random() < 0.5 else (home, s, ctrl(), t))
    for _ in range(rng.randint(2, 4)):
        rows.append((home, rng.choice(samples), rng.choice(treats), rng.choice(treats)))
    npl = rng.randint(2, 6 if big else 4)
    others = ["p%d" % p for p in range(1, npl)] if home == "p0" else ["p%d" % p for p in range(0, npl - 1)]
    for p in others:
        for _ in range(rng.randint(1, 4)):
            r = rng.random()
            t1, t2 = rng.choice(treats), rng.choice(treats)
            if r < 0.15:
                t2 = ctrl()
            elif r < 0.25:
                t1 = ctrl()
            elif r < 0.3:
                t1, t2 = ctrl(), ctrl()
            rows.append((p, rng.choice(samples), t1, t2))
    if rng.random() < 0.5:
        rng.shuffle(rows)
    if long_names:
        rows = [(r[0] + LONG,) + r[1:] for r in rows]
        home, others = home + LONG, [o + LONG for o in others]
    plates = sorted(set(r[0] for r in rows))
    status = {p: (p == home or rng.random() < 0.4) for p in plates}
    if all(status.values()):
        status[rng.choice(others)] = False
    if force == "plate0-masked":
        status[plates[0]] = False
    if force == "no-observed":
        status = {p: False for p in plates}
    pool = [0.1, 0.25, 0.5, 0.75, 0.9, 0.33, 0.62, 0.05, 0.97]
    if rng.random() < 0.2:
        pool = pool + [0.0, 1.0, 1.5]     # legal but degenerate for the interaction model (logit without clip)
    obs = [rng.choice(pool) if status[r[0]] else 0.5 for r in rows]
    raw = dict(ctrl="control", arity=2, tnames=[[r[2][0], r[3][0]] for r in rows], tdoses=[[r[2][1], r[3][1]] for r in rows],
               snames=[r[1] for r in rows], pnames=[r[0] for r in rows], obs=obs, mask=[status[r[0]] for r in rows], tmap=None, smap=None)
    if rng.random() < 0.25:
        # ids that are not positions: mappings of a superset of the data (id gaps, other order)
        tm, sm = S.superset_mappings(rng, raw)
        raw["tmap"] = ([str(x) for x in tm[0]], [float(x) for x in tm[1]], [int(x) for x in tm[2]])
        raw["smap"] = ([str(x) for x in sm[0]], [int(x) for x in sm[1]])
    return raw


def gen_wide(rng, n_obs):
    """a screen whose number of OBSERVED experiments is exactly n_obs (127 / 128 / 255 / 256 / 257: integer-width boundaries of anything
    that counts or indexes training rows, also through the files of the command line chain); three masked plates"""
    samples = ["s0", "s1"]
    treats = [(n, d) for n in ("a", "b", "c") for d in (1.0, 2.0)]
    ctrl = ("control", 0.0)
    rows = []
    for s in samples:
        for t_ in treats:
            rows.append(("p0", s, t_, ctrl) if rng.random() < 0.5 else ("p0", s, ctrl, t_))
    while len(rows) < n_obs:
        rows.append(("p0" if rng.random() < 0.6 else "p1", rng.choice(samples), rng.choice(treats), rng.choice(treats)))
    for p_ in ("p2", "p3", "p4"):
        for _ in range(4):
            t1, t2 = rng.choice(treats), rng.choice(treats)
            if rng.random() < 0.3:
                t2 = ctrl
            rows.append((p_, rng.choice(samples), t1, t2))
    rng.shuffle(rows)
    observed = {"p0": True, "p1": True, "p2": False, "p3": False, "p4": False}
    pool = [0.1, 0.25, 0.5, 0.75, 0.9, 0.33, 0.62, 0.05, 0.97]
    return dict(ctrl="control", arity=2, tnames=[[r[2][0], r[3][0]] for r in rows], tdoses=[[r[2][1], r[3][1]] for r in rows],
                snames=[r[1] for r in rows], pnames=[r[0] for r in rows], obs=[rng.choice(pool) if observed[r[0]] else 0.5 for r in rows],
                mask=[observed[r[0]] for r in rows], tmap=None, smap=None)


def poisoned(raw, rng, kind):
    out = dict(raw)
    vals = dict(POISONS)
    if kind == "mixed":
        inside = [p_ for p_ in POISONS if p_[0] != "inf"]
        out["obs"] = [o if m else rng.choice(inside)[1] for o, m in zip(raw["obs"], raw["mask"])]
    else:
        out["obs"] = [o if m else vals[kind] for o, m in zip(raw["obs"], raw["mask"])]
    return out


def fbits(a, width=64):
    a = np.asarray(a)
    if a.dtype == np.float32:
        return [int(x) for x in a.view(np.uint32).ravel()]
    return [int(x) for x in np.asarray(a, dtype=np.float64).view(np.uint64).ravel()]


def canon(x):
    """exact, NaN-safe canonical form of arrays / scalars / dicts"""
    if isinstance(x, dict):
        return {str(k): canon(v) for k, v in sorted(x.items(), key=lambda kv: str(kv[0]))}
    if isinstance(x, (list, tuple)):
        return [canon(v) for v in x]
    a = np.asarray(x)
    if a.dtype.kind == "f":
        return [str(a.dtype), list(a.shape), fbits(a)]
    if a.dtype.kind in "iub":
        return [str(a.dtype), list(a.shape), [int(v) for v in a.ravel()]]
    return repr(x)


def build_layout(raw, variant):
    """the same Screen as S.build(raw), from arrays with an unusual memory layout: strided views, Fortran order, negative strides,
    read-only buffers, wider fixed-width string dtype"""
    from batchie.data import Screen
    n = len(raw["snames"])
    a = raw["arity"]

    def strided(x):
        big = np.empty((2 * len(x),) + x.shape[1:], dtype=x.dtype)
        big[::2] = x
        big[1::2] = x[::-1] if len(x) else x
        v = big[::2]
        return v

    def rev(x):
        return np.ascontiguousarray(x[::-1])[::-1]      # negative stride

    tn = np.array(raw["tnames"], dtype="<U64").reshape(n, a)
    td = np.array(raw["tdoses"], dtype=float).reshape(n, a)
    sn = np.array(raw["snames"], dtype="<U64")
    pn = np.array(raw["pnames"], dtype="<U64")
    ob = np.array(raw["obs"], dtype=float)
    mk = np.array(raw["mask"], dtype=bool)
    if variant == 0:
        tn, td, sn, pn, ob, mk = np.asfortranarray(tn), np.asfortranarray(td), strided(sn), strided(pn), strided(ob), strided(mk)
    else:
        tn, td, sn, pn, ob, mk = rev(tn), rev(td), rev(sn), rev(pn), rev(ob), rev(mk)
    for x in (tn, td, sn, pn, ob, mk):
        x.setflags(write=False)
    kw = dict(treatment_names=tn, treatment_doses=td, sample_names=sn, plate_names=pn, control_treatment_name=raw["ctrl"],
              observations=ob, observation_mask=mk)
    if raw.get("tmap") is not None:
        kw["treatment_mapping"] = (np.array(raw["tmap"][0], dtype=str), np.array(raw["tmap"][1], dtype=float), np.array(raw["tmap"][2], dtype=int))
    if raw.get("smap") is not None:
        kw["sample_mapping"] = (np.array(raw["smap"][0], dtype=str), np.array(raw["smap"][1], dtype=int))
    return Screen(**kw)


def canon_obj(x, depth=0):
    """canonical form of ANY attribute value, found by introspection (no hand-written attribute list)"""
    if depth > 8:
        return "..."
    if isinstance(x, dict):
        # a defaultdict grows empty entries when it is merely read: an empty list and an absent key are the same table
        return {str(k): canon_obj(v, depth + 1) for k, v in sorted(x.items(), key=lambda kv: str(kv[0]))
                if not (isinstance(v, list) and len(v) == 0)}
    if isinstance(x, (list, tuple)):
        return [canon_obj(v, depth + 1) for v in x]
    if isinstance(x, np.ndarray) or isinstance(x, np.generic):
        a = np.asarray(x)
        if a.dtype.kind in "fiub":
            return canon(a)
        return [str(a.dtype.kind), list(a.shape), [str(v) for v in a.ravel()]]
    if isinstance(x, float):
        return ["float", S.bits(x)]
    if isinstance(x, (int, str, bool)) or x is None:
        return x
    if isinstance(x, np.random.Generator):
        return "<Generator>"
    if hasattr(x, "__dict__") and depth < 3 and type(x).__module__.startswith("batchie") and type(x).__name__ not in ("ExperimentSpace",):
        return {"<%s>" % type(x).__name__: canon_obj(vars(x), depth + 1)}
    return "<%s>" % type(x).__name__


def model_state(m):
    """every attribute of the model wrapper and of the wrapped sampler"""
    return canon_obj(vars(m))


def snapshot(scr):
    """bytes of every array the screen exposes (to detect in-place writes to the inputs, observed or masked)"""
    out = {}
    for name in ("observations", "observation_mask", "treatment_ids", "sample_ids", "plate_ids", "treatment_names", "treatment_doses",
                 "sample_names"):
        a = np.asarray(getattr(scr, name))
        out[name] = (str(a.dtype), a.shape, np.ascontiguousarray(a).tobytes())
    return out


def train_arrays(kind, scr):
    """real model + add_observations(observed subset); returns (model, record)"""
    from batchie.data import ExperimentSpace
    cls = get_model_cls(kind)
    m = cls(experiment_space=ExperimentSpace.from_screen(scr), n_embedding_dimensions=2)
    sub = scr.subset_observed()
    if sub is not None:
        m.add_observations(sub)
    return m, record(kind, m)


def record(kind, m):
    w = m.wrapped_model
    rec = {"y": [np.float32(v) for v in w.y], "cline": [int(v) for v in w.cline], "dd1": [int(v) for v in w.dd1], "dd2": [int(v) for v in w.dd2],
           "n_obs": int(m.n_obs())}
    if kind == "interaction":
        rec["single"] = {(int(k[0]), int(k[1])): float(v) for k, v in m.single_effect_lookup.items()}
    return rec


def rec_canon(rec):
    out = {"y": fbits(np.array(rec["y"], dtype=np.float32)), "cline": rec["cline"], "dd1": rec["dd1"], "dd2": rec["dd2"], "n_obs": rec["n_obs"]}
    if "single" in rec:
        out["single"] = sorted((list(k), S.bits(v)) for k, v in rec["single"].items())
    return out


def transform(kind, obs):
    from scipy.special import logit
    a = np.asarray(obs, dtype=float).astype(np.float32)
    if kind == "combo":
        a = np.clip(a, a_min=0.01, a_max=0.99)
    return logit(a)


def expected_training(kind, scr, sel=None):
    """the documented training set, computed from the screen's public arrays (`sel`: only these rows were handed over)"""
    mask = [bool(x) for x in scr.observation_mask]
    obs = [float(x) for x in scr.observations]
    sids = [int(x) for x in scr.sample_ids]
    tids = [[int(y) for y in r] for r in np.asarray(scr.treatment_ids)]
    rows = [i for i in range(len(mask)) if mask[i] and (sel is None or sel[i])]
    if kind == "interaction":
        use = [i for i in rows if -1 not in tids[i]]
    else:
        use = rows
    exp = {"y": fbits(np.asarray(transform(kind, [obs[i] for i in use]), dtype=np.float32)) if use else [],
           "cline": [sids[i] for i in use], "dd1": [tids[i][0] for i in use], "dd2": [tids[i][1] for i in use], "n_obs": len(use)}
    if kind == "interaction":
        single = {}
        if rows:
            for s in sorted(set(sids[i] for i in rows)):
                for t in sorted(set(x for i in rows for x in tids[i])):
                    if t == -1:
                        single[(s, t)] = 1.0
                        continue
                    vals = [obs[i] for i in rows if sids[i] == s and sorted(tids[i]) == [-1, t]]
                    if vals:
                        single[(s, t)] = float(np.mean(np.array(vals)))
        exp["single"] = sorted((list(k), S.bits(v)) for k, v in single.items())
    return exp, use


def parse_trained(line):
    if not line.startswith("ok "):
        return line
    t, s = line[3:].split("|")
    tuples = [] if t == "tuples=-" else [tuple(int(x) for x in e.split(":")) for e in t[len("tuples="):].split(";")]
    single = []
    if s != "single=-":
        for e in s[len("single="):].split(";"):
            a, b, c = e.split(":")
            single.append(((int(a), int(b)), "one" if c == "one" else [int(x) for x in c.split(",")]))
    return tuples, single


def compare_model(res, kind, case, rec, line, where):
    """driver answer (bit patterns) vs implementation record"""
    got = parse_trained(line)
    if isinstance(got, str):
        res.disagree(where, case, "ok (n_obs=%d)" % rec["n_obs"], got)
        return
    tuples, single = got
    ys = transform(kind, [S.from_bits(t[0]) for t in tuples]) if tuples else []
    m = {"y": fbits(np.asarray(ys, dtype=np.float32)) if tuples else [], "cline": [t[1] for t in tuples], "dd1": [t[2] for t in tuples],
         "dd2": [t[3] for t in tuples], "n_obs": len(tuples)}
    impl = rec_canon(rec)
    if kind == "interaction":
        ms = []
        for k, v in single:
            ms.append((list(k), S.bits(1.0) if v == "one" else S.bits(float(np.mean(np.array([S.from_bits(b) for b in v]))))))
        m["single"] = sorted(ms)
    if m != impl:
        res.disagree(where, case, impl, m)


def thetas_of(model, seed, n=3):
    from batchie import sampling
    from batchie.core import ThetaHolder
    th = ThetaHolder(n_thetas=n)
    sampling.sample(model=model, results=th, seed=seed, n_chains=1, chain_index=0, n_burnin=1, thin=1)
    return th


def theta_canon(th):
    out = []
    for i in range(th.n_thetas):
        t = th.get_theta(i)
        out.append([canon(t.private_parameters_dict()), canon(t.shared_parameters_dict())])
    return out


def downstream(scr, th, batches, ncs, reuse=False):
    """distance matrix, scores, selection for one screen + thetas; every value exact.
    reuse: ONE metric / scorer object serves every call (different chunk sizes, batches) instead of a fresh one per call"""
    from batchie.distance_calculation import calculate_pairwise_distance_matrix_on_predictions, ChunkedDistanceMatrix
    from batchie.distance.mse import MSEDistance
    from batchie.scoring.main import score_chunk, ChunkedScoresHolder, select_next_plate
    from batchie.scoring.gaussian_dbal import GaussianDBALScorer
    from batchie.scoring.rand import RandomScorer
    out = {}
    metric = MSEDistance()
    parts = [calculate_pairwise_distance_matrix_on_predictions(thetas=th, distance_metric=(metric if reuse else MSEDistance()), data=scr,
                                                               chunk_index=c, n_chunks=2)
             for c in range(2)]
    shared = {"dbal": GaussianDBALScorer(max_chunk=2, max_triples=50), "random": RandomScorer()}
    dm = ChunkedDistanceMatrix.concat(parts)
    out["distance"] = canon(dm.to_dense())
    for b in batches:
        for n in ncs:
            for name, mk in (("dbal", lambda: GaussianDBALScorer(max_chunk=2, max_triples=50)), ("random", lambda: RandomScorer())):
                hs = []
                for idx in range(n):
                    h = score_chunk(scorer=(shared[name] if reuse else mk()), thetas=th, screen=scr, distance_matrix=dm, rng=np.random.default_rng(17 + idx), n_chunks=n,
                                    chunk_index=idx, batch_plate_ids=list(b))
                    hs.append(h)
                comb = ChunkedScoresHolder.concat(hs)
                key = "%s|b=%s|n=%d" % (name, ",".join(map(str, b)), n)
                out["scores|" + key] = [[int(x) for x in comb.plate_ids], fbits(comb.scores)]
                sel = select_next_plate(scores=comb, screen=scr, policy=None, batch_plate_ids=list(b), rng=np.random.default_rng(3))
                out["select|" + key] = None if sel is None else int(sel.plate_id)
    return out


def first_diff(a, b):
    if isinstance(a, dict) and isinstance(b, dict):
        for k in sorted(set(a) | set(b)):
            if a.get(k) != b.get(k):
                return k
    return "value"


def _main(mod, argv):
    """the real `batchie.cli.<stage>.main()` with this argv; under a verbose slice with `--verbose` (configure_logging resets the level)"""
    import contextlib
    lg = logging.getLogger("batchie")
    handlers, level = list(lg.handlers), lg.level
    old = sys.argv
    sys.argv = list(argv) + (["--verbose"] if VERBOSE[0] else [])
    try:
        with open(os.devnull, "w") as devnull, contextlib.redirect_stderr(devnull), contextlib.redirect_stdout(devnull):
            mod.main()
    finally:
        sys.argv = old
        lg.handlers = handlers          # configure_logging adds a stream handler per call
        lg.setLevel(level)
        quiet()


def run_cli_train(env, scr, kind, seed, batch=()):
    """the retrospective-simulation path on FILES: train_model -> calculate_distance_matrix -> calculate_scores (2 chunks)
    -> select_next_plate, every step through its command line main(); returns every output, exact"""
    from batchie.cli import train_model, calculate_distance_matrix, calculate_scores, select_next_plate as snp
    from batchie.core import ThetaHolder
    from batchie.distance_calculation import ChunkedDistanceMatrix
    from batchie.scoring.main import ChunkedScoresHolder
    k = run_cli_train.k
    run_cli_train.k += 1
    data = os.path.join(env, "d_%d.h5" % k)
    out = os.path.join(env, "t_%d.h5" % k)
    scr.save_h5(data)
    cls = [c for kk, _, c in MODELS if kk == kind][0]
    _main(train_model, ["train_model", "--data", data, "--model", cls, "--model-param", "n_embedding_dimensions=2", "--output", out, "--n-samples", "3",
                        "--n-burnin", "1", "--thin", "1", "--n-chains", "1", "--chain-index", "0", "--seed", str(seed)])
    th = ThetaHolder(n_thetas=3).load_h5(out)
    res = {"thetas": theta_canon(th)}
    step = "calculate_distance_matrix"
    try:
        dmf = os.path.join(env, "dm_%d.h5" % k)
        _main(calculate_distance_matrix, ["calculate_distance_matrix", "--data", data, "--thetas", out, "--distance-metric", "MSEDistance",
                                          "--n-chunks", "1", "--chunk-index", "0", "--output", dmf])
        res["distance"] = canon(ChunkedDistanceMatrix.load(dmf).to_dense())
        sfs = []
        step = "calculate_scores"
        for idx in range(2):
            sf = os.path.join(env, "s_%d_%d.h5" % (k, idx))
            argv = ["calculate_scores", "--scorer", "GaussianDBALScorer", "--data", data, "--thetas", out, "--distance-matrix", dmf,
                    "--n-chunks", "2", "--chunk-index", str(idx), "--output", sf, "--seed", "3"]
            if batch:
                argv += ["--batch-plate-ids"] + [str(b) for b in batch]
            _main(calculate_scores, argv)
            h = ChunkedScoresHolder.load_h5(sf)
            res["scores%d" % idx] = [[int(x) for x in h.plate_ids], fbits(h.scores)]
            sfs.append(sf)
        selp = os.path.join(env, "sel_%d.txt" % k)
        step = "select_next_plate"
        argv = ["select_next_plate", "--data", data, "--scores"] + sfs + ["--output", selp]
        if batch:
            argv += ["--batch-plate-id"] + [str(b) for b in batch]
        _main(snp, argv)
        with open(selp) as f:
            res["selected"] = f.read()
    except Exception as e:   # noqa: BLE001  (e.g. the interaction model cannot predict a treatment without single-agent data)
        res["downstream_error"] = "%s in %s" % (type(e).__name__, step)
    return res


def sub_main(path):
    """entry point of the second interpreter process (other PYTHONHASHSEED): the command line chain for one screen"""
    import json
    quiet()
    with open(path) as f:
        job = json.load(f)
    env = tempfile.mkdtemp(prefix="verif_c04_sub_")
    try:
        scr = S.build(job["raw"])
        try:
            out = run_cli_train(env, scr, job["kind"], job["seed"], job["batch"])
        except Exception as e:   # noqa: BLE001
            out = {"train_error": type(e).__name__}
        with open(job["out"], "w") as f:
            json.dump(out, f)
    finally:
        shutil.rmtree(env, ignore_errors=True)


def chain_in_other_process(env, raw, kind, seed, batch):
    import json
    import subprocess
    job = os.path.join(env, "job_%d.json" % run_cli_train.k)
    outp = job + ".out"
    with open(job, "w") as f:
        json.dump({"raw": raw, "kind": kind, "seed": seed, "batch": [int(b) for b in batch], "out": outp}, f)
    e = dict(os.environ, PYTHONHASHSEED="4242", BATCHIE_REPO=common.REPO)
    code = "import sys; sys.path.insert(0, %r); from harness import c04; c04.sub_main(sys.argv[1])" % common.VERIF
    p = subprocess.run([sys.executable, "-c", code, job], env=e, stdout=subprocess.PIPE, stderr=subprocess.STDOUT, text=True, timeout=300)
    if not os.path.exists(outp):
        raise RuntimeError("second process failed: " + p.stdout[-500:])
    with open(outp) as f:
        return json.load(f)


run_cli_train.k = 0


def one_pair(ctx, res, env, case, lines, expect_cb, heavy=True, cli=False):
    """case: {raw, poison, seed}; runs base and poisoned screen, all oracles"""
    if case.get("verbose") and not VERBOSE[0]:
        with verbose_slice():
            res.count("class.verbose-logging")
            return one_pair(ctx, res, env, case, lines, expect_cb, heavy=heavy, cli=cli)
    rawA = case["raw"]
    if case["poison"] == "inf":
        # the quantifier names finite values, 0, 1, NaN and negative values: +inf behind the mask is outside it
        res = Demote(res, "poison+inf-outside-quantifier")
    prng = ctx.subrng("c04-poison", case["seed"])
    rawB = poisoned(rawA, prng, case["poison"])
    scrA = S.build(rawA)
    try:
        scrB = S.build(rawB) if case.get("layout") is None else build_layout(rawB, case["layout"])
        if case.get("layout") is not None:
            res.count("class.layout.readonly-strided-fortran-U64")
    except Exception as e:   # noqa: BLE001
        res.evaluations += 1
        res.fail("a screen that differs from an accepted one only behind the mask is refused", dict(case), "%s: %s" % (type(e).__name__, e),
                 "masked values have no influence: the screen is accepted like its twin", signature="C04:masked-value-refused")
        return
    n_masked = sum(1 for m in rawA["mask"] if not m)
    snapA, snapB = snapshot(scrA), snapshot(scrB)
    for kind in case.get("models", ["combo", "interaction"]):
        res.evaluations += 1
        c = dict(case, model=kind)
        errs, stA = [], None
        for scr_ in (scrA, scrB):
            try:
                errs.append(train_arrays(kind, scr_))
                if stA is None:
                    stA = model_state(errs[0][0])       # before the second model exists
            except Exception as e:   # noqa: BLE001
                errs.append("%s: %s" % (type(e).__name__, e))
        if isinstance(errs[0], str) or isinstance(errs[1], str):
            if isinstance(errs[0], str) and isinstance(errs[1], str):
                # both refuse alike: not an influence of masked values (a behaviour change the tie reports)
                Demote(res, "both-screens-refuse").fail("training raised on both screens of the pair", c, errs[0], "trains", signature="C04:train-raises:" + kind)
            else:
                res.fail("training on the observed subset raised for one screen of the pair only", c, {"A": str(errs[0])[:200], "B": str(errs[1])[:200]},
                         "same behaviour: masked values must not matter", signature="C04:train-raises:" + kind)
            continue
        (mA, recA), (mB, recB) = errs
        a, b = rec_canon(recA), rec_canon(recB)
        # attribute completeness: EVERY attribute of the model and of the wrapped sampler, found by introspection
        stB = model_state(mB)
        res.count("class.attribute-completeness.model-state")
        if stA != stB:
            res.fail("some attribute of the trained model differs between screens that differ only behind the mask", c,
                     {"differs_in": first_diff(stA, stB)}, "every attribute identical", signature="C04:train-interference:" + kind)
        # aliasing: what the first model recorded is unchanged after the second model was trained
        if rec_canon(record(kind, mA)) != a or model_state(mA) != stA:
            res.fail("training a second model changed what the first model had recorded (shared storage)", c, "changed", "unchanged",
                     signature="C04:aliasing:" + kind)
        incremental(ctx, res, c, kind, scrA, scrB)
        instalments(ctx, res, c, kind, scrA)
        if a != b:
            res.fail("training arrays differ between screens that differ only behind the mask", c, {"differs_in": first_diff(a, b), "A": a, "B": b},
                     "identical", signature="C04:train-interference:" + kind)
        exp, use = expected_training(kind, scrA)
        if a != exp:
            res.fail("model was not trained on exactly the documented observed rows, once each, transformed as documented", c,
                     {"differs_in": first_diff(a, exp), "got": a}, exp, signature="C04:trained-rows:" + kind)
        # tie: the Lean model on both screens
        for tag, raw, rec in (("A", rawA, recA), ("B", rawB, recB)):
            lines.append("train %s %s" % (kind, S.raw_to_tokens(raw)))
            expect_cb.append((kind, dict(c, screen=tag), rec, "C04:train:" + kind))
        if not heavy:
            continue
        # thetas, distance, scores, selection
        try:
            souts = []
            for m_ in (mA, mB):
                try:
                    if case["seed"] % 2 == 0:
                        # reuse with a DIFFERENT seed: the same model object was sampled with another seed first (both screens alike)
                        thetas_of(m_, 4321 + case["seed"])
                    souts.append(thetas_of(m_, case["seed"] % 1000))
                except Exception as e:   # noqa: BLE001
                    souts.append("%s: %s" % (type(e).__name__, e))
            if case["seed"] % 2 == 0:
                res.count("class.reuse-different-seed.model-sampled-twice")
            if isinstance(souts[0], str) or isinstance(souts[1], str):
                if isinstance(souts[0], str) and isinstance(souts[1], str):
                    Demote(res, "both-screens-refuse").fail("sampling raised on both screens of the pair", c, souts[0], "samples", signature="C04:sample-raises:" + kind)
                else:
                    res.fail("sampling raised for one screen of the pair only", c, {"A": str(souts[0])[:200], "B": str(souts[1])[:200]}, "same behaviour",
                             signature="C04:sample-raises:" + kind)
                continue
            thA, thB = souts
            ta, tb = theta_canon(thA), theta_canon(thB)
            if ta != tb:
                res.fail("posterior samples differ between screens that differ only behind the mask", c, "thetas differ", "identical",
                         signature="C04:theta-interference:" + kind)
                continue
            pl = sorted(set(int(x) for x in scrA.plate_ids))
            unobs = [p for p in pl if not scrA.get_plate(p).is_observed]
            batches = [[]] + ([[unobs[0]]] if len(unobs) >= 2 else []) + ([[pl[0]]] if case["seed"] % 3 == 0 else [])
            if len(unobs) >= 3:
                batches.append(unobs[:-1])                      # batch of >= 2 plates, one candidate left
                res.count("class.size.batch>=2")
            if case["seed"] % 4 == 2:
                batches = [[np.int64(x) for x in b] for b in batches]
                res.count("class.dtype.np-int64-batch-ids")
            ncs = case.get("ncs", [1, 2])
            if len(unobs) < max(ncs):
                res.count("class.size.more-chunks-than-plates")
            if len(unobs) > 2:
                res.count("class.size.plates>max_chunk")
            reuse = case["seed"] % 2 == 1
            if reuse:
                res.count("class.object-reuse.scorer-metric")
            try:
                dA = downstream(scrA, thA, batches, ncs, reuse)
                errA = None
            except Exception as e:   # noqa: BLE001
                dA, errA = None, type(e).__name__
            try:
                dB = downstream(scrB, thB, batches, ncs, reuse)
                errB = None
            except Exception as e:   # noqa: BLE001
                dB, errB = None, type(e).__name__
            if errA or errB:
                res.count("downstream.error.%s.%s" % (kind, errA or errB))
                if errA != errB:
                    res.fail("distance/scoring raised for only one screen of the pair", c, {"A": errA, "B": errB}, "same behaviour",
                             signature="C04:score-interference:" + kind)
            elif dA != dB:
                k = first_diff(dA, dB)
                res.fail("distance matrix / scores / selection differ between screens that differ only behind the mask", c,
                         {"differs_in": k, "A": dA[k], "B": dB[k]}, "identical", signature="C04:score-interference:" + kind)
            else:
                res.count("downstream.compared.%s" % kind)
        except Exception as e:   # noqa: BLE001
            Demote(res, "harness-path").fail("downstream comparison raised", c, "%s: %s" % (type(e).__name__, e), "runs", signature="C04:sample-raises:" + kind)
        if cli:
            try:
                pl_ = sorted(set(int(x) for x in scrA.plate_ids))
                un_ = [p for p in pl_ if not scrA.get_plate(p).is_observed]
                cbatch = un_[:1] if (len(un_) >= 2 and case["seed"] % 2 == 1) else []
                couts = []
                for scr_ in (scrA, scrB):
                    try:
                        couts.append(run_cli_train(env, scr_, kind, 5, cbatch))
                    except Exception as e:   # noqa: BLE001
                        couts.append("%s: %s" % (type(e).__name__, e))
                if isinstance(couts[0], str) and isinstance(couts[1], str):
                    Demote(res, "both-screens-refuse").fail("train_model CLI raised on both screen files of the pair", dict(c, via="cli"), couts[0], "trains",
                                                             signature="C04:cli-raises:" + kind)
                    continue
                if isinstance(couts[0], str) or isinstance(couts[1], str):
                    res.fail("train_model CLI raised on a partially observed screen file for one screen of the pair only", dict(c, via="cli"),
                             {"A": str(couts[0])[:200], "B": str(couts[1])[:200]}, "trains on the observed subset whatever is stored behind the mask",
                             signature="C04:cli-raises:" + kind)
                    continue
                ca, cb = couts
                res.count("cli.chain.%s" % case["poison"])
                for st_ in ("train_model", "calculate_distance_matrix", "calculate_scores", "select_next_plate"):
                    res.count("class.entry-point.%s" % st_)
                if "downstream_error" in ca or "downstream_error" in cb:
                    res.count("cli.chain.downstream-error.%s" % kind)
                if kind == "combo" and case["seed"] % 5 == 1:
                    # cross-process determinism: the poisoned screen once more, in ANOTHER interpreter with another PYTHONHASHSEED
                    import json
                    cc_ = chain_in_other_process(env, rawB, kind, 5, cbatch)
                    res.count("class.cross-process.cli-chain-other-hashseed")
                    if cc_ != json.loads(json.dumps(ca)):
                        k_ = first_diff(cc_, json.loads(json.dumps(ca)))
                        res.fail("command line chain in a second interpreter process (other PYTHONHASHSEED) on the poisoned screen differs from the "
                                 "chain on its twin", dict(c, via="cli-subprocess"), {"differs_in": k_, "other_process": str(cc_.get(k_))[:300]},
                                 "identical", signature="C04:cli-interference:" + kind)
                if ca != cb:
                    res.fail("command line chain (train_model / calculate_distance_matrix / calculate_scores / select_next_plate) gives different "
                             "output for screen files that differ only behind the mask", dict(c, via="cli"),
                             {"differs_in": first_diff(ca, cb), "A": str(ca.get(first_diff(ca, cb)))[:300], "B": str(cb.get(first_diff(ca, cb)))[:300]},
                             "identical", signature="C04:cli-interference:" + kind)
            except Exception as e:   # noqa: BLE001
                Demote(res, "harness-path").fail("command line comparison raised", dict(c, via="cli"), "%s: %s" % (type(e).__name__, e), "runs",
                                                 signature="C04:cli-raises:" + kind)
    # ---- input mutation: nothing the pipeline was given may have been written to (observed or masked cells)
    res.count("class.input-mutation.screen-arrays")
    for tag, scr, snap in (("A", scrA, snapA), ("B", scrB, snapB)):
        now = snapshot(scr)
        if now != snap:
            # the property does not promise that inputs stay untouched (only that masked values have no influence): reported through the tie
            Demote(res, "inputs-written").fail("the pipeline wrote into the screen it was given", dict(case, screen=tag),
                                               {"changed": [k for k in snap if snap[k] != now[k]]}, "inputs unchanged", signature="C04:input-mutated")
    # ... but its consequence is a clause: after the whole pipeline ran on this Screen object, training it again must still record the documented
    # transform of the ORIGINAL observed values (expected rows computed from a freshly built screen)
    for kind in case.get("models", ["combo", "interaction"]):
        try:
            again = rec_canon(train_arrays(kind, scrA)[1])
            exp0, _ = expected_training(kind, S.build(rawA))
            if again != exp0:
                res.fail("after the pipeline ran on a screen, training on the same screen no longer records the documented observed rows", dict(case, model=kind, check="retrain"),
                         {"differs_in": first_diff(again, exp0), "got": again}, exp0, signature="C04:trained-rows:" + kind)
        except Exception:   # noqa: BLE001
            pass
    # ---- refusals and the private entry point, once per pair
    refusals(ctx, res, case, rawA, rawB, scrA, lines, expect_cb)
    direct_views(ctx, res, case, rawA, rawB, scrA, scrB, lines, expect_cb)
    if case["seed"] % 4 == 0 and any(rawA["mask"]) and "combo" in case.get("models", ["combo"]):
        concrete_pipeline(ctx, res, case, rawA, rawB)
    classes(res, case, rawA, scrA)
    if n_masked and case["poison"] in ("nan", "negative", "mixed", "inf", "neginf"):
        exp, use = expected_training("interaction", scrA)
        singles = sum(1 for t in np.asarray(scrA.treatment_ids)[np.asarray(scrA.observation_mask)] if list(t).count(-1) == 1)
        if len(use) >= 2 and singles >= 1:
            res.nontrivial.add(common.short_hash([rawA, case["poison"], case["seed"]]))


PIPE = {"cases": [], "lines": [], "obs": []}


def concrete_pipeline(ctx, res, case, rawA, rawB):
    """the concrete composed pipeline (Model/ScorePipeline.lean, driver op pipe.dbal) on BOTH screens of the pair, same samples and
    recorded draws: the real pipeline must give bit-identical dense matrix / scores / selection on the two screens, and the model is
    compared with each (queued; see flush_pipe)"""
    from harness import c06
    rng = ctx.subrng("c04-pipe", case["seed"])
    try:
        pc = c06.pipe_gen(rng, case["seed"], raw=rawA)
        la, oa = c06.pipe_eval(pc)
    except Exception as e:   # noqa: BLE001
        Demote(res, "both-screens-refuse").fail("the scoring pipeline raised on the unpoisoned screen", dict(case, check="concrete-pipeline"),
                                                 "%s: %s" % (type(e).__name__, e), "runs", signature="C04:score-interference:combo")
        return
    try:
        pcb = dict(pc, raw=rawB)
        lb, ob = c06.pipe_eval(pcb)
    except Exception as e:   # noqa: BLE001
        res.fail("the scoring pipeline raised on the poisoned screen only", dict(case, check="concrete-pipeline"), "%s: %s" % (type(e).__name__, e),
                 "runs on both", signature="C04:score-interference:combo")
        return
    res.evaluations += 1
    res.count("concrete-pipeline.pairs")
    same = (canon(oa["dense"]) == canon(ob["dense"]) and oa["draws"] == ob["draws"] and oa["selected"] == ob["selected"]
            and [[(p_, S.bits(x)) for p_, x in c_] for c_ in oa["chunks"]] == [[(p_, S.bits(x)) for p_, x in c_] for c_ in ob["chunks"]])
    if not same:
        res.fail("distance matrix / DBAL scores / selection of the real pipeline differ between screens that differ only behind the mask",
                 dict(case, check="concrete-pipeline"), "differs", "identical", signature="C04:score-interference:combo")
    for pc_, l_, o_ in ((pc, la, oa), (pcb, lb, ob)):
        PIPE["cases"].append(dict(pc_, pair_seed=case["seed"], poison=case["poison"]))
        PIPE["lines"].append(l_)
        PIPE["obs"].append(o_)


def flush_pipe(ctx, res):
    from harness import c06
    if ctx.driver is not None and PIPE["lines"]:
        got = ctx.driver.ask(PIPE["lines"])
        for i, (c_, o_, g) in enumerate(zip(PIPE["cases"], PIPE["obs"], got)):
            c06.pipe_compare(res, c_, o_, g, where="C04:pipe")
            if i % 2 == 1 and got[i - 1] != g:
                # the theorem C04_concrete_pipeline_noninterference, executed: same output line for both screens of the pair
                res.disagree("C04:pipe:model-differs-within-pair", {k: v for k, v in c_.items() if k != "thetas"}, got[i - 1][:200], g[:200])
        res.traces_validated += len(PIPE["lines"])
    for k in PIPE:
        del PIPE[k][:]


# ------------------------------------------------------------------ real entry point: file -> Screen.load_h5 -> train_model.main()
REC = {"log": [], "wrapper_errors": []}


def recording_models():
    """subclasses of the two shipped models that record what `train_model.main()` hands to `add_observations` and what the sampler holds
    afterwards; made discoverable for the CLI's introspection (`--model VerifRec…`)"""
    if "combo" in REC:
        return
    import batchie.models.sparse_combo as m1
    import batchie.models.sparse_combo_interaction as m2

    def mk(base, kind):
        class Rec(base):
            # signature-agnostic: whatever the CLI passes is forwarded unchanged; the harness finds the data argument by binding the
            # call to the ORIGINAL signature.  A failure of the recording itself is a broken tie (REC["wrapper_errors"]), never the code's fault.
            def add_observations(self, *args, **kwargs):
                entry = {"kind": kind}
                try:
                    import inspect
                    bound = inspect.signature(base.add_observations).bind(self, *args, **kwargs)
                    data = bound.arguments.get("data", list(bound.arguments.values())[1])
                    entry["received_mask"] = [bool(x) for x in data.observation_mask]
                    entry["received_obs"] = [S.bits(float(x)) for x in data.observations]
                except Exception as e:   # noqa: BLE001
                    REC["wrapper_errors"].append("%s: %s" % (type(e).__name__, str(e)[:150]))
                REC["log"].append(entry)
                out = super().add_observations(*args, **kwargs)
                try:
                    entry["record"] = rec_canon(record(kind, self))
                except Exception as e:   # noqa: BLE001
                    REC["wrapper_errors"].append("%s: %s" % (type(e).__name__, str(e)[:150]))
                return out
        Rec.__name__ = Rec.__qualname__ = "VerifRec" + base.__name__
        return Rec
    REC["combo"] = mk(m1.SparseDrugCombo, "combo")
    REC["interaction"] = mk(m2.SparseDrugComboInteraction, "interaction")
    m1.VerifRecSparseDrugCombo = REC["combo"]
    m2.VerifRecSparseDrugComboInteraction = REC["interaction"]


def train_via_main(env, raw, kind):
    """write the screen FILE, run the real `train_model.main()` on it with the recording model.  Returns
    ("ok", record the model holds, thetas file exists) or ("refused", text, thetas file exists)"""
    from batchie.cli import train_model
    recording_models()
    k = run_cli_train.k
    run_cli_train.k += 1
    data = os.path.join(env, "ep_d_%d.h5" % k)
    out = os.path.join(env, "ep_t_%d.h5" % k)
    S.build(raw).save_h5(data)
    del REC["log"][:]
    name = "VerifRec" + [c for kk, _, c in MODELS if kk == kind][0]
    try:
        _main(train_model, ["train_model", "--data", data, "--model", name, "--model-param", "n_embedding_dimensions=2", "--output", out,
                            "--n-samples", "2", "--n-burnin", "1", "--thin", "1", "--n-chains", "1", "--chain-index", "0", "--seed", "0"])
    except BaseException as e:   # noqa: BLE001  (SystemExit of argparse included)
        if isinstance(e, KeyboardInterrupt):
            raise
        if raised_by_harness(e):
            REC["wrapper_errors"].append("%s: %s" % (type(e).__name__, str(e)[:150]))
            return "wrapper", "%s: %s" % (type(e).__name__, str(e)[:120]), os.path.exists(out), data
        return "refused", "%s: %s" % (type(e).__name__, str(e)[:120]), os.path.exists(out), data
    log = list(REC["log"])
    return "ok", (log[-1] if log else None), os.path.exists(out), data


def wrapper_trouble(res, case):
    """anything the recording wrappers could not do since the last call: a broken tie; returns True when there was trouble"""
    if not REC["wrapper_errors"]:
        return False
    res.count("wrapper.unexpected-call", len(REC["wrapper_errors"]))
    res.disagree("C04:wrapper:add_observations", {k: v for k, v in dict(case).items() if k not in ("raw", "full")}, REC["wrapper_errors"][0],
                 "the call shape the recording subclass knows")
    del REC["wrapper_errors"][:]
    return True


def file_values(res, path):
    """the observation column and mask of a screen file, read RAW with h5py.  The dataset names are knowledge of the current file layout, i.e.
    tie material: anything unexpected here (missing dataset, other structure) is `layout.unexpected` + a disagreement, never an oracle
    failure and never an exception (the property oracles go through the public loaders)"""
    try:
        import h5py
        with h5py.File(path, "r") as f:
            obs = [S.bits(float(x)) for x in f["observations"][:]]
            mask = [bool(x) for x in f["observation_mask"][:]]
        if len(obs) != len(mask):
            raise ValueError("observations / observation_mask of different length")
        return obs, mask
    except Exception as e:   # noqa: BLE001
        res.count("layout.unexpected")
        res.disagree("C04:layout:screen-file", {"file": os.path.basename(path)}, "%s: %s" % (type(e).__name__, str(e)[:150]),
                     "datasets `observations`, `observation_mask` (the layout the harness knows)")
        return None


def entry_point_case(ctx, res, env, case):
    """one screen through file -> Screen.load_h5 -> train_model.main():
    (a) as is: the model must end up with exactly the documented observed rows of the FILE;
    (b) NaN / negative / -inf only BEHIND the mask: same rows, same thetas file content;
    (c) NaN / negative / -inf in an OBSERVED row: the stage must refuse (exception / non-zero exit)"""
    from batchie.core import ThetaHolder
    from batchie.data import Screen
    raw, kind = case["raw"], case["model"]
    vb = verbose_slice() if (case.get("verbose") and not VERBOSE[0]) else None
    if vb:
        vb.__enter__()
        res.count("class.verbose-logging")
    try:
        res.evaluations += 1
        res.count("class.entry-point.train_model")
        exp, use = expected_training(kind, S.build(raw))          # from the in-memory description, never from a loaded screen
        n = len(raw["snames"])
        mask = [bool(x) for x in raw["mask"]]
        # (a)
        st, got, wrote, path = train_via_main(env, raw, kind)
        c = dict(case)
        if wrapper_trouble(res, c) or st == "wrapper" or (st == "ok" and got is not None and ("record" not in got or "received_mask" not in got)):
            return            # the recording did not work: nothing below can be attributed to the implementation
        if st != "ok":
            Demote(res, "valid-file-refused").fail("train_model.main() refused a valid partially observed screen file", c, got, "trains", signature="C04:cli-raises:" + kind)
            return
        rec0 = None if got is None else got.get("record")
        if any(mask):
            if got is None or rec0 != exp:
                res.fail("train_model.main() on a screen file: the model does not hold exactly the documented observed rows of the file, once each, "
                         "transformed as documented", c, {"differs_in": first_diff(rec0 or {}, exp), "got": rec0}, exp, signature="C04:trained-rows:" + kind)
            elif not all(got["received_mask"]):
                res.fail("train_model.main() handed the model rows that are not observed", c, got["received_mask"], "observed rows only",
                         signature="C04:trained-rows:" + kind)
        th0 = theta_canon(ThetaHolder(n_thetas=2).load_h5(os.path.join(env, os.path.basename(path).replace("ep_d_", "ep_t_")))) if wrote else None
        # load path, value by value (a summary / logging helper run on load must not rewrite the file's values): C02's clause, counted here
        fv = file_values(res, path)
        if fv is not None:
            try:
                ld = Screen.load_h5(path)
                if [S.bits(float(x)) for x in ld.observations] != fv[0] or [bool(x) for x in ld.observation_mask] != fv[1]:
                    res.count("load-path.values-rewritten")
            except Exception:   # noqa: BLE001
                res.count("load-path.load-raised")
        # (b) poison behind the mask
        if not all(mask):
            for pname in ("nan", "negative", "neginf"):
                rb = poisoned(raw, ctx.subrng("c04-ep", case["seed"], pname), pname)
                st, gb, wrote_b, pb = train_via_main(env, rb, kind)
                res.count("class.entry-point.train_model.masked-" + pname)
                cb = dict(case, poison=pname)
                if wrapper_trouble(res, cb) or st == "wrapper":
                    continue
                if st != "ok":
                    res.fail("train_model.main() refused a screen file because of a value stored BEHIND the mask", cb, gb,
                             "trains on the observed subset whatever is stored behind the mask", signature="C04:cli-raises:" + kind)
                    continue
                rb_ = None if gb is None else gb.get("record")
                thb = theta_canon(ThetaHolder(n_thetas=2).load_h5(pb.replace("ep_d_", "ep_t_"))) if wrote_b else None
                if rb_ != rec0 or thb != th0:
                    res.fail("train_model.main(): training rows / thetas file differ between screen files that differ only behind the mask", cb,
                             {"rows_differ": rb_ != rec0, "thetas_differ": thb != th0}, "identical", signature="C04:cli-interference:" + kind)
        # (c) a bad value in an OBSERVED row
        obs_rows = [i for i in range(n) if mask[i]]
        if obs_rows:
            tn, td = raw["tnames"], raw["tdoses"]
            combos = [i for i in obs_rows if all(nm != "control" and d > 0 for nm, d in zip(tn[i], td[i]))]
            for j, (bname, bad) in enumerate((("nan", float("nan")), ("negative", -0.25), ("neginf", float("-inf")))):
                pool = combos if (combos and (case["seed"] + j) % 2 == 0) else obs_rows
                pos = pool[(case["seed"] + j) % len(pool)]
                rbad = dict(raw, obs=[bad if i == pos else o for i, o in enumerate(raw["obs"])])
                st, gb, wrote_b, pb = train_via_main(env, rbad, kind)
                res.evaluations += 1
                res.count("class.entry-point.train_model.observed-" + bname)
                if wrapper_trouble(res, dict(case, bad=bname)) or st == "wrapper":
                    continue
                if st == "ok":
                    held = None if gb is None else gb.get("record")
                    res.fail("train_model.main() accepted a screen file with a %s observation in an OBSERVED experiment and trained on it" % bname,
                             dict(case, bad=bname, row=pos), {"model_holds_n_obs": None if held is None else held.get("n_obs"),
                                                               "value_received": None if (gb is None or "received_obs" not in gb) else [S.from_bits(b) for b in gb["received_obs"]][:40]},
                             "the stage refuses (exception / non-zero exit)", signature="C04:cli-accepts-bad-value:" + kind)
                elif wrote_b:
                    res.count("entry-point.refused-but-thetas-file-written")
    finally:
        if vb:
            vb.__exit__(None, None, None)


def entry_points(ctx, res, env):
    rng = ctx.subrng("c04-entry")
    for t in range(ctx.scale(8, 60, 20)):
        raw = gen_base(rng, force={3: "plate0-masked", 5: "no-observed"}.get(t))
        for kind in ("combo", "interaction"):
            case = {"raw": raw, "seed": 800000 + t, "model": kind, "check": "entry-point", "poison": "nan"}
            if t % 4 == 1:
                case["verbose"] = True
            entry_point_case(ctx, res, env, case)


def classes(res, case, raw, scr):
    """counters of the hardening-checklist input classes this pair belongs to"""
    pn = raw["pnames"]
    mask = raw["mask"]
    plates = sorted(set(pn))
    runs = sum(1 for i in range(len(pn)) if i == 0 or pn[i] != pn[i - 1])
    if runs > len(plates):
        res.count("class.rows.plates-interleaved")
    flips = sum(1 for i in range(1, len(mask)) if mask[i] != mask[i - 1])
    if flips >= 2:
        res.count("class.rows.observed-between-masked")
    if not mask[pn.index(plates[0])]:
        res.count("class.falsy.plate-id-0-masked")
    if not any(mask):
        res.count("class.falsy.nothing-observed")
    if case["seed"] % 1000 == 0:
        res.count("class.falsy.sampling-seed-0")
    if case["poison"] in ("zero", "negzero"):
        res.count("class.falsy.masked-value-0")
    if raw.get("tmap") is not None:
        res.count("class.ids.supplied-mappings-with-gaps")
    if any(len(x) >= 25 for x in raw["snames"]):
        res.count("class.dtype.names>=25chars")
    tn, td = raw["tnames"], raw["tdoses"]
    if any((n == "control" and d > 0) for r, rd in zip(tn, td) for n, d in zip(r, rd)):
        res.count("class.ids.named-control-positive-dose")
    if any((n != "control" and d <= 0) for r, rd in zip(tn, td) for n, d in zip(r, rd)):
        res.count("class.ids.drug-at-dose-0-is-control")
    sids = [int(x) for x in scr.sample_ids]
    tids = [tuple(int(y) for y in r) for r in np.asarray(scr.treatment_ids)]
    singles = {}
    for i, (s_, t_) in enumerate(zip(sids, tids)):
        if t_.count(-1) == 1:
            singles.setdefault((s_, max(t_)), set()).add(t_.index(-1))
    if any(len(v) == 2 for v in singles.values()):
        res.count("class.rows.single-agent-in-both-positions")


def incremental(ctx, res, c, kind, scrA, scrB):
    """object reuse: ONE model object receives the observed rows in two instalments (different sizes): afterwards it must hold each
    observed row exactly once, in order, and the same on both screens of the pair"""
    from batchie.data import ExperimentSpace
    mask = np.asarray(scrA.observation_mask, dtype=bool)
    idx = [int(i) for i in np.where(mask)[0]]
    if len(idx) < 2:
        return
    rng = ctx.subrng("c04-incr", c["seed"], kind)
    first = set(rng.sample(idx, rng.randint(1, len(idx) - 1)))
    sel1 = np.array([i in first for i in range(len(mask))], dtype=bool)
    sel2 = mask & ~sel1
    cls = get_model_cls(kind)
    outs = []
    for scr in (scrA, scrB):
        m = cls(experiment_space=ExperimentSpace.from_screen(scr), n_embedding_dimensions=2)
        try:
            m.add_observations(scr.subset(sel1))
            m.add_observations(scr.subset(sel2))
            outs.append(rec_canon(record(kind, m)))
        except Exception as e:   # noqa: BLE001
            outs.append(S.err_tok(e))
        bad = None if isinstance(outs[-1], str) else index_tables_ok(m)
        if bad:
            res.fail("the sampler's index tables do not file every observed experiment exactly once under its own sample / treatments "
                     "(two instalments)", dict(c, check="incremental"), bad, "a partition of range(n_obs) consistent with the recorded rows",
                     signature="C04:instalments:" + kind)
    res.evaluations += 1
    res.count("class.object-reuse.model-two-instalments")
    if outs[0] != outs[1]:
        res.fail("a model trained in two instalments differs between screens that differ only behind the mask", dict(c, check="incremental"),
                 {"A": outs[0], "B": outs[1]}, "identical", signature="C04:train-interference:" + kind)
    e1, _ = expected_training(kind, scrA, [bool(x) for x in sel1])
    e2, _ = expected_training(kind, scrA, [bool(x) for x in sel2])
    exp = {k: e1[k] + e2[k] for k in ("y", "cline", "dd1", "dd2", "n_obs")}
    if kind == "interaction":
        d = {tuple(k): v for k, v in e1["single"]}
        d.update({tuple(k): v for k, v in e2["single"]})
        exp["single"] = sorted((list(k), v) for k, v in d.items())
    if outs[0] != exp:
        res.fail("a model trained in two instalments does not hold every observed row exactly once", dict(c, check="incremental"),
                 outs[0] if isinstance(outs[0], str) else {"differs_in": first_diff(outs[0], exp), "got": outs[0]}, exp,
                 signature="C04:trained-rows:" + kind)


def sampler_state(m):
    """EVERY attribute of the wrapped sampler, by introspection; index tables (dict of lists of row numbers) as sorted lists"""
    out = {}
    for k, v in sorted(vars(m.wrapped_model).items()):
        if isinstance(v, dict) and all(isinstance(x, list) for x in v.values()):
            out[k] = {str(kk): sorted(canon_obj(x) for x in vv) for kk, vv in sorted(v.items(), key=lambda kv: str(kv[0])) if len(vv)}
        else:
            out[k] = canon_obj(v)
    return out


def index_tables_ok(m):
    """the sampler's index tables (`<rows>_idxs`: key -> row numbers) against its row lists (`<rows>`): every table must be a partition of
    range(n_obs), and row i must be filed under exactly its own key.  Returns a description of the first problem or None."""
    w = m.wrapped_model
    n = int(m.n_obs())
    found = 0
    for name, table in sorted(vars(w).items()):
        if not (name.endswith("_idxs") and isinstance(table, dict)):
            continue
        rows = getattr(w, name[:-5], None)
        if rows is None:
            continue
        found += 1
        if len(rows) != n:
            return "%s has %d entries for %d observations" % (name[:-5], len(rows), n)
        allidx = sorted(int(i) for v in table.values() for i in v)
        if allidx != list(range(n)):
            return "%s is not a partition of range(%d): %s" % (name, n, allidx[:40])
        for k, v in table.items():
            for i in v:
                if int(rows[int(i)]) != int(k):
                    return "%s files row %d under key %s but %s[%d] = %s" % (name, int(i), k, name[:-5], int(i), rows[int(i)])
    if found == 0:
        return "no index table found by introspection (harness needs updating)"
    return None


def instalments(ctx, res, c, kind, scr):
    """object reuse / multi-call: the same observed rows (i) in ONE add_observations call and (ii) in 2-4 consecutive instalments (plate by
    plate when the plates are contiguous) on a fresh model.  Every attribute of the wrapped sampler must be identical after the adds and
    again after two step()s with identically seeded generators; the index tables must partition range(n_obs) consistently with the rows."""
    from batchie.data import ExperimentSpace
    mask = np.asarray(scr.observation_mask, dtype=bool)
    idx = [int(i) for i in np.where(mask)[0]]
    if len(idx) < 2:
        return
    pids = [int(x) for x in scr.plate_ids]
    rng = ctx.subrng("c04-inst", c["seed"], kind)
    bounds = [j for j in range(1, len(idx)) if pids[idx[j]] != pids[idx[j - 1]]]
    contiguous = len(bounds) + 1 == len(set(pids[i] for i in idx))
    if len(idx) <= 14 and rng.random() < 0.3:
        # identity-keyed caches / object lifetime: every row its own call, on TEMPORARY subsets of equal size that die at once
        cuts = list(range(1, len(idx)))
        res.count("class.identity-cache.equal-size-temporaries")
    elif contiguous and bounds and rng.random() < 0.7:
        cuts = bounds if len(bounds) <= 3 else sorted(rng.sample(bounds, 3))          # plate by plate
        res.count("class.object-reuse.instalments-plate-by-plate")
    else:
        cuts = sorted(rng.sample(range(1, len(idx)), min(len(idx) - 1, rng.randint(1, 2))))
        res.count("class.object-reuse.instalments-random-cuts")
    blocks = [idx[a:b] for a, b in zip([0] + cuts, cuts + [len(idx)])]
    cls = get_model_cls(kind)
    cc = dict(c, check="instalments", blocks=blocks)
    try:
        m1 = cls(experiment_space=ExperimentSpace.from_screen(scr), n_embedding_dimensions=2)
        m1.add_observations(scr.subset(mask))
        m2 = cls(experiment_space=ExperimentSpace.from_screen(scr), n_embedding_dimensions=2)
        for blk in blocks:
            sel = np.zeros(len(mask), dtype=bool)
            sel[blk] = True
            m2.add_observations(scr.subset(sel))
    except Exception as e:   # noqa: BLE001
        res.fail("training in instalments raised", cc, "%s: %s" % (type(e).__name__, e), "trains", signature="C04:instalments:" + kind)
        return
    res.evaluations += 1
    for tag, m in (("one call", m1), ("instalments", m2)):
        bad = index_tables_ok(m)
        if bad:
            res.fail("the sampler's index tables do not file every observed experiment exactly once under its own sample / treatments (%s)" % tag,
                     cc, bad, "a partition of range(n_obs) consistent with the recorded rows", signature="C04:instalments:" + kind)
            return
    s1, s2 = sampler_state(m1), sampler_state(m2)
    if s1 != s2:
        k = first_diff(s1, s2)
        res.fail("a model trained in instalments differs from a model given the same rows in one call (each observed experiment exactly once)", cc,
                 {"attribute": k, "one_call": str(s1.get(k))[:300], "instalments": str(s2.get(k))[:300]}, "identical sampler state",
                 signature="C04:instalments:" + kind)
        return
    try:
        for m in (m1, m2):
            m.set_rng(np.random.default_rng(1234 + c["seed"]))
        for _ in range(2):
            m1.step()
            m2.step()
    except Exception as e:   # noqa: BLE001
        res.fail("step() raised after training in instalments", cc, "%s: %s" % (type(e).__name__, e), "steps", signature="C04:instalments:" + kind)
        return
    s1, s2 = sampler_state(m1), sampler_state(m2)
    if s1 != s2:
        k = first_diff(s1, s2)
        res.fail("posterior state after two step()s differs between one-call and instalment training of the same rows (same generator seed)", cc,
                 {"attribute": k}, "bit-identical", signature="C04:instalments:" + kind)


def refusals(ctx, res, case, rawA, rawB, scrA, lines, expect_cb):
    from batchie.data import ExperimentSpace
    n = len(rawA["snames"])
    for kind in ("combo", "interaction"):
        cls = get_model_cls(kind)
        c = dict(case, model=kind)
        # (1) a subset that still contains masked rows must be refused
        m = cls(experiment_space=ExperimentSpace.from_screen(scrA), n_embedding_dimensions=2)
        res.evaluations += 1
        try:
            m.add_observations(scrA.subset(np.ones(n, dtype=bool)))
            out = "ok"
            res.fail("add_observations accepted data that still contains masked rows", dict(c, check="masked"), "accepted, n_obs=%d" % m.n_obs(),
                     "ValueError", signature="C04:accepts-masked:" + kind)
        except Exception as e:   # noqa: BLE001
            out = S.err_tok(e)
            if not isinstance(e, ValueError):
                res.count("refusal.other-exception-class")       # the class is compared with the model (tie), the property only says "refuses"
        lines.append("add %s %s %s" % (kind, S.sel_tok([True] * n), S.raw_to_tokens(rawA)))
        expect_cb.append((kind, dict(c, check="masked"), out, "C04:add-masked:" + kind))
        # (2) the model's own _add_observations on partially observed data (benign masked values): only observed rows are used
        benign = dict(rawA)
        m2 = cls(experiment_space=ExperimentSpace.from_screen(scrA), n_embedding_dimensions=2)
        res.evaluations += 1
        try:
            m2._add_observations(scrA.subset(np.ones(n, dtype=bool)))
            rec = record(kind, m2)
            exp, _ = expected_training(kind, scrA)
            got = rec_canon(rec)
            # the single-effect table of the private entry point sees all rows it is given; only the training tuples are compared
            if {k: got[k] for k in ("y", "cline", "dd1", "dd2", "n_obs")} != {k: exp[k] for k in ("y", "cline", "dd1", "dd2", "n_obs")}:
                # the private method is not the interface the property speaks about (add_observations refuses such input): tie only
                res.count("private-entry.trained-on-masked-row")
            out2 = rec
        except Exception as e:   # noqa: BLE001
            out2 = S.err_tok(e)
        lines.append("addpriv %s %s %s" % (kind, S.sel_tok([True] * n), S.raw_to_tokens(benign)))
        expect_cb.append((kind, dict(c, check="private"), out2, "C04:addpriv:" + kind))
        # (3) fully observed input with one negative / NaN observation must be refused
        for bad_name, bad in (("negative", -0.25), ("nan", float("nan")), ("neg-tiny", -5e-324), ("neg-inf", float("-inf"))):
            full = dict(rawA)
            full["mask"] = [True] * n
            obs = [0.5 if not mk else o for o, mk in zip(rawA["obs"], rawA["mask"])]
            # put the bad value on a combination row when there is one (the interaction model only trains on those), else anywhere
            tn = rawA["tnames"]
            td = rawA["tdoses"]
            combos = [i for i in range(n) if tn[i][0] != "control" and tn[i][1] != "control" and td[i][0] > 0 and td[i][1] > 0]
            pos = (combos or list(range(n)))[case["seed"] % len(combos or list(range(n)))]
            if bad_name == "neg-tiny":
                pos = case["seed"] % n          # anywhere, also on a single-agent row
            obs[pos] = bad
            full["obs"] = obs
            res.evaluations += 1
            cc = dict(c, check="bad-value", bad=bad_name, full=full)
            try:
                sf = S.build(full)
            except ValueError as e:
                # refused even earlier (by the Screen itself): fine for the property, but not what the model describes
                res.count("refusal.at-construction")
                lines.append("add %s %s %s" % (kind, S.sel_tok([True] * n), S.raw_to_tokens(full)))
                expect_cb.append((kind, cc, "parent-" + S.err_tok(e), "C04:add-bad-value:" + kind))
                continue
            m3 = cls(experiment_space=ExperimentSpace.from_screen(sf), n_embedding_dimensions=2)
            try:
                m3.add_observations(sf)
                out3 = record(kind, m3)
                sig = "C04:interaction-accepts-negative-or-nan" if kind == "interaction" else "C04:combo-accepts-negative-or-nan"
                res.fail("add_observations accepted a %s observation" % bad_name, cc, {"n_obs": int(m3.n_obs()), "y": [repr(float(v)) for v in m3.wrapped_model.y]},
                         "ValueError", signature=sig)
            except Exception as e:   # noqa: BLE001
                out3 = S.err_tok(e)
                if not isinstance(e, ValueError):
                    res.count("refusal.other-exception-class")
            lines.append("add %s %s %s" % (kind, S.sel_tok([True] * n), S.raw_to_tokens(full)))
            expect_cb.append((kind, cc, out3, "C04:add-bad-value:" + kind))
            res.count("refusal.%s.%s" % (kind, bad_name))


def direct_views(ctx, res, case, rawA, rawB, scrA, scrB, lines, expect_cb):
    """data handed DIRECTLY to add_observations (not through subset_observed): for several selection vectors the outcome must be
    the same on both screens of the pair; selections of observed rows only are accepted and train on exactly those rows, any
    selection containing a masked row (and the partially observed Screen object itself) is refused with ValueError"""
    from batchie.data import ExperimentSpace
    n = len(rawA["snames"])
    mask = [bool(x) for x in rawA["mask"]]
    obs_rows = [i for i in range(n) if mask[i]]
    msk_rows = [i for i in range(n) if not mask[i]]
    rng = ctx.subrng("c04-views", case["seed"])
    sels = []
    if obs_rows:
        k = rng.randint(1, len(obs_rows))
        part = set(rng.sample(obs_rows, k))
        sels.append(("observed-part", [i in part for i in range(n)]))
        if msk_rows:
            part2 = set(part) | {rng.choice(msk_rows)}
            sels.append(("observed+1masked", [i in part2 for i in range(n)]))
    if msk_rows:
        part3 = set(rng.sample(msk_rows, rng.randint(1, len(msk_rows))))
        sels.append(("masked-only", [i in part3 for i in range(n)]))
    sels.append(("empty", [False] * n))
    sels.append(("whole-screen-object", None))
    for kind in ("combo", "interaction"):
        cls = get_model_cls(kind)
        for name, sel in sels:
            c = dict(case, model=kind, check="direct:" + name, sel=sel)
            outs = []
            for tag, scr in (("A", scrA), ("B", scrB)):
                m = cls(experiment_space=ExperimentSpace.from_screen(scr), n_embedding_dimensions=2)
                try:
                    m.add_observations(scr if sel is None else scr.subset(np.array(sel, dtype=bool)))
                    outs.append(record(kind, m))
                except Exception as e:   # noqa: BLE001
                    outs.append(S.err_tok(e))
            res.evaluations += 1
            res.count("direct.%s" % name)
            ca = [o if isinstance(o, str) else rec_canon(o) for o in outs]
            has_masked = (sel is None and bool(msk_rows)) or (sel is not None and any(sel[i] for i in msk_rows))
            cmp_ = [("refused" if isinstance(o, str) else o) for o in ca] if has_masked else ca   # which exception: model's business
            if cmp_[0] != cmp_[1]:
                res.fail("add_observations on the same selection gives different results for screens that differ only behind the mask", c,
                         {"A": ca[0], "B": ca[1]}, "identical", signature="C04:direct-interference:" + kind)
            if has_masked:
                if not isinstance(ca[0], str):
                    res.fail("add_observations accepted data that still contains masked rows", c, ca[0] if isinstance(ca[0], str) else "accepted, n_obs=%d" % ca[0]["n_obs"],
                             "ValueError", signature="C04:accepts-masked:" + kind)
            elif sel is not None:
                exp, _ = expected_training(kind, scrA, sel)
                if ca[0] != exp:
                    res.fail("add_observations on observed rows only did not record exactly those rows once each", c,
                             ca[0], exp, signature="C04:trained-rows:" + kind)
            if sel is not None:
                for tag, raw, out in (("A", rawA, outs[0]), ("B", rawB, outs[1])):
                    lines.append("add %s %s %s" % (kind, S.sel_tok(sel), S.raw_to_tokens(raw)))
                    expect_cb.append((kind, dict(c, screen=tag), out, "C04:add-direct:" + kind))


def arity_stream(ctx, res, lines, expect_cb):
    """screens with 1 or 3 treatments per experiment: SparseDrugComboInteraction refuses them (ValueError), SparseDrugCombo reads
    the first two treatment columns (IndexError when there is only one); the outcome must not depend on masked values and must be
    the model's (these are the `arity != 2` / `firstTwo` branches of the Lean model)"""
    rng = ctx.subrng("c04-arity")
    for t in range(ctx.scale(16, 120, 40)):
        raw = S.gen_raw(rng, n_max=10, arity=rng.choice([1, 3, 3]), n_plates=rng.randint(2, 4), all_observed=False, ctrl="control",
                        n_samples=rng.randint(1, 2), obs_values=[0.1, 0.5, 0.9, 0.25, 1.0, 0.0, 0.62])
        if raw["mask"] is None:
            raw["mask"] = [True] * len(raw["snames"])
        rawB = poisoned(raw, rng, "nan" if t % 2 else "mixed")
        try:
            scrA, scrB = S.build(raw), S.build(rawB)
        except Exception:   # noqa: BLE001
            res.count("arity.build-refused")
            continue
        for kind in ("combo", "interaction"):
            c = {"raw": raw, "poison": "nan" if t % 2 else "mixed", "seed": 100000 + t, "model": kind, "check": "arity"}
            outs = []
            for scr in (scrA, scrB):
                try:
                    outs.append(train_arrays(kind, scr)[1])
                except Exception as e:   # noqa: BLE001
                    outs.append(S.err_tok(e))
            res.evaluations += 1
            res.count("arity.%d.%s.%s" % (raw["arity"], kind, outs[0] if isinstance(outs[0], str) else "ok"))
            ca = [o if isinstance(o, str) else rec_canon(o) for o in outs]
            if ca[0] != ca[1]:
                res.fail("training outcome differs between screens that differ only behind the mask", c, {"A": ca[0], "B": ca[1]}, "identical",
                         signature="C04:train-interference:" + kind)
            for tag, r_, out in (("A", raw, outs[0]), ("B", rawB, outs[1])):
                lines.append("train %s %s" % (kind, S.raw_to_tokens(r_)))
                expect_cb.append((kind, dict(c, screen=tag), out, "C04:train-arity:" + kind))


def flush(ctx, res, lines, expect_cb):
    if ctx.driver is not None and lines:
        got = ctx.driver.ask(lines)
        for l, (kind, c, impl, where), g in zip(lines, expect_cb, got):
            cc = {"line": l[:400], "case": {k: v for k, v in c.items() if k not in ("raw", "full")}}
            if isinstance(impl, str):
                if impl != g:
                    res.disagree(where, cc, impl, g[:300])
            else:
                if where.startswith("C04:addpriv"):
                    # tuples only: the private entry point's table is not part of the property
                    got_p = parse_trained(g)
                    if isinstance(got_p, str):
                        res.disagree(where, cc, "ok", got_p)
                        continue
                    rec2 = dict(impl)
                    rec2.pop("single", None)
                    kind2 = kind
                    tuples, _ = got_p
                    ys = transform(kind2, [S.from_bits(t[0]) for t in tuples]) if tuples else []
                    m = {"y": fbits(np.asarray(ys, dtype=np.float32)) if tuples else [], "cline": [t[1] for t in tuples],
                         "dd1": [t[2] for t in tuples], "dd2": [t[3] for t in tuples], "n_obs": len(tuples)}
                    if m != rec_canon(rec2):
                        res.disagree(where, cc, rec_canon(rec2), m)
                else:
                    compare_model(res, kind, cc, impl, g, where)
        res.traces_validated += len(lines)
    del lines[:], expect_cb[:]


def run(ctx, res):
    res.rule = RULE
    quiet()
    env = tempfile.mkdtemp(prefix="verif_c04_")
    lines, expect_cb = [], []
    try:
        rng = ctx.subrng("c04")
        n_pairs = ctx.scale(100, 1500, 400)
        n_cli = ctx.scale(5, 18, 5)
        kinds = KIND_ORDER
        for t in range(n_pairs):
            force = {5: "no-observed", 6: "plate0-masked", 7: "plate0-masked"}.get(t % 50)
            raw = gen_base(rng, big=(ctx.tier != "quick"), force=force)
            poison = kinds[t % len(kinds)]
            case = {"raw": raw, "poison": poison, "seed": t, "ncs": [1, 2] if ctx.tier == "quick" else [1, 2, 3, 5],
                    "layout": {1: 0, 2: 1}.get(t % 4)}
            if t % 7 == 1 or t in (5, 6):          # ~15 % of the pairs (incl. CLI pair 1, nothing-observed, plate-0-masked) under -v/--verbose
                case["verbose"] = True
            heavy = True
            one_pair(ctx, res, env, case, lines, expect_cb, heavy=heavy, cli=(t < n_cli))
            res.count("poison." + poison)
            res.count("rows.%s" % ("<=12" if len(raw["snames"]) <= 12 else ">12"))
            res.count("masked_rows.%s" % min(8, sum(1 for m in raw["mask"] if not m)))
            if t % 12 == 0:
                res.sample({"poison": poison, "plates": raw["pnames"], "mask": raw["mask"], "obs": [repr(x) for x in raw["obs"]]})
            if len(lines) > 2000:
                flush(ctx, res, lines, expect_cb)
        # ---- integer-width boundaries: exactly 127 / 128 / 255 / 256 / 257 observed experiments (128 and 257 in every quick run, all five in thorough)
        wrng = ctx.subrng("c04-wide")
        sizes = [127, 128, 255, 256, 257]
        for j, n_obs in enumerate(sizes if ctx.tier != "quick" else [128, 257]):
            case = {"raw": gen_wide(wrng, n_obs), "poison": ["nan", "negative", "mixed"][j % 3], "seed": 900000 + n_obs, "ncs": [1, 2]}
            one_pair(ctx, res, env, case, lines, expect_cb, heavy=True, cli=(j == 0))
            res.count("class.int-width.observed-rows-%d" % n_obs)
        arity_stream(ctx, res, lines, expect_cb)
        entry_points(ctx, res, env)
        flush(ctx, res, lines, expect_cb)
        flush_pipe(ctx, res)
    finally:
        shutil.rmtree(env, ignore_errors=True)


def replay(ctx, case, res):
    quiet()
    env = tempfile.mkdtemp(prefix="verif_c04_")
    try:
        if case.get("check") == "arity":
            rawB = poisoned(case["raw"], ctx.subrng("c04-arity-replay"), "nan")
            scrA, scrB = S.build(case["raw"]), S.build(rawB)
            outs = []
            for scr in (scrA, scrB):
                try:
                    outs.append(rec_canon(train_arrays(case["model"], scr)[1]))
                except Exception as e:   # noqa: BLE001
                    outs.append(S.err_tok(e))
            if outs[0] != outs[1]:
                res.fail("training outcome differs between screens that differ only behind the mask", case, {"A": outs[0], "B": outs[1]}, "identical",
                         signature="C04:train-interference:" + case["model"])
            return
        if case.get("check") == "entry-point":
            entry_point_case(ctx, res, env, case)
            return
        c = {k: case[k] for k in ("raw", "poison", "seed", "layout", "verbose") if k in case}
        c["ncs"] = case.get("ncs", [1, 2])
        if "model" in case:
            c["models"] = [case["model"]]
        one_pair(ctx, res, env, c, [], [], heavy=True, cli=(str(case.get("via", "")).startswith("cli")))
    finally:
        shutil.rmtree(env, ignore_errors=True)
