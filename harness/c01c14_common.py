"""Helpers shared by harness/c01.py and harness/c14.py: verbose-logging slices (HARDENING_CHECKLIST item 19) and the real
command-line entry points that load / construct / subset screens (item 18)."""
import contextlib
import importlib
import io
import json
import logging
import os
import sys

import numpy as np

from vlib import common
from harness import screens as S

common.use_repo_sources()


def vctx(flag):
    """`with vctx(case.get("verbose")):` -- the `batchie` logger at DEBUG with a formatting sink for the flagged slice of a stream"""
    return common.verbose_logging() if flag else contextlib.nullcontext()


def run_main(stage, argv, verbose):
    """`batchie.cli.<stage>.main()` with the given command line (+ `--verbose` for the verbose slice, because configure_logging resets the
    level); the `batchie` logger is put back as it was and what its stream handler writes is swallowed"""
    mod = importlib.import_module("batchie.cli." + stage)
    lg = logging.getLogger("batchie")
    handlers, level = list(lg.handlers), lg.level
    old_argv, old_err = sys.argv, sys.stderr
    sys.argv = [stage] + [str(a) for a in argv] + (["--verbose"] if verbose else [])
    sys.stderr = io.StringIO()
    try:
        with vctx(verbose):
            mod.main()
    except SystemExit as e:
        raise RuntimeError("command line rejected (exit %s)" % (e.code,))
    finally:
        sys.argv, sys.stderr = old_argv, old_err
        lg.handlers[:] = handlers
        lg.setLevel(level)


class Call:
    """one recorded call of a wrapped implementation function: raw positional / keyword arguments as they were passed, and the result"""

    def __init__(self, real, args, kwargs, out):
        self.real, self.args, self.kwargs, self.out = real, args, kwargs, out

    def arg(self, name):
        """the argument called `name` in the ORIGINAL function's signature, however it was passed (item 21); raises LookupError when the
        call cannot be bound to that signature or has no such parameter -- the caller turns that into a broken tie, never a violation"""
        import inspect
        try:
            ba = inspect.signature(self.real).bind(*self.args, **self.kwargs)
            ba.apply_defaults()
        except (TypeError, ValueError) as e:
            raise LookupError("cannot bind the recorded call: %s" % e)
        if name not in ba.arguments:
            raise LookupError("the wrapped function has no parameter %r any more" % name)
        return ba.arguments[name]


@contextlib.contextmanager
def recording(stage, name):
    """replace `batchie.cli.<stage>.<name>` by a wrapper that records every call and passes it through UNCHANGED: the wrappers take
    `*args, **kwargs` (a refactor may add an optional keyword or pass an argument by name) and never interpret them themselves"""
    mod = importlib.import_module("batchie.cli." + stage)
    real = getattr(mod, name)
    calls = []
    if name == "Screen":
        class Rec(real):            # the CLI only calls Screen.load_h5
            @staticmethod
            def load_h5(*args, **kwargs):
                s = real.load_h5(*args, **kwargs)
                calls.append(Call(real.load_h5, args, kwargs, s))
                return s
        setattr(mod, name, Rec)
    else:
        def wrapper(*args, **kwargs):
            out = real(*args, **kwargs)
            calls.append(Call(real, args, kwargs, out))
            return out
        setattr(mod, name, wrapper)
    try:
        yield calls
    finally:
        setattr(mod, name, real)


def wrapper_trouble(res, prop, where, case, detail):
    """the harness's own recording could not make sense of a call (item 21), or a batchie-written file does not have the layout the harness
    reads by name (item 20): a broken tie, never a violation"""
    res.count("wrapper.unexpected-call" if not where.startswith("layout") else "layout.unexpected")
    res.disagree("%s:harness-knowledge:%s" % (prop, where), {"case": case}, str(detail)[:400], "the call / layout the harness knows")


def raised_in_harness(exc):
    """does the exception come from harness code (a wrapper, an unpack of recorded arguments) rather than from the implementation? Decided by the
    innermost traceback frame that lies either in the implementation's sources or in the harness (frames of numpy / pandas / h5py below are skipped)"""
    import traceback
    repo = os.path.abspath(common.REPO) + os.sep
    mine = (os.path.join(common.VERIF, "harness") + os.sep, os.path.join(common.VERIF, "vlib") + os.sep)
    for fr in reversed(traceback.extract_tb(exc.__traceback__)):
        f = os.path.abspath(fr.filename)
        if f.startswith(repo):
            return False
        if f.startswith(mine):
            return True
    return False


def entry_raw(rng, arity=None, n_min=6, n_max=14, nan_obs=False):
    """a screen for the command-line stages: >= 3 plates with plate id 0 and at least one other plate unobserved, strictly positive observations
    (reveal_plates refuses all-zero / NaN), every (sample, treatment) of a combination also present as monotherapy when arity >= 2"""
    a = arity if arity is not None else rng.choice([1, 2, 2])
    ctrl = rng.choice(["", "control", "dmso"])
    drugs = [x for x in rng.sample(S.NAME_POOL, 5) if x != ctrl][:3]
    doses = [1.0, 2.5]
    samples = rng.sample(S.NAME_POOL, 2)
    plates = sorted(rng.sample(S.NAME_POOL, rng.randint(3, 5)))
    rows = []
    for smp in samples:
        for d in drugs:
            for x in doses[:rng.randint(1, 2)]:
                cells = [(ctrl, 0.0)] * a
                cells[rng.randrange(a)] = (d, x)
                rows.append((smp, cells))
        if a >= 2:
            for _ in range(rng.randint(2, 4)):
                rows.append((smp, [(rng.choice(drugs), 1.0) for _ in range(a)]))
    rng.shuffle(rows)
    rows = rows[:max(n_min, min(len(rows), n_max))]
    n = len(rows)
    pn = [plates[i % len(plates)] for i in range(n)]
    rng.shuffle(pn)
    observed = {q: rng.random() < 0.4 for q in plates}
    observed[plates[0]] = rng.random() < 0.5         # plate id 0 (first name in sort order) observed or not: `if plate_id:` slips show either way
    observed[plates[1]] = False
    observed[plates[2]] = False
    vals = [0.25, 0.5, 0.75, 0.9, 0.1, 1.0, 0.3333333333333333]
    obs = [rng.choice(vals) for _ in range(n)]
    if nan_obs:
        for i, v in zip(rng.sample(range(n), min(n, 3)), [float("nan"), float("inf"), float("-inf")]):
            obs[i] = v
    return dict(ctrl=ctrl, arity=a, tnames=[[c[0] for c in cells] for _, cells in rows], tdoses=[[c[1] for c in cells] for _, cells in rows],
                snames=[smp for smp, _ in rows], pnames=pn, obs=obs, mask=[observed[q] for q in pn], tmap=None, smap=None)


def read_json(path):
    with open(path) as f:
        return json.load(f)
