"""Shared screen generators / canonical serialisation for the structural properties
(C01 C02 C03 C11 C12 C13 C14 ...).  Runs under /venv/bin/python against /repo/src."""
import struct

import numpy as np

from vlib import common

common.use_repo_sources()

NAME_POOL = ["", "a", "ab", "abc", "b", "B", "control", "ctl", "é", "zz", "￿", "\U0001F600", "a b", "dmso", "x", "y", "z", "1", "10", "2"]
DOSE_POOL = [0.0, -0.0, -1.0, 5e-324, 1e-310, 1.0, 1.0, 2.5, 1e300, 0.1, 3.0, 10.0]


def name_tok(s):
    return "e" if s == "" else ".".join(str(ord(c)) for c in s)


def dose_tok(x):
    n, d = float(x).as_integer_ratio()
    return "%d/%d" % (n, d)


def bits(x):
    return struct.unpack("<Q", struct.pack("<d", float(x)))[0]


def from_bits(b):
    return struct.unpack("<d", struct.pack("<Q", int(b)))[0]


def lst(items, sep=","):
    items = list(items)
    return "-" if not items else sep.join(items)


def raw_to_tokens(raw):
    tn = lst((lst((name_tok(x) for x in row)) for row in raw["tnames"]), ";")
    td = lst((lst((dose_tok(x) for x in row)) for row in raw["tdoses"]), ";")
    sn = lst(name_tok(x) for x in raw["snames"])
    pn = lst(name_tok(x) for x in raw["pnames"])
    obs = "none" if raw["obs"] is None else lst(str(bits(x)) for x in raw["obs"])
    mask = "none" if raw["mask"] is None else lst("1" if b else "0" for b in raw["mask"])
    if raw.get("tmap") is None:
        tmap = "none"
    else:
        tmap = lst("%s:%s:%d" % (name_tok(str(a)), dose_tok(b), int(c)) for a, b, c in zip(*raw["tmap"]))
    if raw.get("smap") is None:
        smap = "none"
    else:
        smap = lst("%s:%d" % (name_tok(str(a)), int(c)) for a, c in zip(*raw["smap"]))
    return " ".join([name_tok(raw["ctrl"]), str(raw["arity"]), tn, td, sn, pn, obs, mask, tmap, smap])


def build(raw):
    """construct the real Screen"""
    from batchie.data import Screen
    n = len(raw["snames"])
    a = raw["arity"]
    kw = dict(
        treatment_names=np.array(raw["tnames"], dtype=str).reshape(n, a),
        treatment_doses=np.array(raw["tdoses"], dtype=float).reshape(n, a),
        sample_names=np.array(raw["snames"], dtype=str),
        plate_names=np.array(raw["pnames"], dtype=str),
        control_treatment_name=raw["ctrl"],
    )
    if raw["obs"] is not None:
        kw["observations"] = np.array(raw["obs"], dtype=float)
    if raw["mask"] is not None:
        kw["observation_mask"] = np.array(raw["mask"], dtype=bool)
    if raw.get("tmap") is not None:
        kw["treatment_mapping"] = tuple(np.array(x) for x in raw["tmap"])
        kw["treatment_mapping"] = (np.array(raw["tmap"][0], dtype=str), np.array(raw["tmap"][1], dtype=float), np.array(raw["tmap"][2], dtype=int))
    if raw.get("smap") is not None:
        kw["sample_mapping"] = (np.array(raw["smap"][0], dtype=str), np.array(raw["smap"][1], dtype=int))
    return Screen(**kw)


def show_ids(a):
    return lst(str(int(x)) for x in a)


def show_tmap(tm):
    return lst("%s:%s:%d" % (name_tok(str(a)), dose_tok(b), int(c)) for a, b, c in zip(*tm))


def show_smap(sm):
    return lst("%s:%d" % (name_tok(str(a)), int(c)) for a, c in zip(*sm))


def show_screen(s):
    tids = np.asarray(s.treatment_ids)
    return ("ok tids=" + lst((show_ids(r) for r in tids), ";") + "|sids=" + show_ids(s.sample_ids) + "|pids=" + show_ids(s.plate_ids)
            + "|tmap=" + show_tmap(s.treatment_mapping) + "|smap=" + show_smap(s.sample_mapping) + "|pmap=" + show_smap(s.plate_mapping)
            + "|obs=" + lst(str(bits(x)) for x in s.observations) + "|mask=" + lst("1" if b else "0" for b in s.observation_mask))


def show_rows(s):
    return ("tn=" + lst((lst(name_tok(str(x)) for x in r) for r in s.treatment_names), ";")
            + "|td=" + lst((lst(dose_tok(x) for x in r) for r in s.treatment_doses), ";")
            + "|sn=" + lst(name_tok(str(x)) for x in s.sample_names) + "|pn=" + lst(name_tok(str(x)) for x in s.plate_names))


def err_tok(e):
    n = type(e).__name__
    if n not in ("ValueError", "TypeError", "IndexError", "ZeroDivisionError", "RuntimeError", "AssertionError", "KeyError"):
        n = "Other"
    return "err:" + n


def sel_tok(sel):
    return lst("1" if b else "0" for b in sel)


def raw_of_screen(s, with_maps=False):
    """raw description of an existing real screen (used to send derived screens to the model)"""
    raw = dict(ctrl=s.control_treatment_name, arity=int(s.treatment_arity),
               tnames=[[str(x) for x in r] for r in s.treatment_names],
               tdoses=[[float(x) for x in r] for r in s.treatment_doses],
               snames=[str(x) for x in s.sample_names], pnames=[str(x) for x in s.plate_names],
               obs=[float(x) for x in s.observations], mask=[bool(b) for b in s.observation_mask], tmap=None, smap=None)
    if with_maps:
        raw["tmap"] = tuple(list(x) for x in s.treatment_mapping)
        raw["smap"] = tuple(list(x) for x in s.sample_mapping)
    return raw


def gen_raw(rng, n_max=12, arity=None, names=None, n_plates=None, all_observed=None, with_obs=True, ctrl=None,
            doses=None, n_samples=None, obs_values=None):
    """a structured, valid raw screen; masks are plate-uniform"""
    a = arity if arity is not None else rng.choice([1, 2, 2, 2, 3])
    n = rng.randint(0, n_max) if rng.random() < 0.9 else rng.randint(0, 3)
    pool = list(names if names is not None else rng.sample(NAME_POOL, rng.randint(2, 7)))
    ctrl = ctrl if ctrl is not None else rng.choice(["", "control", pool[0], "dmso"])
    if rng.random() < 0.6 and ctrl not in pool:
        pool.append(ctrl)
    dpool = list(doses if doses is not None else rng.sample(DOSE_POOL, rng.randint(2, 6)))
    spool = rng.sample(NAME_POOL, n_samples if n_samples else rng.randint(1, 4))
    ppool = rng.sample(NAME_POOL, n_plates if n_plates else rng.randint(1, 5))
    tn = [[rng.choice(pool) for _ in range(a)] for _ in range(n)]
    td = [[rng.choice(dpool) for _ in range(a)] for _ in range(n)]
    sn = [rng.choice(spool) for _ in range(n)]
    pn = [rng.choice(ppool) for _ in range(n)]
    ov = obs_values or [0.0, 1.0, 0.5, 0.25, 0.75, 1e-300, 0.3333333333333333, 0.9, 0.1, 2.0]
    obs = None
    mask = None
    if with_obs:
        obs = [rng.choice(ov) for _ in range(n)]
        mode = rng.random() if all_observed is None else (0.0 if all_observed else 0.5)
        if mode < 0.2:
            mask = None
        else:
            st = {p: rng.random() < 0.5 for p in set(pn)}
            mask = [st[p] for p in pn]
    return dict(ctrl=ctrl, arity=a, tnames=tn, tdoses=td, snames=sn, pnames=pn, obs=obs, mask=mask, tmap=None, smap=None)


def superset_mappings(rng, raw):
    """mappings batchie itself produces for a superset of the data"""
    extra = rng.randint(0, 4)
    big = dict(raw)
    a = raw["arity"]
    pool = NAME_POOL
    big["tnames"] = raw["tnames"] + [[rng.choice(pool) for _ in range(a)] for _ in range(extra)]
    big["tdoses"] = raw["tdoses"] + [[rng.choice(DOSE_POOL) for _ in range(a)] for _ in range(extra)]
    big["snames"] = raw["snames"] + [rng.choice(pool) for _ in range(extra)]
    big["pnames"] = raw["pnames"] + ["zzz_extra"] * extra
    if raw["obs"] is not None:
        big["obs"] = raw["obs"] + [0.5] * extra
        big["mask"] = None if raw["mask"] is None else raw["mask"] + [True] * extra
    s = build(big)
    return tuple(list(x) for x in s.treatment_mapping), tuple(list(x) for x in s.sample_mapping)
