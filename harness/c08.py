"""C08 -- each Gibbs block draws from the exact full conditional of the documented model.

Tie: the real `SparseDrugCombo` is stepped with a prescribing + recording generator proxy (handed over
through `set_rng`) and a recording wrapper around `sample_mvn_from_precision`; the recorded sequence of
block visits, draw kinds and draw ARGUMENTS, `Mu` after each of the 13 stages of `mcmc_step`, the state
after the sweep and `predict(get_model_state())` are compared with the Lean model (`Model/Gibbs.lean`,
executed at Float by `driver_c08`) on the same data, state and drawn values.

Oracles (implementation alone, float64, independent of the code's incremental algebra):
  * cache: after every stage `Mu` equals a from-scratch recomputation from the current parameters;
  * conditional parameters: for every Gaussian draw the design matrix is obtained NUMERICALLY from the
    from-scratch predictor (mu(block = e_d) - mu(block = 0)), then Q = prec XtX + diag(lam), b = prec Xt r and
    (mean, sd) = (b/Q, 1/sqrt Q) must equal the recorded arguments; for every gamma draw shape/rate are derived
    from the documented conjugate formulas (+ the 1e-3 stabiliser) on the state at the time of the draw;
  * alpha = mean of the transformed observations; precision bounds after every precision stage; block order;
    the MVN result equals U^-1 z + Q^-1 b (float64 solve); export reproduces `Mu` and 1/prec.
The input class "same non-control treatment twice in a row" is generated in its own stream and reported with
signature `C08:self-pair-cache` (known finding) ONLY when the stale entries are confined to rows with the same
non-control treatment twice and first appear after `_V0_step`, `_V2_step` or `_V1_step`; any other cache difference
in that stream is an ordinary violation.

Streams: `main` (random datasets / states / sweep counts), `grid` (for every D in 1..6: three consecutive sweeps from
a fresh model and from a randomised state in which all hyper-parameters are pairwise distinct; dataset with
combination rows, single-agent rows in both positions, a treatment and a sample without data), `history` (rows added
between sweeps through a second `add_observations`, `reset_model()` between sweeps), `selfpair`, `mvn`.
Further oracles: the training tuples are not modified by a step; a sample exported after sweep k still reproduces
sweep k's fitted values and precision after sweep k+1 ran (no aliasing of the sampler's arrays); a step that raises
is a violation (`C08:step-raised`) with a replay, not a harness crash.
`_reconstruct_Mu` is not a block: the order oracle looks at the twelve blocks; the cache oracle looks at the cache when
the first block starts and after every stage (so a sampler that reconstructs only when needed, or once more with
clip=False, stays green, while a clipping reconstruction between blocks is reported when it changes a value).

Mutants tried on a scratch copy (audit a-c08; all CAUGHT with a replay unless noted): eta2 in _prec_V1_step's phi rate;
last sweep's phi2 in the eta2 rate; wrong partner column in _V2_step's X2; V2 partner values snapshotted before the loop;
Mu snapshotted before the loop of _V1_step; prec upper clip 1e7; eta2 without upper clip; phi1 clipped with min(C); tau
unclipped; phi0 lower bound too low; no-data branches with the wrong precision (W: tau0, V1: phi2, W0: tau[0]);
V0 count = len(idx1); V0 without eta0; phi0 rate without 1/2; etaaux2 from eta1; gam shape off by one; gam[0] rate from
tau; gam rate divided by gam[d-1]; cumprod(gam) hoisted out of the loop over d; phi1*eta2 in _V1_step; tau[0] on the whole
diagonal of W's Q; tau0 rate with mean instead of sum; prec rate with sse instead of sse/2; residual sum of squares not from
Mu in the first sweep; alpha = median / cached mean; swapped _prec_V1/_prec_V2; reconstruct with clip; clipping reconstruct
between blocks; no reconstruct at all; solve_triangular with the untransposed factor; export aliasing V1 / W (was MISSED,
now C08:export-alias); exported precision stale; logit clip 0.001; dd1/dd2 swapped in _update; encode_obs memoised (was
invisible without the history stream, now C08:step-raised); W0 / V1 cache increments dropped or halved.
Equivalent (stay green): cho_solve((L, True)); Mu snapshotted before the loop of _W_step (samples touch disjoint rows);
reconstruct only when len(Mu) != n_obs; an extra reconstruct with clip=False; reset_model keeping W0.
Tie only (not a violation of the text): clip bound C cached from an earlier, smaller dataset (value stays inside the bounds).
"""
import random
import struct
import warnings

import numpy as np

from vlib import common

common.use_repo_sources()

RULE = ("datasets: nC 1-4 samples, nT 1-6 treatments, D 1-6, 0-28 rows mixing combination rows, single-agent rows in either "
        "position and all-control rows; some samples/treatments without data; 1-5 consecutive sweeps from the initial state or "
        "from a randomised state; prescribed draws (float32-exact, occasionally extreme to hit the clips; forced MVN failures); "
        "grid: every D in 1..6 x {fresh, randomised with pairwise distinct hyper-parameters} x 3 sweeps; histories with rows "
        "added between sweeps and reset_model(). "
        "Non-trivial: >=1 combination row, >=1 single-agent row, some treatment seen in both positions.")

TOL = 2e-5          # float32 arrays vs float64 model / independent derivation (measured noise ~2e-7 relative to scale)
EPS = 1e-3
STAGES = ["_reconstruct_Mu", "_alpha_step", "_W0_step", "_V0_step", "_W_step", "_V2_step", "_V1_step", "_prec_W0_step",
          "_prec_V0_step", "_prec_obs_step", "_prec_V2_step", "_prec_V1_step", "_prec_W_step"]
PARAMS = ["W", "W0", "V2", "V1", "V0", "tau", "gam", "eta2", "eta1", "phi2", "phi1", "phi0"]
SCALARS = ["alpha", "prec", "tau0", "eta0"]


def bits(x):
    return struct.unpack("<Q", struct.pack("<d", float(x)))[0]


def from_bits(b):
    return struct.unpack("<d", struct.pack("<Q", int(b)))[0]


def f32(x):
    return np.asarray(np.asarray(x, dtype=np.float32), dtype=np.float64)


def ftok(xs):
    xs = [bits(x) for x in np.asarray(xs, dtype=np.float64).ravel()]
    return ",".join(str(x) for x in xs) if xs else "-"


def itok(xs):
    xs = list(xs)
    return ",".join(str(int(x)) for x in xs) if xs else "-"


# ------------------------------------------------------------------------------------------------
# case generation
# ------------------------------------------------------------------------------------------------

GRID_ROWS = [[0, 0, 1], [0, 1, 0], [1, 0, 2], [1, 2, 1], [0, 0, -1], [1, -1, 0], [0, 2, -1], [1, -1, 1], [0, -1, -1],
             [2, 1, 2], [2, 0, 1], [0, 1, 2], [2, -1, 2], [1, 1, 0]]


def grid_spec(seed, D, perturbed):
    """fixed-shape case of the grid stream: 4 samples (sample 3 without data), 4 treatments (treatment 3 without data), all of
    treatments 0..2 in both positions, 3 consecutive sweeps, no wild draws, no forced failures"""
    rng = random.Random(seed)
    obs = [rng.random() for _ in GRID_ROWS]
    return {"stream": "grid", "case_seed": seed, "grid": [D, bool(perturbed)], "nC": 4, "nT": 4, "D": D, "rows": [list(r) for r in GRID_ROWS],
            "obs": obs, "perturb": bool(perturbed), "wild": False, "fail_p": 0.0, "max_sweeps": 3, "sweeps": 3}


def class_specs(seed):
    """the hardening classes, generated deterministically in EVERY run (only the observations depend on the seed):
    [(class name, spec)]; every spec runs 3 consecutive sweeps"""
    rng = random.Random(seed)

    def mk(name, nC, nT, D, rows, perturb, **kw):
        sp = {"stream": "class", "case_seed": seed, "klass": name, "nC": nC, "nT": nT, "D": D, "rows": [list(r) for r in rows],
              "obs": [round(0.02 + 0.96 * rng.random(), 6) for _ in rows], "perturb": perturb, "wild": False, "fail_p": 0.0,
              "max_sweeps": 3, "sweeps": 3}
        sp.update(kw)
        return (name, sp)

    out = []
    # row orderings: treatment 1 sits in position 2 (row 0) BEFORE it sits in position 1 (row 1); samples interleaved 0,1,0,1
    sbf = [[0, 0, 1], [1, 1, 2], [0, 2, 0], [1, 0, 2], [0, 1, 0], [1, 2, 1], [0, 1, -1], [1, -1, 1]]
    # mirror: for every treatment all its position-1 rows come before all its position-2 rows
    fbs = [[0, 2, -1], [0, 2, 3], [1, 1, 2], [0, 1, 3], [1, 0, 1], [0, 0, 2], [1, 0, 3], [1, -1, 1]]
    for D in (1, 3):
        for pert in (False, True):
            out.append(mk("row-order.second-position-row-before-first-position-row", 2, 3, D, sbf, pert))
            out.append(mk("row-order.first-position-rows-before-second-position-rows", 2, 4, D, fbs, pert))
    # falsy boundaries: sample 0 and treatment 0 (first ids) without data; D = 1; n_obs = 0 / 1
    out.append(mk("falsy.id0-sample-and-treatment-without-data", 3, 4, 2, [[1, 1, 2], [2, 2, 3], [1, 3, 1], [2, 1, -1], [1, -1, 3]], False))
    out.append(mk("falsy.id0-sample-and-treatment-without-data", 3, 4, 2, [[1, 1, 2], [2, 2, 3], [1, 3, 1], [2, 1, -1], [1, -1, 3]], True))
    out.append(mk("falsy.n_obs=0", 2, 2, 1, [], False))
    out.append(mk("falsy.n_obs=0", 2, 2, 3, [], True))
    out.append(mk("falsy.n_obs=1", 2, 2, 1, [[0, 0, 1]], False))
    out.append(mk("falsy.n_obs=1", 1, 1, 2, [[0, -1, 0]], True))
    out.append(mk("falsy.D=1", 2, 3, 1, GRID_ROWS[:9], True))
    # object reuse: sweep, reset_model(), more rows through a second add_observations, two more sweeps on the SAME object
    out.append(mk("object-reuse.reset_model-then-more-rows", 3, 3, 2, GRID_ROWS, False, n0=5, grow_at=1, reset_at=1))
    out.append(mk("object-reuse.reset_model-then-more-rows", 3, 4, 3, sbf + fbs, True, n0=3, grow_at=1, reset_at=1))
    out.append(mk("object-reuse.rows-added-to-empty-model", 3, 3, 2, GRID_ROWS, False, n0=0, grow_at=1))
    # id encodings: ids are not positions (permuted ids, mapping rows shuffled); a dataset without any control entry
    out.append(mk("id-encoding.permuted-mapping-ids", 3, 4, 2, GRID_ROWS + [[2, 3, 0]], True,
                  tperm=[2, 0, 3, 1], sperm=[1, 2, 0], tmap_row_order=[3, 1, 0, 2]))
    out.append(mk("id-encoding.no-control-entry", 2, 3, 2, [[0, 0, 1], [1, 1, 2], [0, 2, 0], [1, 0, 2], [0, 1, 0], [1, 2, 1]], True))
    # memory layout of the arrays the screen is built from
    out.append(mk("layout.strided-readonly-fortran-wide-U", 2, 3, 2, sbf, True, layout="strided-readonly"))
    # units without data at BOTH ends of the index range (sample 0 and 3, treatment 0 and 4): each must still be drawn (prior) every sweep
    ends = [[1, 1, 2], [2, 2, 3], [1, 3, 1], [2, 1, -1], [1, -1, 3], [2, 3, 2], [1, 2, -1]]
    out.append(mk("units-without-data.first-and-last-index", 4, 5, 2, ends, True))
    out.append(mk("units-without-data.first-and-last-index", 4, 5, 3, ends, False))
    out.append(mk("units-without-data.first-and-last-index", 4, 5, 2, ends, True, reset_at=1))
    # item 12 instalments: add(part 1); step; add(part 2); step; step -- no reset: alpha, index tables, design rows must reflect ALL rows
    out.append(mk("instalments.add-step-add-step", 3, 3, 2, GRID_ROWS, False, n0=6, grow_at=1))
    out.append(mk("instalments.add-step-add-step", 2, 4, 3, sbf + fbs, True, n0=9, grow_at=1))
    # item 10 identity-keyed caches: four equal-sized instalments, each a TEMPORARY screen that is dropped right after the call
    out.append(mk("identity-cache.equal-sized-temporary-screens", 3, 3, 2, GRID_ROWS[:12], False, parts=[3, 6, 9, 12]))
    out.append(mk("identity-cache.equal-sized-temporary-screens", 2, 4, 1, (sbf + fbs)[:16], True, parts=[4, 8, 12, 16]))
    # item 11 reuse with a DIFFERENT generator: set_rng(other) between sweeps (tie only: which generator is used is C18's clause)
    out.append(mk("reuse.other-generator-between-sweeps", 2, 3, 2, sbf, False, swap_rng_at=1))
    # item 13 integer widths: row numbers beyond int8 / uint8
    for nrow in (129, 257):
        wide = [[n % 2, n % 3, (n % 3 + 1 + (n // 3) % 2) % 3] for n in range(nrow)]
        sp_ = mk("int-width.n_obs=%d" % nrow, 2, 3, 2, wide, True)
        sp_[1]["sweeps"] = 2
        out.append(sp_)
    # two-digit ids / names
    big = [[n % 11, n % 12, (5 * n + 3) % 12] for n in range(30)]
    big = [[c, a, (b if b != a else -1)] for c, a, b in big]
    out.append(mk("size.two-digit-ids", 11, 12, 2, big, True))
    return out


def class_nontrivial(name, spec):
    """does the case really have the feature its class promises?"""
    rows = spec["rows"]
    if name.startswith("row-order."):
        sbf = fbs_all = False
        ok_all = True
        for m in range(spec["nT"]):
            i1 = [n for n, r in enumerate(rows) if r[1] == m]
            i2 = [n for n, r in enumerate(rows) if r[2] == m]
            if i1 and i2:
                sbf = sbf or min(i2) < max(i1)
                ok_all = ok_all and max(i1) < min(i2)
        both = any(any(r[1] == m for r in rows) and any(r[2] == m for r in rows) for m in range(spec["nT"]))
        return (sbf if "second-position-row-before" in name else (both and ok_all))
    if name == "falsy.id0-sample-and-treatment-without-data":
        return all(r[0] != 0 and r[1] != 0 and r[2] != 0 for r in rows) and len(rows) > 0
    if name == "id-encoding.no-control-entry":
        return all(r[1] >= 0 and r[2] >= 0 for r in rows)
    if name == "units-without-data.first-and-last-index":
        cs, ts = set(r[0] for r in rows), set(r[1] for r in rows) | set(r[2] for r in rows)
        return 0 not in cs and spec["nC"] - 1 not in cs and 0 not in ts and spec["nT"] - 1 not in ts and spec["sweeps"] >= 2
    if name.startswith("int-width."):
        return len(rows) in (129, 257) and all(r[1] != r[2] for r in rows)
    if name == "size.two-digit-ids":
        return any(r[0] >= 10 for r in rows) and any(max(r[1], r[2]) >= 10 for r in rows)
    return True


def history_spec(seed, max_sweeps):
    """a `main` dataset with >= 4 rows whose tail is added by a second add_observations() before sweep `grow_at`, and/or
    reset_model() before sweep `reset_at`; three sweeps"""
    rng = random.Random(seed ^ 0x715)
    for k in range(50):
        spec = gen_spec(seed + k, "main", max_sweeps)
        if len(spec["rows"]) >= 4:
            break
    spec["stream"] = "history"
    spec["case_seed"] = seed
    spec["sweeps"] = 3
    spec["fail_p"] = 0.0
    kind = rng.choice(["grow", "grow", "reset", "both"])
    if kind in ("grow", "both"):
        spec["n0"] = rng.randint(0, len(spec["rows"]) - 1)
        spec["grow_at"] = rng.choice([1, 2])
    if kind in ("reset", "both"):
        spec["reset_at"] = rng.choice([1, 2])
    return spec


def gen_spec(seed, stream, max_sweeps):
    rng = random.Random(seed)
    nC = rng.choice([1, 2, 2, 3, 3, 4])
    nT = rng.choice([1, 2, 3, 3, 4, 5, 6])
    D = rng.choice([1, 2, 2, 3, 4, 5, 6])
    N = rng.choice([0, 1, 2, 3, 5, 8, 8, 12, 12, 16, 20, 28]) if stream == "main" else rng.choice([2, 3, 5, 8, 12])
    used_c = rng.sample(range(nC), rng.randint(1, nC))
    used_t = rng.sample(range(nT), rng.randint(1, nT))
    # role restrictions: some treatments only ever first / only second
    role = {t: rng.choice(["both", "both", "first", "second"]) for t in used_t}
    rows = []
    for _ in range(N):
        c = rng.choice(used_c)
        k = rng.random()
        firsts = [t for t in used_t if role[t] in ("both", "first")]
        seconds = [t for t in used_t if role[t] in ("both", "second")]
        a = rng.choice(firsts) if firsts else -1
        b = rng.choice(seconds) if seconds else -1
        if k < 0.15:
            b = -1
        elif k < 0.30:
            a = -1
        elif k < 0.35:
            a, b = -1, -1
        if a == b and a != -1:
            others = [t for t in seconds if t != a]
            b = rng.choice(others) if others else -1
        rows.append([c, a, b])
    if stream == "selfpair":
        # the excluded input class: at least one row with the same non-control treatment twice
        for _ in range(rng.randint(1, 2)):
            t = rng.choice(used_t)
            rows[rng.randrange(len(rows))] = [rng.choice(used_c), t, t]
    obs = []
    for _ in range(N):
        k = rng.random()
        obs.append(0.0 if k < 0.05 else 1.0 if k < 0.1 else 1.7 if k < 0.12 else rng.random())
    perturb, wild, fail_p = rng.random() < 0.5, rng.random() < 0.3, rng.choice([0.0, 0.0, 0.05, 0.2])
    return {"stream": stream, "case_seed": seed, "nC": nC, "nT": nT, "D": D, "rows": rows, "obs": obs,
            "perturb": perturb, "wild": wild, "fail_p": fail_p, "max_sweeps": max_sweeps, "sweeps": rng.randint(1, max_sweeps)}


def fixed_selfpair_spec():
    """the design's witness of the known finding, independent of VERIF_SEED: two (a, a) rows + one single-agent row"""
    return {"stream": "selfpair", "case_seed": 8008, "fixed": "selfpair-witness", "nC": 1, "nT": 2, "D": 2,
            "rows": [[0, 0, 0], [0, 0, 0], [0, 1, -1]], "obs": [0.2, 0.7, 0.4], "perturb": False, "wild": False,
            "fail_p": 0.0, "max_sweeps": 1, "sweeps": 1}


def perms_of(spec):
    """(treatment perm, sample perm): name t<i> carries id tperm[i] (identity unless the spec asks for permuted ids)"""
    nT, nC = spec["nT"], spec["nC"]
    return spec.get("tperm") or list(range(nT)), spec.get("sperm") or list(range(nC))


def maps_of(spec):
    nT, nC = spec["nT"], spec["nC"]
    tperm, sperm = perms_of(spec)
    order_t = spec.get("tmap_row_order") or list(range(nT))       # rows of the supplied mapping in shuffled order
    tmap = (np.array(["t%d" % i for i in order_t] + [""], dtype=str), np.array([1.0] * nT + [0.0]),
            np.array([tperm[i] for i in order_t] + [-1]))
    smap = (np.array(["s%d" % i for i in range(nC)], dtype=str), np.array([sperm[i] for i in range(nC)]))
    return tmap, smap


def relayout(a, layout):
    """the same values in another memory layout (strided view of a wider buffer, read-only; wider <U for strings)"""
    if layout is None:
        return a
    if a.dtype.kind == "U":
        a = a.astype("<U31")
    big = np.zeros((a.shape[0] * 2,) + a.shape[1:], dtype=a.dtype, order="F" if a.ndim == 2 else "C")
    v = big[::2]
    v[...] = a
    if layout == "strided-readonly":
        v.setflags(write=False)
    return v


def screen_bytes(screen):
    return tuple(np.ascontiguousarray(getattr(screen, k)).tobytes() for k in ("observations", "treatment_ids", "sample_ids", "observation_mask"))


def build_screen(spec, rows, obs):
    from batchie.data import Screen
    if not rows:
        return None
    tmap, smap = maps_of(spec)
    tperm, sperm = perms_of(spec)
    tinv = {i_: n_ for n_, i_ in enumerate(tperm)}
    sinv = {i_: n_ for n_, i_ in enumerate(sperm)}
    lay = spec.get("layout")
    tn = np.array([[("t%d" % tinv[a] if a >= 0 else ""), ("t%d" % tinv[b] if b >= 0 else "")] for _, a, b in rows], dtype=str)
    td = np.array([[1.0 if a >= 0 else 0.0, 1.0 if b >= 0 else 0.0] for _, a, b in rows])
    screen = Screen(treatment_names=relayout(tn, lay), treatment_doses=relayout(td, lay),
                    sample_names=relayout(np.array(["s%d" % sinv[c] for c, _, _ in rows], dtype=str), lay),
                    plate_names=relayout(np.array(["p"] * len(rows), dtype=str), lay),
                    observations=relayout(np.array(obs, dtype=float), lay), treatment_mapping=tmap, sample_mapping=smap)
    ids_ok = (np.array_equal(np.asarray(screen.treatment_ids), np.array([[a, b] for _, a, b in rows]))
              and np.array_equal(np.asarray(screen.sample_ids), np.array([c for c, _, _ in rows])))
    if not ids_ok:
        raise RuntimeError("harness: screen ids differ from the requested ids")
    return screen


def build_model(spec, n0=None):
    """the model with the first `n0` rows (default: all) added"""
    from batchie.data import ExperimentSpace
    from batchie.models.sparse_combo import SparseDrugCombo
    tmap, smap = maps_of(spec)
    es = ExperimentSpace(treatment_mapping=tmap, sample_mapping=smap)
    model = SparseDrugCombo(experiment_space=es, n_embedding_dimensions=spec["D"])
    rows = spec["rows"] if n0 is None else spec["rows"][:n0]
    obs = spec["obs"] if n0 is None else spec["obs"][:n0]
    screen = build_screen(spec, rows, obs)
    if screen is not None:
        model.add_observations(screen)
    return model, screen


# ------------------------------------------------------------------------------------------------
# independent float64 reference of the documented model
# ------------------------------------------------------------------------------------------------

def snap(w):
    s = {k: np.array(getattr(w, k), dtype=np.float64) for k in PARAMS}
    for k in SCALARS:
        s[k] = float(getattr(w, k))
    s["Mu"] = np.array(w.Mu, dtype=np.float64)
    return s


def mu_scratch(P, cl, d1, d2, absolute=False):
    """alpha + W0[c] + V0[d1] + V0[d2] + <W[c], V1[d1]+V1[d2]> + <W[c], V2[d1]*V2[d2]>, control contributes 0"""
    if len(cl) == 0:
        return np.zeros(0)
    f = np.abs if absolute else (lambda x: x)
    D = P["W"].shape[1]
    V0 = np.append(f(P["V0"]), 0.0)
    V1 = np.vstack([f(P["V1"]), np.zeros((1, D))])
    V2 = np.vstack([f(P["V2"]), np.zeros((1, D))])
    W = f(P["W"])[cl]
    out = f(P["alpha"]) + f(P["W0"])[cl] + V0[d1] + V0[d2]
    out = out + (W * (V1[d1] + V1[d2])).sum(1) + (W * V2[d1] * V2[d2]).sum(1)
    return out


def with_block(P, name, idx, value):
    Q = dict(P)
    arr = P[name].copy()
    arr[idx] = value
    Q[name] = arr
    return Q


def gaussian_ref(P, data, name, idx, lam, mu_scratch=None):
    """canonical parameters of the full conditional of block P[name][idx] (numerical design)"""
    mu_scratch = mu_scratch or globals()["mu_scratch"]
    y, cl, d1, d2 = data
    cur = np.atleast_1d(P[name][idx])
    K = len(cur)
    zero = np.zeros(K) if P[name].ndim == 2 else 0.0
    P0 = with_block(P, name, idx, zero)
    base = mu_scratch(P0, cl, d1, d2)
    X = np.zeros((len(y), K))
    for d in range(K):
        e = np.zeros(K)
        e[d] = 1.0
        X[:, d] = mu_scratch(with_block(P, name, idx, e if P[name].ndim == 2 else 1.0), cl, d1, d2) - base
    r = y - base
    prec = P["prec"]
    Q = prec * X.T @ X + np.diag(np.atleast_1d(lam))
    b = prec * X.T @ r
    # magnitudes for the tolerances: the float32 design entries are sums/products of embeddings and may cancel,
    # so their noise is relative to the same expression evaluated on absolute values
    base_abs = mu_scratch(P0, cl, d1, d2, absolute=True)
    Xabs = np.zeros((len(y), K))
    for d in range(K):
        e = np.zeros(K)
        e[d] = 1.0
        Xabs[:, d] = mu_scratch(with_block(P, name, idx, e if P[name].ndim == 2 else 1.0), cl, d1, d2, absolute=True) - base_abs
    mag = np.abs(y) + mu_scratch(P, cl, d1, d2, absolute=True) + Xabs @ np.abs(cur)
    bscale = prec * Xabs.T @ mag
    qscale = max(float(np.max(np.abs(Q))), float(prec * np.max(Xabs.T @ Xabs))) if len(y) else float(np.max(np.abs(Q)))
    return Q, b, bscale, qscale


def close(a, b, scale, tol=TOL):
    a = np.asarray(a, dtype=np.float64)
    b = np.asarray(b, dtype=np.float64)
    if a.shape != b.shape:
        return False
    if a.size == 0:
        return True
    if not (np.all(np.isfinite(a)) and np.all(np.isfinite(b))):
        return bool(np.array_equal(np.isfinite(a), np.isfinite(b)) and np.allclose(a[np.isfinite(a)], b[np.isfinite(b)]))
    lim = tol * (1e-3 + np.maximum(np.asarray(scale, dtype=np.float64), np.maximum(np.abs(a), np.abs(b))))
    return bool(np.all(np.abs(a - b) <= lim))


# ------------------------------------------------------------------------------------------------
# prescribing + recording proxies
# ------------------------------------------------------------------------------------------------

def _bind_normal(loc=0.0, scale=1.0, size=None):
    return loc, scale, size


def _bind_gamma(shape, scale=1.0, size=None):
    return shape, scale, size


class Proxy:
    """duck-typed generator: returns prescribed (float32-exact) values, records kind/shape/arguments.  Signature-agnostic (item 21):
    `normal` / `gamma` take any positional / keyword form numpy's Generator accepts; a call this recorder does not understand (other
    argument names, another Generator method) is forwarded to a real generator and noted in `unexpected` (reported as a broken TIE)"""

    def __init__(self, seed, wild, get_ctx):
        self.g = np.random.default_rng(seed)
        self.wild = wild
        self.get_ctx = get_ctx      # () -> (stage name, state snapshot)
        self.records = []
        self.in_mvn = None
        self.unexpected = []

    def _backend(self):
        return self.g

    def __getattr__(self, name):
        # any other Generator method (standard_normal, uniform, ...): forwarded, unrecorded, noted
        if name.startswith("__") or name in ("g", "real", "unexpected", "records", "in_mvn", "get_ctx", "wild"):
            raise AttributeError(name)
        target = getattr(self._backend(), name)
        self.unexpected.append("generator method %s" % name)
        return target

    def _normal_value(self, loc, scale, size, args, kwargs):
        shape = np.broadcast(np.asarray(loc), np.asarray(scale)).shape if size is None else (size if isinstance(size, tuple) else (size,))
        k = self.g.choice([1.0, 1.0, 1.0, 0.2, 2.5]) if self.wild else 1.0
        z = self.g.standard_normal(shape) * k
        val = f32(np.asarray(loc, dtype=np.float64) + np.asarray(scale, dtype=np.float64) * z)
        return val, (val if val.shape != () else float(val))

    def _gamma_value(self, shape, scale, size, args, kwargs):
        shp = np.broadcast(np.asarray(shape), np.asarray(scale)).shape if size is None else (size if isinstance(size, tuple) else (size,))
        v = self.g.gamma(np.broadcast_to(np.asarray(shape, dtype=np.float64), shp), np.broadcast_to(np.asarray(scale, dtype=np.float64), shp))
        if self.wild:
            ext = 10.0 ** self.g.uniform(-8, 8, size=shp)
            v = np.where(self.g.random(shp) < 0.15, ext, v)
        val = f32(np.maximum(v, 1e-30))
        return val, (val if val.shape != () else float(val))

    def normal(self, *args, **kwargs):
        try:
            loc, scale, size = _bind_normal(*args, **kwargs)
        except TypeError:
            self.unexpected.append("normal%r%r" % (args, sorted(kwargs)))
            return self._backend().normal(*args, **kwargs)
        val, out = self._normal_value(loc, scale, size, args, kwargs)
        if self.in_mvn is not None:
            self.in_mvn["z"] = np.array(val, dtype=np.float64)
            return out if isinstance(self, PassProxy) else val
        stage, st = self.get_ctx()
        self.records.append({"kind": "normal", "stage": stage, "loc": np.array(loc, dtype=np.float64),
                             "scale": np.array(scale, dtype=np.float64), "size": size, "value": np.array(val), "state": st})
        return out

    def standard_normal(self, *args, **kwargs):
        """`standard_normal(n)` is `normal(size=n)` (same variates from the same stream)"""
        if len(args) > 1 or set(kwargs) - {"size"} or (args and kwargs):
            self.unexpected.append("standard_normal%r%r" % (args, sorted(kwargs)))
            return self._backend().standard_normal(*args, **kwargs)
        return self.normal(size=(args[0] if args else kwargs.get("size")))

    def gamma(self, *args, **kwargs):
        try:
            shape, scale, size = _bind_gamma(*args, **kwargs)
        except TypeError:
            self.unexpected.append("gamma%r%r" % (args, sorted(kwargs)))
            return self._backend().gamma(*args, **kwargs)
        val, out = self._gamma_value(shape, scale, size, args, kwargs)
        stage, st = self.get_ctx()
        self.records.append({"kind": "gamma", "stage": stage, "shape": np.array(shape, dtype=np.float64),
                             "scale": np.array(scale, dtype=np.float64), "size": size, "value": np.array(val), "state": st})
        return out


class PassProxy(Proxy):
    """records like `Proxy` but hands out what the REAL generator returns for exactly the call the code made, so the chain is the one
    the un-instrumented sampler would run with that generator (used for the command-line entry point)"""

    def __init__(self, real):
        Proxy.__init__(self, 0, False, None)
        self.real = real

    def _backend(self):
        return self.real

    def _normal_value(self, loc, scale, size, args, kwargs):
        out = self.real.normal(*args, **kwargs)
        return np.asarray(out, dtype=np.float64).copy(), out

    def _gamma_value(self, shape, scale, size, args, kwargs):
        out = self.real.gamma(*args, **kwargs)
        return np.asarray(out, dtype=np.float64).copy(), out


class ForcedFailure(Exception):
    pass


def innermost_in_harness(e):
    """is the innermost frame of the exception in harness code (a wrapper / proxy of ours), not in the implementation?"""
    import os
    import traceback
    tb = traceback.extract_tb(e.__traceback__)
    return bool(tb) and os.path.abspath(tb[-1].filename) == os.path.abspath(__file__)


def wrapper_trouble(res, trace, case, prefix="C08"):
    """item 21: calls the recorders did not understand, wrapper exceptions, missing stage functions -> counter + broken tie; returns
    True when the sweep cannot be judged"""
    stop = False
    for key in ("unsupported", "wrapper_error"):
        if trace.get(key):
            res.count("wrapper.unexpected-call")
            report(res, "the harness's recording wrappers could not follow this sweep: " + str(trace[key]), case, trace[key], "recordable sweep",
                   prefix + ":wrapper-unexpected-call")
            stop = True
    if trace.get("unexpected"):
        res.count("wrapper.unexpected-call", len(trace["unexpected"]))
        report(res, "calls the harness's recorders did not understand (forwarded unchanged)", case, trace["unexpected"][:5], "recordable calls",
               prefix + ":wrapper-unexpected-call")
        stop = True          # the draw sequence is incomplete: the per-draw oracles cannot be evaluated
    return stop


def run_sweep(model, proxy, fail_rng, fail_p, data, stages=None, module=None, snap=None, step=None):
    """one real `model.step()` with every stage wrapped; returns the recorded trace"""
    import batchie.fast_mvn as fm
    if module is None:
        import batchie.models.sparse_combo as module
    sc = module
    stages = stages or STAGES
    snap = snap or globals()["snap"]
    w = model.wrapped_model
    trace = {"stages": [], "mus": [], "snaps": []}
    cur = {"stage": None}
    proxy.get_ctx = lambda: (cur["stage"], snap(w))
    proxy.records = []
    proxy.unexpected = []
    trace["unexpected"] = proxy.unexpected
    import inspect
    real_mvn = fm.sample_mvn_from_precision

    def mvn_wrapper(*args, **kwargs):
        """signature-agnostic (item 21): whatever positional / keyword form the sampler uses is forwarded unchanged; the arguments
        the oracles need are found by binding against the real function's signature"""
        rec = None
        try:
            ba = inspect.signature(real_mvn).bind(*args, **kwargs)
            ba.apply_defaults()
            a_ = ba.arguments
            form = "mu_part" if a_.get("mu_part") is not None else ("mu" if a_.get("mu") is not None else None)
            Q_ = np.array(a_["Q"], dtype=np.float64)
            if form is None or a_.get("chol_factor"):
                raise TypeError("call form not understood by the recorder")
            b_ = np.array(a_[form], dtype=np.float64)
            if form == "mu":
                b_ = Q_ @ b_          # canonical (mu_part) form: N(Q^-1 (Q m), Q^-1) = N(m, Q^-1)
            rec = {"kind": "mvn", "stage": cur["stage"], "Q": Q_, "b": b_, "form": form, "rng_is_proxy": a_.get("rng") is proxy,
                   "state": snap(w), "failed": False, "z": None, "value": None}
        except Exception as e:      # noqa: BLE001 -- the recorder's problem, not the implementation's
            proxy.unexpected.append("sample_mvn_from_precision call not understood: %s" % str(e)[:120])
            return real_mvn(*args, **kwargs)
        proxy.records.append(rec)
        if fail_rng.random() < fail_p:
            rec["failed"] = True
            raise ForcedFailure()
        proxy.in_mvn = rec
        try:
            out = real_mvn(*args, **kwargs)
        except Exception:
            rec["failed"] = True
            raise
        finally:
            proxy.in_mvn = None
        rec["value"] = np.array(out, dtype=np.float64)
        return out

    missing_stage = [nm for nm in stages if not callable(getattr(type(w), nm, None))]
    if missing_stage:
        # the stage functions are private names: knowledge about the current layout of the class, i.e. part of the tie
        trace["unsupported"] = "stage functions %s not found on %s" % (missing_stage, type(w).__name__)
        trace["records"] = []
        return trace

    def wrap(name):
        orig = getattr(type(w), name)

        def f(*a, **k):
            if name != "_reconstruct_Mu" and not trace["stages"]:
                # a sampler that keeps Mu purely incrementally need not call _reconstruct_Mu: what the property needs is that the
                # cache agrees with the parameters when the first block starts -- recorded here as the state "after" that stage
                trace["stages"].append("_reconstruct_Mu")
                trace["mus"].append(np.array(w.Mu, dtype=np.float64))
                trace["snaps"].append(snap(w))
                trace["synthetic_reconstruct"] = True
            cur["stage"] = name
            trace["stages"].append(name)
            r = orig(w, *a, **k)
            trace["mus"].append(np.array(w.Mu, dtype=np.float64))
            trace["snaps"].append(snap(w))
            cur["stage"] = None
            return r
        return f

    had_name = hasattr(sc, "sample_mvn_from_precision")
    saved = getattr(sc, "sample_mvn_from_precision", None)
    if had_name:
        sc.sample_mvn_from_precision = mvn_wrapper
    fm.sample_mvn_from_precision = mvn_wrapper          # whichever way the sampler reaches the helper
    for nme in stages:
        setattr(w, nme, wrap(nme))
    try:
        with warnings.catch_warnings():
            warnings.simplefilter("ignore")
            try:
                (step or model.step)()
            except Exception as e:      # noqa: BLE001 -- the unchanged sampler never raises on these inputs
                msg = "%s: %s (in %s)" % (type(e).__name__, str(e)[:200], cur["stage"])
                if innermost_in_harness(e):
                    trace["wrapper_error"] = msg          # raised by the harness's own wrapper / proxy: a broken tie, never a violation
                else:
                    trace["raised"] = msg
    finally:
        if had_name:
            sc.sample_mvn_from_precision = saved
        fm.sample_mvn_from_precision = real_mvn
        for nme in stages:
            if nme in w.__dict__:
                delattr(w, nme)
    trace["records"] = proxy.records
    return trace


# ------------------------------------------------------------------------------------------------
# oracles on one sweep
# ------------------------------------------------------------------------------------------------

def site_list(nC, nT, D):
    s = [("alpha", "det")]
    s += [("W0.%d" % c, "normal") for c in range(nC)] + [("V0.%d" % m, "normal") for m in range(nT)]
    s += [("W.%d" % c, "vec") for c in range(nC)] + [("V2.%d" % m, "vec") for m in range(nT)] + [("V1.%d" % m, "vec") for m in range(nT)]
    s += [(x, "gamma") for x in ["tau0", "phi0aux", "phi0", "eta0aux", "eta0", "prec", "phi2aux", "phi2", "eta2aux", "eta2",
                                 "phi1aux", "phi1", "eta1aux", "eta1"]]
    s += [("gam.%d" % d, "gamma") for d in range(D)]
    return s


STAGE_OF = {"W0": "_W0_step", "V0": "_V0_step", "W": "_W_step", "V2": "_V2_step", "V1": "_V1_step", "tau0": "_prec_W0_step",
            "phi0aux": "_prec_V0_step", "phi0": "_prec_V0_step", "eta0aux": "_prec_V0_step", "eta0": "_prec_V0_step",
            "prec": "_prec_obs_step", "phi2aux": "_prec_V2_step", "phi2": "_prec_V2_step", "eta2aux": "_prec_V2_step",
            "eta2": "_prec_V2_step", "phi1aux": "_prec_V1_step", "phi1": "_prec_V1_step", "eta1aux": "_prec_V1_step",
            "eta1": "_prec_V1_step", "gam": "_prec_W_step"}


# Oracles may only demand what the property text states, for inputs inside its quantifier.  These checks concern things the text
# does not state (which numpy primitive realises a draw / how many primitive draws a block makes, which generator object is used
# (C18), whether inputs are left untouched, whether an unusual array layout is accepted, internal bookkeeping attributes; for the
# interaction sampler of the extension also its transform and its row filter (C04)): a difference is reported as a broken TIE (expected behaviour = the documented/modelled one),
# never as a counterexample with a replay.
TIE_ONLY = {"C08:wrapper-unexpected-call", "C08:cli-chain", "C08:draw-kind", "C08:rng", "C08:data-mutated", "C08:input-mutated", "C08:add-observations-raised", "C08:instalments-state",
            "C08I:draw-kind", "C08I:rng", "C08I:transform", "C08I:rows", "C08I:add-observations-raised"}


def report(res, what, case, observed, required, signature):
    if signature.startswith("C08I:"):
        # the interaction sampler is an EXTENSION beyond C08's text: recorded and printed, never affects the result
        res.advise(what, case, observed, required, signature)
    elif signature in TIE_ONLY:
        res.count("tie_only." + signature)
        res.disagree(signature + " (" + what + ")", case, observed, required)
    else:
        res.fail(what, case, observed, required, signature)


def unvisited_units(trace, stage_names, stage, base, n_units, width):
    """UNIT-LEVEL visit oracle, independent of which numpy primitive realises a draw: after `stage`, the stored parameter of every
    unit 0..n_units-1 (`width` None: scalar per unit, else a row of that length) must be a value handed out by a draw made in that
    stage (as stored: float32); the only exception is a unit whose multivariate draw failed (its block keeps its value), so the
    number of unexplained units may not exceed the number of failed draws of the stage.  Returns the unexplained units beyond that."""
    st = trace["snaps"][stage_names.index(stage)]
    stored = np.asarray(st[base], dtype=np.float64)
    handed, failed = [], 0
    for r in trace["records"]:
        if r.get("stage") != stage:
            continue
        if r["kind"] == "mvn" and (r.get("failed") or r.get("value") is None):
            failed += 1
            continue
        v = f32(np.asarray(r["value"], dtype=np.float64))
        handed += [x for x in (v.reshape(-1, width) if width is not None else v.reshape(-1, 1))]
    missing = []
    for u in range(n_units):
        row = stored[u].reshape(-1)
        if not any(h.shape == row.shape and np.array_equal(h, row) for h in handed):
            missing.append(u)
    return missing[failed:] if len(missing) > failed else []


def far_rows(a, b, scale, tol):
    """indices where |a - b| exceeds the tolerance of `close` (same formula, entrywise)"""
    a = np.asarray(a, dtype=np.float64)
    b = np.asarray(b, dtype=np.float64)
    lim = tol * (1e-3 + np.maximum(np.asarray(scale, dtype=np.float64), np.maximum(np.abs(a), np.abs(b))))
    return [int(i) for i in np.nonzero(~(np.abs(a - b) <= lim))[0]]


KNOWN_STALE_FROM = 3        # index of _V0_step in STAGES: the first stage whose `Mu[idx] +=` can see a duplicated index


def check_sweep(spec, rows, sweep_no, before, trace, data, y_ref, fail, counts):
    """all implementation-only oracles of one sweep; returns the canonical impl log [(site, kind, args, scale, value)]
    or None when the draw sequence has the wrong shape.  `fail(what, observed, required, signature)` reports."""
    nC, nT, D = spec["nC"], spec["nT"], spec["D"]
    y, cl, d1, d2 = data
    N = len(y)
    selfpair = spec["stream"] == "selfpair"
    # rows of the excluded input class: the same non-control treatment in both positions
    sp_rows = set(n for n in range(N) if d1[n] == d2[n] and d1[n] != -1)

    if trace.get("raised"):
        fail("the sampler step raised instead of resampling every block", trace["raised"], "step() completes", "C08:step-raised")
        return None

    # ---- order of the blocks (`_reconstruct_Mu` is not a block: extra or missing calls of it are judged by the cache oracle)
    blocks = [nm for nm in trace["stages"] if nm != "_reconstruct_Mu"]
    if blocks != STAGES[1:] or trace["stages"][:1] != STAGES[:1]:
        fail("sweep does not visit the blocks once each in the documented order", trace["stages"], STAGES, "C08:order")
        return None

    # ---- cache = from-scratch recomputation after every stage
    if N > 0:
        for si, (name, mu_c, st) in enumerate(zip(trace["stages"], trace["mus"], trace["snaps"])):
            ref = mu_scratch(st, cl, d1, d2)
            sc_ = mu_scratch(st, cl, d1, d2, absolute=True)
            if mu_c.shape != ref.shape or not close(mu_c, ref, sc_, tol=1e-4):
                same_shape = mu_c.shape == ref.shape
                bad = int(np.argmax(np.abs(mu_c - ref))) if same_shape else -1
                stale = far_rows(mu_c, ref, sc_, 1e-4) if same_shape and np.all(np.isfinite(mu_c)) and np.all(np.isfinite(ref)) else None
                # the known finding, narrowly: every stale entry sits on a row with the same non-control treatment twice and the
                # first stale stage is one of the treatment blocks (or later); anything else is an ordinary violation
                known = (selfpair and stale is not None and len(stale) > 0 and set(stale) <= sp_rows and si >= KNOWN_STALE_FROM)
                fail("fitted-value cache Mu differs from a from-scratch recomputation after " + name,
                     {"row": bad, "cline_dd1_dd2": rows[bad] if bad >= 0 else None, "stale_rows": stale, "Mu": mu_c.tolist()[:12],
                      "max_abs_diff": float(np.max(np.abs(mu_c - ref))) if bad >= 0 else None},
                     {"recomputed": ref.tolist()[:12]}, "C08:self-pair-cache" if known else "C08:cache:" + name)
                if selfpair:
                    return None
                break
    if selfpair:
        return None
    if trace["stages"] != STAGES:
        # extra _reconstruct_Mu calls: their snapshots were judged above; keep the first one and the twelve blocks
        keep = [0] + [i for i, nm in enumerate(trace["stages"]) if nm != "_reconstruct_Mu"]
        for key in ("stages", "mus", "snaps"):
            trace[key] = [trace[key][i] for i in keep]

    # ---- alpha = mean of the transformed observations
    st_alpha = trace["snaps"][1]
    if N > 0 and not close(st_alpha["alpha"], float(np.mean(y_ref)), float(np.mean(np.abs(y_ref))) + 1.0):
        fail("alpha is not the mean of the transformed observations", st_alpha["alpha"], float(np.mean(y_ref)), "C08:alpha")
    if N == 0 and st_alpha["alpha"] != before["alpha"]:
        fail("alpha changed without observations", st_alpha["alpha"], before["alpha"], "C08:alpha")

    # ---- every unit of every Gaussian block is visited (drawn: data branch or prior branch) in every sweep
    for stage_, base_, n_, wd_ in (("_W0_step", "W0", nC, None), ("_V0_step", "V0", nT, None), ("_W_step", "W", nC, D),
                                   ("_V2_step", "V2", nT, D), ("_V1_step", "V1", nT, D)):
        miss = unvisited_units(trace, STAGES, stage_, base_, n_, wd_)
        counts["units.visit_checked"] = counts.get("units.visit_checked", 0) + n_
        if miss:
            nodata = [u for u in miss if (int(np.sum(cl == u)) == 0 if base_ in ("W", "W0") else int(np.sum(d1 == u) + np.sum(d2 == u)) == 0)]
            fail("block %s: units %s were not resampled in this sweep (their stored value is not a value drawn in %s)" % (base_, miss, stage_),
                 {"units": miss, "units_without_data": nodata, "stored": np.asarray(trace["snaps"][STAGES.index(stage_)][base_])[miss[0]].tolist()},
                 "every unit 0..%d receives one draw per sweep (full conditional; the prior N(0, 1/lambda) without data)" % (n_ - 1),
                 "C08:unit-not-visited")
            return None

    # ---- the draw sequence: kinds and shapes
    sites = site_list(nC, nT, D)
    recs = trace["records"]
    log = [("alpha", "det", [st_alpha["alpha"]], [float(np.mean(np.abs(y_ref))) if N else 0.0], None)]
    if len(recs) != len(sites) - 1:
        fail("number of random draws in a sweep", len(recs), len(sites) - 1, "C08:draw-kind")
        return None
    occ1 = np.array([int(np.sum(d1 == m)) for m in range(nT)])
    occ2 = np.array([int(np.sum(d2 == m)) for m in range(nT)])
    occC = np.array([int(np.sum(cl == c)) for c in range(nC)])
    a0 = b0 = 1.1
    for ri, ((site, skind), rec) in enumerate(zip(sites[1:], recs)):
        base, _, ix = site.partition(".")
        ix = int(ix) if ix else None
        P = rec["state"]
        if rec["stage"] != STAGE_OF[base]:
            fail("draw made in the wrong stage", {"site": site, "stage": rec["stage"]}, STAGE_OF[base], "C08:order")
            return None
        what = "draw arguments of %s are not the parameters of its full conditional" % base
        sig = "C08:args:" + base
        if skind == "normal":
            if rec["kind"] != "normal" or rec["loc"].shape != () or rec["scale"].shape != () or rec["size"] is not None:
                fail("draw kind/shape at " + site, rec["kind"], "scalar normal", "C08:draw-kind")
                return None
            lam = P["tau0"] if base == "W0" else P["phi0"][ix] * P["eta0"]
            Q, b, bscale, _qs = gaussian_ref(P, data, base, ix, lam)
            q = float(Q[0, 0])
            mean_ref, sd_ref = float(b[0]) / q, 1.0 / np.sqrt(q)
            args = [float(rec["loc"]), float(rec["scale"])]
            scale = [float(bscale[0]) / q, sd_ref]
            if not close(args, [mean_ref, sd_ref], scale):
                fail(what, {"site": site, "mean_sd": args}, {"mean_sd": [mean_ref, sd_ref], "Q": q, "b": float(b[0])}, sig)
            log.append((site, "normal", args, scale, float(rec["value"])))
        elif skind == "vec":
            lam = {"W": P["tau"], "V2": None, "V1": None}[base]
            if base == "V2":
                lam = P["phi2"][ix] * P["eta2"]
            elif base == "V1":
                lam = P["phi1"][ix] * P["eta1"]
            Q, b, bscale, qs = gaussian_ref(P, data, base, ix, lam)
            has = (occC[ix] > 0) if base == "W" else (occ1[ix] + occ2[ix] > 0)
            if not has:
                ok = (rec["kind"] == "normal" and rec["scale"].shape == (D,) and rec["loc"].shape == () and rec["size"] is None)
                if not ok:
                    fail("draw kind/shape at " + site, rec["kind"], "normal with vector sd (unit without data)", "C08:draw-kind")
                    return None
                args = [float(rec["loc"])] + rec["scale"].tolist()
                ref = [0.0] + (1.0 / np.sqrt(lam)).tolist()
                if not close(args, ref, ref):
                    fail(what, {"site": site, "mean_sd": args}, {"mean_sd": ref}, sig)
                log.append((site, "normalVec", args, ref, rec["value"].tolist()))
            else:
                if rec["kind"] != "mvn" or rec["Q"].shape != (D, D) or rec["b"].shape != (D,):
                    fail("draw kind/shape at " + site, rec["kind"], "sample_mvn_from_precision(Q[D,D], mu_part[D])", "C08:draw-kind")
                    return None
                if not rec["rng_is_proxy"]:
                    fail("sample_mvn_from_precision is not given the model's generator", "rng is not the generator", "rng=self.rng", "C08:rng")
                args = rec["Q"].ravel().tolist() + rec["b"].tolist()
                scale = [qs] * (D * D) + bscale.tolist()
                if not close(rec["Q"], Q, qs) or not close(rec["b"], b, bscale):
                    fail(what, {"site": site, "Q": rec["Q"].tolist(), "mu_part": rec["b"].tolist()},
                         {"Q": Q.tolist(), "mu_part": b.tolist()}, sig)
                if rec["failed"]:
                    value = None
                elif rec["z"] is None:
                    # the draw bypassed the model's generator (already reported above): nothing to recompute
                    value = trace_value_after(trace, base, ix, rec)
                else:
                    value = trace_value_after(trace, base, ix, rec)
                    # MVN: result = U^-1 z + Q^-1 b  (float64, on the recorded float32 Q)
                    try:
                        L = np.linalg.cholesky(rec["Q"])
                        t1, t2 = np.linalg.solve(L.T, rec["z"]), np.linalg.solve(rec["Q"], rec["b"])
                        cond = np.linalg.cond(rec["Q"])
                        if 1e-5 * cond > 0.3:
                            # float32 Cholesky: relative error ~ cond * 6e-8; beyond this the comparison says nothing
                            counts["mvn.in_sweep.ill_conditioned_skipped"] = counts.get("mvn.in_sweep.ill_conditioned_skipped", 0) + 1
                        else:
                            counts["mvn.in_sweep.checked"] = counts.get("mvn.in_sweep.checked", 0) + 1
                            if D == 1 and abs(float(rec["Q"][0, 0]) - 1.0) > 0.05:
                                counts["class.mvn.in_sweep.1x1-precision-not-1"] = counts.get("class.mvn.in_sweep.1x1-precision-not-1", 0) + 1
                            if not close(rec["value"], t1 + t2, float(np.max(np.abs(t1) + np.abs(t2))), tol=1e-5 * max(1.0, cond)):
                                fail("sample_mvn_from_precision(Q, mu_part, z) is not U^-1 z + Q^-1 mu_part",
                                     {"site": site, "result": rec["value"].tolist()}, {"expected": (t1 + t2).tolist(), "cond": float(cond)}, "C08:mvn")
                    except np.linalg.LinAlgError:
                        pass
                log.append((site, "mvn", args, scale, value))
        else:
            if rec["kind"] != "gamma" or rec["size"] is not None:
                fail("draw kind/shape at " + site, rec["kind"], "gamma", "C08:draw-kind")
                return None
            prev = recs[ri - 1]["value"] if base in ("phi0", "eta0", "phi2", "eta2", "phi1", "eta1") else None
            shape_ref, rate_ref, rscale, stab = gamma_ref(base, ix, P, prev, data, nC, nT, D, a0, b0)
            want_shape = np.shape(rate_ref)
            if rec["shape"].shape != () or rec["scale"].shape != want_shape:
                fail("draw kind/shape at " + site, [list(rec["shape"].shape), list(rec["scale"].shape)], [[], list(want_shape)], "C08:draw-kind")
                return None
            scale_ref = 1.0 / (np.asarray(rate_ref) + stab)
            args = [float(rec["shape"])] + np.asarray(rec["scale"]).ravel().tolist()
            ref = [float(shape_ref)] + np.asarray(scale_ref).ravel().tolist()
            rel = [0.0] + (np.asarray(scale_ref) ** 2 * np.asarray(rscale)).ravel().tolist()
            if not close(args, ref, rel):
                fail("gamma arguments of %s are not (conjugate shape, 1/(conjugate rate + 1e-3))" % base,
                     {"site": site, "shape": args[0], "scale": args[1:7]}, {"shape": ref[0], "scale": ref[1:7]}, "C08:args:" + base)
            log.append((site, "gamma", args, rel, np.asarray(rec["value"]).ravel().tolist()))

    # ---- bounds after every precision stage
    lowN = 1.0 / np.sqrt(1.0 + N)
    lowT = 1.0 / np.sqrt(1.0 + occ1 + occ2)
    for name, st in zip(trace["stages"], trace["snaps"]):
        chk = []
        if name == "_prec_W0_step":
            chk = [("tau0", st["tau0"], lowN)]
        elif name == "_prec_V0_step":
            chk = [("eta0", st["eta0"], lowN), ("phi0", st["phi0"], lowT)]
        elif name == "_prec_obs_step" and N > 0:
            chk = [("prec", st["prec"], lowN)]
        elif name == "_prec_V2_step":
            chk = [("eta2", st["eta2"], lowN), ("phi2", st["phi2"], lowT[:, None])]
        elif name == "_prec_V1_step":
            chk = [("eta1", st["eta1"], lowN), ("phi1", st["phi1"], lowT[:, None])]
        elif name == "_prec_W_step":
            chk = [("tau", st["tau"], lowN)]
        for nm, v, lo in chk:
            v = np.asarray(v)
            if not (np.all(v >= lo * (1 - 1e-6)) and np.all(v <= 1e6 * (1 + 1e-6))):
                fail("precision %s outside its documented bounds after %s" % (nm, name), v.ravel().tolist()[:8],
                     {"low": np.asarray(lo).ravel().tolist()[:8], "high": 1e6}, "C08:bounds:" + nm)
    return log


def trace_value_after(trace, base, ix, rec):
    """the value stored by a vector block = the row of the parameter right after the block's stage ... the row is not
    touched again inside the stage, so the stage-end snapshot holds it"""
    st = trace["snaps"][STAGES.index(STAGE_OF[base])]
    return st[base][ix].tolist()


def gamma_ref(base, ix, P, prev, data, nC, nT, D, a0, b0, mu_scratch=None):
    """(conjugate shape, conjugate rate, magnitude of the rate's summands) from the documented model"""
    mu_scratch = mu_scratch or globals()["mu_scratch"]
    y, cl, d1, d2 = data
    N = len(y)
    if base == "tau0":
        s = 0.5 * np.sum(P["W0"] ** 2)
        return a0 + 0.5 * nC, b0 + s, b0 + s, EPS
    if base == "prec":
        if N == 0:
            return a0, b0, b0, 0.0
        mu = mu_scratch(P, cl, d1, d2)
        mag = np.abs(y) + mu_scratch(P, cl, d1, d2, absolute=True)
        return a0 + 0.5 * N, b0 + 0.5 * np.sum((y - mu) ** 2), b0 + 0.5 * np.sum(mag ** 2), EPS
    if base in ("phi0aux", "phi2aux", "phi1aux"):
        r = 1.0 + P[base[:4]]
        return 1.0, r, r, 0.0
    if base in ("eta0aux", "eta2aux", "eta1aux"):
        r = 1.0 + P[base[:4]]
        return 1.0, r, r, 0.0
    if base in ("phi0", "phi2", "phi1"):
        k = base[3]
        r = np.asarray(prev) + 0.5 * P["eta" + k] * P["V" + k] ** 2
        return 1.0, r, r, EPS
    if base in ("eta0", "eta2", "eta1"):
        k = base[3]
        r = np.asarray(prev) + 0.5 * np.sum(P["phi" + k] * P["V" + k] ** 2, axis=0)
        return 0.5 * (1 + nT), r, r, EPS
    if base == "gam":
        g = P["gam"]
        s = 0.0
        for e in range(ix, D):
            rest = np.prod([g[l] for l in range(e + 1) if l != ix])
            s += rest * np.sum(P["W"][:, e] ** 2)
        return (2.0 if ix == 0 else 3.0) + 0.5 * nC * (D - ix), 1.0 + 0.5 * s, 1.0 + 0.5 * s, EPS
    raise KeyError(base)


# ------------------------------------------------------------------------------------------------
# driver line for one sweep
# ------------------------------------------------------------------------------------------------

def state_floats(st, N):
    out = [st["alpha"], st["prec"], st["tau0"], st["eta0"]]
    for k in ["W", "W0", "V2", "V1", "V0", "tau", "gam", "eta2", "eta1", "phi2", "phi1", "phi0"]:
        out += np.asarray(st[k]).ravel().tolist()
    mu = np.asarray(st["Mu"]).ravel().tolist()
    out += mu if len(mu) == N else [0.0] * N
    return out


def sweep_line(spec, before, log, data):
    nC, nT, D = spec["nC"], spec["nT"], spec["D"]
    y, cl, d1, d2 = data
    N = len(y)
    val = {s: v for (s, _k, _a, _sc, v) in log}

    def vecs(base, n):
        rows, fails = [], []
        for i in range(n):
            v = val["%s.%d" % (base, i)]
            fails.append(v is None)
            rows += [0.0] * D if v is None else list(v)
        return rows, fails

    w, fw = vecs("W", nC)
    v2, f2 = vecs("V2", nT)
    v1, f1 = vecs("V1", nT)
    fl = [1.1, 1.1] + list(y) + state_floats(before, N)
    fl += [val["W0.%d" % c] for c in range(nC)] + [val["V0.%d" % m] for m in range(nT)] + w + v2 + v1
    fl += val["tau0"] + val["phi0aux"] + val["phi0"] + val["eta0aux"] + val["eta0"] + val["prec"]
    fl += val["phi2aux"] + val["phi2"] + val["eta2aux"] + val["eta2"] + val["phi1aux"] + val["phi1"] + val["eta1aux"] + val["eta1"]
    for d in range(D):
        fl += val["gam.%d" % d]
    btok = lambda bs: ",".join("1" if b else "0" for b in bs) if bs else "-"
    return "c08sweep %d %d %d %d %s %s %s %s %s %s %s" % (nC, nT, D, N, itok(cl), itok(d1), itok(d2), btok(fw), btok(f2), btok(f1), ftok(fl))


def parse_floats(tok):
    return [] if tok == "-" else [from_bits(t) for t in tok.split(",")]


def compare_with_model(res, case, out, log, trace, after, pred, N, sweep_no, stages=None, state_floats=None, where="C08:sweep"):
    """model answer vs implementation record of one sweep"""
    inter = stages is not None
    STAGES = stages or globals()["STAGES"]
    state_floats = state_floats or globals()["state_floats"]

    class _R:      # disagreements of the interaction-sampler extension are advisories
        @staticmethod
        def disagree(where_, case_, impl, model):
            if inter:
                res.advise("interaction sampler: model/implementation disagreement at " + where_, case_, impl, model, where_)
            else:
                res.disagree(where_, case_, impl, model)
    parts = out.split(" ")
    if len(parts) != 5:
        _R.disagree(where, case, "sweep %d" % sweep_no, out[:300])
        return False
    mlog = [] if parts[0] == "-" else parts[0].split(";")
    if len(mlog) != len(log) or [m.split(":")[0] for m in mlog] != [l[0] for l in log]:
        _R.disagree(where + ":order", case, [l[0] for l in log], [m.split(":")[0] for m in mlog])
        return False
    for m, (site, kind, args, scale, _v) in zip(mlog, log):
        _s, mk, ma = m.split(":")
        margs = parse_floats(ma)
        if mk != kind or len(margs) != len(args) or not close(margs, args, scale):
            _R.disagree(where + ":args", dict(case, sweep=sweep_no, site=site), {"kind": kind, "args": args[:12]}, {"kind": mk, "args": margs[:12]})
            return False
    mmus = parts[1].split(";")
    if len(mmus) != len(STAGES):
        _R.disagree(where, case, len(STAGES), len(mmus))
        return False
    for name, mm, im, st in zip(STAGES, mmus, trace["mus"], trace["snaps"]):
        mm = parse_floats(mm)
        if N == 0:
            continue
        sc_ = trace["muabs"][name]
        if len(mm) != len(im) or not close(mm, im, sc_):
            _R.disagree(where + ":Mu", dict(case, sweep=sweep_no, stage=name), np.asarray(im).tolist()[:12], mm[:12])
            return False
    mstate = parse_floats(parts[2])
    istate = state_floats(after, N)
    sscale = np.abs(np.asarray(istate, dtype=np.float64))
    if N:
        sscale[-N:] = trace["muabs"][STAGES[-1]]
        if not inter:
            sscale[0] = log[0][3][0] + 1.0      # alpha = float32 mean of the observations: noise relative to mean|y|
    if len(mstate) != len(istate) or not close(mstate, istate, sscale):
        _R.disagree(where + ":state", dict(case, sweep=sweep_no), istate[:16], mstate[:16])
        return False
    mpred = parse_floats(parts[3])
    if N and (len(mpred) != N or not close(mpred, pred, trace["muabs"][STAGES[-1]])):
        _R.disagree(where + ":predict", dict(case, sweep=sweep_no), np.asarray(pred).tolist()[:12], mpred[:12])
        return False
    mvar = from_bits(parts[4])
    if not close(mvar, 1.0 / after["prec"], 1.0 / after["prec"]):
        _R.disagree(where + ":variance", dict(case, sweep=sweep_no), 1.0 / after["prec"], mvar)
        return False
    return True


# ------------------------------------------------------------------------------------------------
# one case
# ------------------------------------------------------------------------------------------------

def perturb_state(w, rng, N, nT, occ, distinct=False):
    """randomised sampler state (parameters and every hyper-parameter); `distinct`: the local scales are drawn from [1, 1000]
    without the floor at 1, so that all hyper-parameters of the state are pairwise distinct"""
    g = np.random.default_rng(rng.randrange(2 ** 32))
    s = rng.choice([0.1, 0.5, 1.0, 2.0])
    for k in ["W", "V2", "V1", "W0", "V0"]:
        a = getattr(w, k)
        a[...] = (g.standard_normal(a.shape) * s).astype(np.float32)
    lo = 1.0 / np.sqrt(1.0 + N)
    lu = lambda shape=None: f32(10.0 ** g.uniform(np.log10(lo), 3.0, size=shape))
    w.prec = float(lu())
    w.tau0 = float(lu())
    w.eta0 = float(lu())
    w.alpha = float(f32(g.standard_normal()))
    w.tau = lu(w.tau.shape).astype(np.float32)
    w.gam = f32(10.0 ** g.uniform(-1, 1, size=w.gam.shape)).astype(np.float32)
    w.eta2 = lu(w.eta2.shape)
    w.eta1 = lu(w.eta1.shape)
    if distinct:
        w.phi2 = f32(10.0 ** g.uniform(0.0, 3.0, size=w.phi2.shape))
        w.phi1 = f32(10.0 ** g.uniform(0.0, 3.0, size=w.phi1.shape))
        w.phi0 = f32(10.0 ** g.uniform(0.0, 3.0, size=w.phi0.shape))
    else:
        w.phi2 = np.maximum(lu(w.phi2.shape), 1.0)
        w.phi1 = np.maximum(lu(w.phi1.shape), 1.0)
        w.phi0 = np.maximum(lu(w.phi0.shape), 1.0)


EXPORT_FIELDS = ["W", "W0", "V2", "V1", "V0"]


def bookkeeping(w):
    """every non-array, non-float attribute of the sampler (data holders, index tables, counts), by introspection"""
    out = {}
    for k, v in vars(w).items():
        if isinstance(v, np.ndarray) or isinstance(v, (float, np.floating)) or k in ("rng", "num_mcmc_steps", "last_rmse") or callable(v):
            continue
        try:
            if isinstance(v, dict):
                out[k] = {int(a): [int(i) for i in b] for a, b in v.items() if len(b)}
            elif isinstance(v, (list, tuple)):
                out[k] = [float(x) for x in v]
            elif isinstance(v, (int, str, bool, type(None))):
                out[k] = v
        except Exception:      # noqa: BLE001 -- an attribute of a shape this canonical form does not know: not compared
            pass
    return out


def bookkeeping_differs(a, b):
    """attributes present on BOTH samplers (a cache attribute created by a step exists on one side only and is not a difference)"""
    return sorted(k for k in set(a) & set(b) if a[k] != b[k])


def instalment_state_check(spec, w, fail):
    """after the second add_observations: the bookkeeping equals that of a fresh sampler given all rows in ONE call"""
    fresh, _ = build_model(spec)
    a, b = bookkeeping(w), bookkeeping(fresh.wrapped_model)
    diff = bookkeeping_differs(a, b)
    if diff:
        fail("bookkeeping after instalments differs from a single add_observations", {k: str(a.get(k))[:120] for k in diff},
             {k: str(b.get(k))[:120] for k in diff}, "C08:instalments-state")


def run_case(spec, res, queue):
    """runs the real sampler on one generated case; appends (line, compare-callback) to `queue`"""
    from scipy.special import logit
    case = {"case_seed": spec["case_seed"], "stream": spec["stream"], "max_sweeps": spec["max_sweeps"], "nC": spec["nC"],
            "nT": spec["nT"], "D": spec["D"], "rows": spec["rows"], "sweeps": spec["sweeps"]}
    for k in ("fixed", "grid", "n0", "grow_at", "reset_at", "klass", "class_index", "tperm", "sperm", "tmap_row_order", "layout", "parts", "swap_rng_at", "verbose"):
        if spec.get(k) is not None:
            case[k] = spec[k]
    rng = random.Random(spec["case_seed"] ^ 0x5EED)
    n_now = spec.get("n0", len(spec["rows"])) if spec.get("grow_at") is not None else len(spec["rows"])
    if spec.get("parts"):
        n_now = spec["parts"][0]
    try:
        model, screen = build_model(spec, n_now)
    except RuntimeError:
        raise
    except Exception as e:      # noqa: BLE001 -- the unchanged tree accepts every generated screen
        report(res, "building the model / add_observations raised on a valid screen", case, "%s: %s" % (type(e).__name__, str(e)[:200]),
                 "add_observations accepts the screen", "C08:add-observations-raised")
        return
    w = model.wrapped_model
    nC, nT, D = spec["nC"], spec["nT"], spec["D"]
    if spec.get("parts"):
        try:
            for a_, b_ in zip(spec["parts"][:-1], spec["parts"][1:]):
                # a temporary of the same size as the previous one, not referenced after the call (its address is free for the next)
                model.add_observations(build_screen(spec, spec["rows"][a_:b_], spec["obs"][a_:b_]))
        except Exception as e:      # noqa: BLE001
            report(res, "add_observations raised on a valid screen", case, "%s: %s" % (type(e).__name__, str(e)[:200]), "accepted", "C08:add-observations-raised")
            return
        n_now = spec["parts"][-1]
        screen = build_screen(spec, spec["rows"][:n_now], spec["obs"][:n_now])
    proxy = Proxy(rng.randrange(2 ** 32), spec["wild"], None)
    model.set_rng(proxy)
    fail_rng = random.Random(rng.randrange(2 ** 32))
    failures = []

    def fail(what, observed, required, signature):
        failures.append(signature)
        report(res, what, case, observed, required, signature)

    def current_data():
        rows = spec["rows"][:n_now]
        N = len(rows)
        y = np.array(w.y, dtype=np.float64)
        cl = np.array([r[0] for r in rows], dtype=int)
        d1 = np.array([r[1] for r in rows], dtype=int)
        d2 = np.array([r[2] for r in rows], dtype=int)
        y_ref = logit(np.clip(np.array(spec["obs"][:n_now], dtype=np.float64), 0.01, 0.99)) if N else np.zeros(0)
        ok = True
        # float32 rounding of the observation itself moves logit(p) by ~6e-8 / (p (1 - p)) <= 6e-6
        if len(y) != N or (N and not close(y, y_ref, np.abs(y_ref) + 1.0)):
            report(res, "stored observations are not logit(clip(obs, 0.01, 0.99))", case, y.tolist()[:8], y_ref.tolist()[:8], "C08:transform")
            ok = len(y) == N
        if list(w.cline) != cl.tolist() or list(w.dd1) != d1.tolist() or list(w.dd2) != d2.tolist():
            report(res, "training tuples differ from the screen rows", case, [list(map(int, w.cline)), list(map(int, w.dd1)), list(map(int, w.dd2))], rows, "C08:rows")
            ok = False
        return ok, rows, N, (y, cl, d1, d2), y_ref

    ok, rows, N, data, y_ref = current_data()
    if not ok:
        return
    given = [(screen, screen_bytes(screen))] if screen is not None else []     # every screen handed to add_observations
    prev = None          # (theta exported after the previous sweep, its Mu, 1/prec, muabs, screen)
    occ = None
    sweep_no = 0
    extra_alias_sweep = False
    while sweep_no < spec["sweeps"] or extra_alias_sweep:
        oracle_sweep = sweep_no < spec["sweeps"]
        if oracle_sweep and spec.get("reset_at") == sweep_no:
            model.reset_model()
            res.count("history.reset_model_between_sweeps")
        if oracle_sweep and spec.get("grow_at") == sweep_no and n_now < len(spec["rows"]):
            more = build_screen(spec, spec["rows"][n_now:], spec["obs"][n_now:])
            more_b = screen_bytes(more)
            try:
                model.add_observations(more)
            except Exception as e:      # noqa: BLE001
                fail("a second add_observations raised on a valid screen", "%s: %s" % (type(e).__name__, str(e)[:200]),
                     "add_observations accepts the screen", "C08:add-observations-raised")
                return
            given.append((more, more_b))
            n_now = len(spec["rows"])
            screen = build_screen(spec, spec["rows"], spec["obs"])
            ok, rows, N, data, y_ref = current_data()
            res.count("history.rows_added_between_sweeps")
            instalment_state_check(spec, w, fail)
            if spec.get("reset_at") == sweep_no:
                res.count("class.object-reuse.reset_model-then-more-rows")
            if not ok:
                return
        if oracle_sweep and spec["perturb"] and sweep_no == 0:
            for _try in range(20):
                perturb_state(w, rng, N, nT, occ, distinct=spec["stream"] == "grid")
                hv = np.concatenate([[w.prec, w.tau0, w.eta0], np.ravel(w.tau), np.ravel(w.gam), np.ravel(w.eta2), np.ravel(w.eta1),
                                     np.ravel(w.phi2), np.ravel(w.phi1), np.ravel(w.phi0)])
                if spec["stream"] != "grid" or len(set(hv.tolist())) == len(hv):
                    break
            if spec["stream"] == "grid":
                res.count("grid.hyperparameters_pairwise_distinct", int(len(set(hv.tolist())) == len(hv)))
            if N and len(w.Mu) == N:
                # keep the randomised state one the sampler could be in: its cache agrees with its parameters (a sampler that
                # maintains Mu purely incrementally must not be flagged because the harness wrote parameters behind its back)
                w.Mu = mu_scratch(snap(w), data[1], data[2], data[3]).astype(np.float32)
        if oracle_sweep and spec.get("swap_rng_at") == sweep_no:
            old_proxy, n_old = proxy, len(proxy.records)
            proxy = Proxy(rng.randrange(2 ** 32), spec["wild"], None)
            model.set_rng(proxy)
        else:
            old_proxy = None
        y, cl, d1, d2 = data
        before = snap(w)
        tuples_before = (list(map(float, w.y)), list(map(int, w.cline)), list(map(int, w.dd1)), list(map(int, w.dd2)))
        trace = run_sweep(model, proxy, fail_rng, spec["fail_p"] if oracle_sweep else 0.0, data)
        if wrapper_trouble(res, trace, case):
            return
        if old_proxy is not None:
            res.count("class.reuse.other-generator.draws-by-new-generator", len(proxy.records))
        if old_proxy is not None and len(old_proxy.records) != n_old:
            fail("after set_rng(other) the sweep still drew from the previous generator", len(old_proxy.records), 0, "C08:rng")
        tuples_after = (list(map(float, w.y)), list(map(int, w.cline)), list(map(int, w.dd1)), list(map(int, w.dd2)))
        if tuples_after != tuples_before:
            fail("a sampler step modified the training tuples (y, cline, dd1, dd2)", [t[:8] for t in tuples_after], [t[:8] for t in tuples_before], "C08:data-mutated")
            return
        # the sample exported after the PREVIOUS sweep still describes the previous sweep
        if prev is not None and N:
            th0, mu0, var0, muabs0, scr0 = prev
            p0 = np.asarray(th0.predict_conditional_mean(scr0), dtype=np.float64)
            v0 = np.asarray(th0.predict_conditional_variance(scr0), dtype=np.float64)
            res.count("export.rechecked_after_next_sweep")
            if p0.shape != mu0.shape or not close(p0, mu0, muabs0, tol=1e-4) or not close(v0, np.full(len(mu0), var0), var0, tol=1e-9):
                fail("a sample exported after sweep k no longer reproduces sweep k's fitted values / precision once sweep k+1 has run "
                     "(it shares arrays with the sampler)", {"predicted_now": p0.tolist()[:12], "variance_now": v0.tolist()[:2]},
                     {"Mu_at_export": mu0.tolist()[:12], "variance_at_export": var0}, "C08:export-alias")
        if not oracle_sweep:
            break
        res.evaluations += 1
        counts = {}
        log = check_sweep(spec, rows, sweep_no, before, trace, data, y_ref, fail, counts)
        for k_, v_ in counts.items():
            res.count(k_, v_)
        after = snap(w)
        # export reproduces the cache and the noise precision
        pred = None
        prev = None
        if N:
            th = model.get_model_state()
            pred = np.asarray(th.predict_conditional_mean(screen), dtype=np.float64)
            var = np.asarray(th.predict_conditional_variance(screen), dtype=np.float64)
            muabs = mu_scratch(after, cl, d1, d2, absolute=True)
            if spec["stream"] != "selfpair":
                if pred.shape != after["Mu"].shape or not close(pred, after["Mu"], muabs, tol=1e-4):
                    fail("exported sample does not reproduce the sampler's fitted values on the training rows",
                         pred.tolist()[:12], after["Mu"].tolist()[:12], "C08:export")
                if var.shape != (N,) or not close(var, np.full(N, 1.0 / after["prec"]), 1.0 / after["prec"], tol=1e-9):
                    fail("exported variance is not 1/prec", var.tolist()[:4], 1.0 / after["prec"], "C08:export")
                prev = (th, np.array(after["Mu"]), 1.0 / after["prec"], muabs, screen)
                # attribute completeness: every array of the exported sample against every array the sampler holds (by introspection)
                th_arrays = {k: v for k, v in vars(th).items() if isinstance(v, np.ndarray)}
                w_arrays = {k: v for k, v in vars(w).items() if isinstance(v, np.ndarray)}
                res.count("class.attribute-completeness.export-arrays-introspected", len(th_arrays))
                shared = [(k, kw) for k, v in th_arrays.items() for kw, vw in w_arrays.items() if np.shares_memory(v, vw)]
                if shared and sweep_no == spec["sweeps"] - 1 and log is not None:
                    # last oracle sweep of the case: run one more step so that the aliasing shows as behaviour
                    extra_alias_sweep = True
                    res.count("export.shares_memory_with_sampler")
        if log is None:
            return
        trace["muabs"] = {name: (mu_scratch(st, cl, d1, d2, absolute=True) + (np.abs(y) if N else 0)) for name, st in zip(trace["stages"], trace["snaps"])}
        line = sweep_line(spec, before, log, data)
        queue.append((line, case, log, trace, after, pred, N, sweep_no))
        if any(r["kind"] == "mvn" and r["failed"] for r in trace["records"]):
            res.count("sweeps.with_failed_mvn")
        sweep_no += 1
    # input mutation: the screens handed to add_observations are bit-for-bit what they were
    for scr, b0 in given:
        res.count("class.input-mutation.screens-rechecked-after-sweeps")
        if screen_bytes(scr) != b0:
            fail("add_observations / step modified the screen it was given", "screen arrays changed", "unchanged", "C08:input-mutated")
    res.traces_validated += 1
    return snap(w)


def same_state(a, b):
    return set(a) == set(b) and all(np.array_equal(np.asarray(a[k]), np.asarray(b[k]), equal_nan=True) for k in a)


def run_case_v(spec, res, queue, verbose):
    """item 19: the case under `verbose_logging()` (same oracles, same tie), then once more without it on a throw-away result:
    with the same prescribed draws both runs must end in the same sampler state -- code that only runs when debug logging is on
    must not consume a draw or touch a parameter"""
    if not verbose:
        return run_case(spec, res, queue)
    vspec = dict(spec, verbose=True)
    with common.verbose_logging():
        fin_v = run_case(vspec, res, queue)
    res.count("class.verbose-logging")
    fin_p = run_case(dict(spec), common.Result(), [])
    if (fin_v is None) != (fin_p is None) or (fin_v is not None and not same_state(fin_v, fin_p)):
        diff = (["one of the two runs stopped at an oracle / tie, the other did not"] if fin_v is None or fin_p is None else
                [k for k in fin_v if not np.array_equal(np.asarray(fin_v[k]), np.asarray(fin_p.get(k)), equal_nan=True)])
        case = {k: vspec[k] for k in vspec if k in ("stream", "case_seed", "max_sweeps", "nC", "nT", "D", "rows", "sweeps", "fixed", "grid", "n0",
                                                      "grow_at", "reset_at", "klass", "class_index", "tperm", "sperm", "tmap_row_order",
                                                      "layout", "parts", "swap_rng_at", "verbose")}
        case["verbose_compare"] = True
        report(res, "with debug logging enabled the same prescribed draws end in a different sampler state (debug-only code consumed a "
               "draw or touched a parameter)", case, {"fields_that_differ": diff}, "identical to the run without debug logging", "C08:verbose-differs")
    return fin_v


def irun_case_v(spec, res, iqueue, verbose):
    if not verbose:
        return irun_case_guarded(spec, res, iqueue)
    with common.verbose_logging():
        fin_v = irun_case_guarded(dict(spec, verbose=True), res, iqueue)
    res.count("class.verbose-logging")
    fin_p = irun_case_guarded(dict(spec), common.Result(), [])
    if fin_v is not None and fin_p is not None and not same_state(fin_v, fin_p):
        report(res, "interaction sampler: with debug logging enabled the same prescribed draws end in a different sampler state",
               {k: spec.get(k) for k in ("stream", "case_seed", "nC", "nT", "D", "sweeps")}, "differs", "identical", "C08I:verbose-differs")
    return fin_v


def describe(spec, res):
    rows = spec["rows"]
    combo = sum(1 for _, a, b in rows if a >= 0 and b >= 0)
    single1 = sum(1 for _, a, b in rows if a >= 0 and b < 0)
    single2 = sum(1 for _, a, b in rows if a < 0 and b >= 0)
    ctrl = sum(1 for _, a, b in rows if a < 0 and b < 0)
    firsts = set(a for _, a, _b in rows if a >= 0)
    seconds = set(b for _, _a, b in rows if b >= 0)
    res.count("D=%d" % spec["D"])
    res.count("sweeps=%d" % spec["sweeps"])
    res.count("rows.combo", combo)
    res.count("rows.single_first", single1)
    res.count("rows.single_second", single2)
    res.count("rows.all_control", ctrl)
    res.count("cases.N=0" if not rows else "cases.N>0")
    res.count("cases.treatment_without_data", int(len(firsts | seconds) < spec["nT"]))
    res.count("cases.sample_without_data", int(len(set(c for c, _, _ in rows)) < spec["nC"]))
    res.count("cases.first_only_treatment", int(bool(firsts - seconds)))
    res.count("cases.second_only_treatment", int(bool(seconds - firsts)))
    res.count("cases.perturbed_state", int(spec["perturb"]))
    if combo and (single1 or single2) and (firsts & seconds):
        res.nontrivial.add((spec["case_seed"],))


# ------------------------------------------------------------------------------------------------
# extension: the interaction-only sampler (LegacySparseDrugComboInteractionImpl), model Model/GibbsInter.lean
# ------------------------------------------------------------------------------------------------

ISTAGES = ["_reconstruct_Mu", "_W_step", "_V2_step", "_prec_obs_step", "_prec_V2_step", "_prec_W_step"]
IPARAMS = ["W", "V2", "tau", "gam", "eta2", "phi2"]
ISTAGE_OF = {"W": "_W_step", "V2": "_V2_step", "prec": "_prec_obs_step", "phi2aux": "_prec_V2_step", "phi2": "_prec_V2_step",
             "eta2aux": "_prec_V2_step", "eta2": "_prec_V2_step", "gam": "_prec_W_step"}


def isnap(w):
    s = {k: np.array(getattr(w, k), dtype=np.float64) for k in IPARAMS}
    s["prec"] = float(w.prec)
    s["tau0"] = float(w.tau0)
    s["Mu"] = np.array(w.Mu, dtype=np.float64)
    return s


def imu(P, cl, d1, d2, absolute=False):
    """<W[c], V2[d1] * V2[d2]>  (combination rows only)"""
    if len(cl) == 0:
        return np.zeros(0)
    f = np.abs if absolute else (lambda x: x)
    return (f(P["W"])[cl] * f(P["V2"])[d1] * f(P["V2"])[d2]).sum(1)


def igen_spec(seed, max_sweeps, selfpair=False):
    rng = random.Random(seed)
    nC = rng.choice([1, 2, 2, 3, 4])
    nT = rng.choice([2, 3, 3, 4, 5, 6])
    D = rng.choice([1, 2, 2, 3, 4, 5, 6])
    N = rng.choice([0, 1, 2, 3, 5, 8, 8, 12, 12, 16, 20])
    used_c = rng.sample(range(nC), rng.randint(1, nC))
    used_t = rng.sample(range(nT), rng.randint(2, nT))
    rows = []
    for _ in range(N):
        a, b = rng.sample(used_t, 2)
        rows.append([rng.choice(used_c), a, b])
    if selfpair and rows:
        t = rng.choice(used_t)
        rows[rng.randrange(len(rows))] = [rng.choice(used_c), t, t]
    # rows of the screen that the sampler must NOT train on (single-agent / control rows, interleaved)
    extra = []
    for _ in range(rng.choice([0, 0, 2, 4])):
        k = rng.random()
        t = rng.choice(used_t)
        extra.append([rng.randint(0, len(rows)), [rng.choice(used_c)] + ([t, -1] if k < 0.45 else [-1, t] if k < 0.9 else [-1, -1])])
    obs = [round(0.02 + 0.96 * rng.random(), 6) for _ in range(N)]
    return {"stream": "inter-selfpair" if selfpair else "inter", "case_seed": seed, "nC": nC, "nT": nT, "D": D, "rows": rows, "obs": obs,
            "extra": extra, "perturb": rng.random() < 0.5, "wild": rng.random() < 0.3, "fail_p": rng.choice([0.0, 0.0, 0.05, 0.2]),
            "max_sweeps": max_sweeps, "sweeps": rng.randint(1, max_sweeps)}


def ibuild(spec, n0=None):
    """interaction model with the first n0 combination rows (default all) -- plus the screen's non-combination rows -- added"""
    from batchie.data import ExperimentSpace
    from batchie.models.sparse_combo_interaction import SparseDrugComboInteraction
    tmap, smap = maps_of(spec)
    model = SparseDrugComboInteraction(experiment_space=ExperimentSpace(treatment_mapping=tmap, sample_mapping=smap),
                                       n_embedding_dimensions=spec["D"])
    n0 = len(spec["rows"]) if n0 is None else n0
    rows, obs = [list(r) for r in spec["rows"][:n0]], list(spec["obs"][:n0])
    allrows, allobs = list(rows), list(obs)
    for pos, r in sorted(spec.get("extra", []), key=lambda e: -e[0]):
        allrows.insert(min(pos, len(allrows)), r)
        allobs.insert(min(pos, len(allobs)), 0.5)
    screen = build_screen(spec, allrows, allobs)
    train_screen = build_screen(spec, rows, obs)
    if screen is not None:
        model.add_observations(screen)
    return model, train_screen


def iperturb(w, rng, N):
    g = np.random.default_rng(rng.randrange(2 ** 32))
    sc_ = rng.choice([0.3, 0.7, 1.0, 1.5])
    for k in ["W", "V2"]:
        a = getattr(w, k)
        a[...] = (g.standard_normal(a.shape) * sc_).astype(np.float32)
    lo = 1.0 / np.sqrt(1.0 + N)
    lu = lambda shape=None: f32(10.0 ** g.uniform(np.log10(lo), 3.0, size=shape))
    w.prec = float(lu())
    w.tau = lu(w.tau.shape).astype(np.float32)
    w.gam = f32(10.0 ** g.uniform(-1, 1, size=w.gam.shape)).astype(np.float32)
    w.eta2 = lu(w.eta2.shape)
    w.phi2 = f32(10.0 ** g.uniform(0.0, 3.0, size=w.phi2.shape))


def isite_list(nC, nT, D):
    s = [("W.%d" % c, "vec") for c in range(nC)] + [("V2.%d" % m, "vec") for m in range(nT)]
    s += [(x, "gamma") for x in ["prec", "phi2aux", "phi2", "eta2aux", "eta2"]]
    return s + [("gam.%d" % d, "gamma") for d in range(D)]


def icheck_sweep(spec, trace, data, fail, res):
    """implementation-only oracles of one sweep of the interaction sampler; returns the canonical log or None"""
    nC, nT, D = spec["nC"], spec["nT"], spec["D"]
    y, cl, d1, d2 = data
    N = len(y)
    if trace.get("raised"):
        fail("the interaction sampler's step raised", trace["raised"], "step() completes", "C08I:step-raised")
        return None
    blocks = [nm for nm in trace["stages"] if nm != "_reconstruct_Mu"]
    if blocks != ISTAGES[1:] or trace["stages"][:1] != ISTAGES[:1]:
        fail("interaction sweep does not visit the blocks once each in the documented order", trace["stages"], ISTAGES, "C08I:order")
        return None
    sp_rows = set(n for n in range(N) if d1[n] == d2[n])
    if N:
        run_max = np.zeros(N)
        for si, (name, mu_c, st) in enumerate(zip(trace["stages"], trace["mus"], trace["snaps"])):
            # Mu is a float32 array updated incrementally: its rounding noise is relative to the largest magnitude the entry had
            # earlier in the sweep, not to its current (possibly much smaller) value
            run_max = np.maximum(run_max, imu(st, cl, d1, d2, absolute=True))
            ref, sc_ = imu(st, cl, d1, d2), run_max.copy()
            if mu_c.shape != ref.shape or not close(mu_c, ref, sc_, tol=1e-4):
                stale = far_rows(mu_c, ref, sc_, 1e-4) if mu_c.shape == ref.shape else None
                if stale and set(stale) <= sp_rows and si >= 2:
                    # same mechanism as the known finding of the sparse combination sampler, on THIS sampler: observation only
                    res.count("observation.inter.self-pair-stale-cache")
                    return None
                fail("interaction sampler: fitted-value cache Mu differs from a from-scratch recomputation after " + name,
                     {"stale_rows": stale, "Mu": mu_c.tolist()[:12]}, {"recomputed": ref.tolist()[:12]}, "C08I:cache:" + name)
                return None
    if sp_rows:
        return None
    if trace["stages"] != ISTAGES:
        keep = [0] + [i for i, nm in enumerate(trace["stages"]) if nm != "_reconstruct_Mu"]
        for key in ("stages", "mus", "snaps"):
            trace[key] = [trace[key][i] for i in keep]
    for stage_, base_, n_ in (("_W_step", "W", nC), ("_V2_step", "V2", nT)):
        miss = unvisited_units(trace, ISTAGES, stage_, base_, n_, D)
        if miss:
            fail("interaction sampler: block %s: units %s were not resampled in this sweep" % (base_, miss), {"units": miss},
                 "every unit receives one draw per sweep", "C08I:unit-not-visited")
            return None
    sites, recs = isite_list(nC, nT, D), trace["records"]
    if len(recs) != len(sites):
        fail("number of random draws in an interaction sweep", len(recs), len(sites), "C08I:draw-kind")
        return None
    occ1 = np.array([int(np.sum(d1 == m)) for m in range(nT)])
    occ2 = np.array([int(np.sum(d2 == m)) for m in range(nT)])
    occC = np.array([int(np.sum(cl == c)) for c in range(nC)])
    log = []
    for ri, ((site, skind), rec) in enumerate(zip(sites, recs)):
        base, _, ix = site.partition(".")
        ix = int(ix) if ix else None
        P = rec["state"]
        if rec["stage"] != ISTAGE_OF[base]:
            fail("interaction sampler: draw made in the wrong stage", {"site": site, "stage": rec["stage"]}, ISTAGE_OF[base], "C08I:order")
            return None
        sig = "C08I:args:" + base
        what = "interaction sampler: draw arguments of %s are not the parameters of its full conditional" % base
        if skind == "vec":
            lam = P["tau"] if base == "W" else P["phi2"][ix] * P["eta2"]
            Q, b, bscale, qs = gaussian_ref(P, data, base, ix, lam, mu_scratch=imu)
            has = (occC[ix] > 0) if base == "W" else (occ1[ix] + occ2[ix] > 0)
            if not has:
                if not (rec["kind"] == "normal" and rec["scale"].shape == (D,) and rec["loc"].shape == () and rec["size"] is None):
                    fail("draw kind/shape at " + site, rec["kind"], "normal with vector sd (unit without data)", "C08I:draw-kind")
                    return None
                args = [float(rec["loc"])] + rec["scale"].tolist()
                ref = [0.0] + (1.0 / np.sqrt(lam)).tolist()
                if not close(args, ref, ref):
                    fail(what, {"site": site, "mean_sd": args}, {"mean_sd": ref}, sig)
                log.append((site, "normalVec", args, ref, rec["value"].tolist()))
            else:
                if rec["kind"] != "mvn" or rec["Q"].shape != (D, D) or rec["b"].shape != (D,):
                    fail("draw kind/shape at " + site, rec["kind"], "sample_mvn_from_precision(Q[D,D], mu_part[D])", "C08I:draw-kind")
                    return None
                if not rec["rng_is_proxy"]:
                    fail("sample_mvn_from_precision is not given the model's generator", "rng is not the generator", "rng=self.rng", "C08I:rng")
                if not close(rec["Q"], Q, qs) or not close(rec["b"], b, bscale):
                    fail(what, {"site": site, "Q": rec["Q"].tolist(), "mu_part": rec["b"].tolist()}, {"Q": Q.tolist(), "mu_part": b.tolist()}, sig)
                value = None if rec["failed"] else trace["snaps"][ISTAGES.index(ISTAGE_OF[base])][base][ix].tolist()
                if not rec["failed"] and rec["z"] is not None:
                    try:
                        L = np.linalg.cholesky(rec["Q"])
                        t1, t2 = np.linalg.solve(L.T, rec["z"]), np.linalg.solve(rec["Q"], rec["b"])
                        cond = np.linalg.cond(rec["Q"])
                        if 1e-5 * cond <= 0.3:
                            res.count("inter.mvn.in_sweep.checked")
                            if D == 1 and abs(float(rec["Q"][0, 0]) - 1.0) > 0.05:
                                res.count("class.inter.mvn.in_sweep.1x1-precision-not-1")
                            if not close(rec["value"], t1 + t2, float(np.max(np.abs(t1) + np.abs(t2))), tol=1e-5 * max(1.0, cond)):
                                fail("interaction sampler: sample_mvn_from_precision(Q, mu_part, z) is not U^-1 z + Q^-1 mu_part",
                                     {"site": site, "result": rec["value"].tolist()}, {"expected": (t1 + t2).tolist()}, "C08I:mvn")
                    except np.linalg.LinAlgError:
                        pass
                log.append((site, "mvn", rec["Q"].ravel().tolist() + rec["b"].tolist(), [qs] * (D * D) + bscale.tolist(), value))
        else:
            if rec["kind"] != "gamma" or rec["size"] is not None:
                fail("draw kind/shape at " + site, rec["kind"], "gamma", "C08I:draw-kind")
                return None
            prev = recs[ri - 1]["value"] if base in ("phi2", "eta2") else None
            shape_ref, rate_ref, rscale, stab = gamma_ref(base, ix, P, prev, data, nC, nT, D, 1.1, 1.1, mu_scratch=imu)
            if rec["shape"].shape != () or rec["scale"].shape != np.shape(rate_ref):
                fail("draw kind/shape at " + site, [list(rec["shape"].shape), list(rec["scale"].shape)], [[], list(np.shape(rate_ref))], "C08I:draw-kind")
                return None
            scale_ref = 1.0 / (np.asarray(rate_ref) + stab)
            args = [float(rec["shape"])] + np.asarray(rec["scale"]).ravel().tolist()
            ref = [float(shape_ref)] + np.asarray(scale_ref).ravel().tolist()
            rel = [0.0] + (np.asarray(scale_ref) ** 2 * np.asarray(rscale)).ravel().tolist()
            if not close(args, ref, rel):
                fail("interaction sampler: gamma arguments of %s are not (conjugate shape, 1/(conjugate rate + 1e-3))" % base,
                     {"site": site, "shape": args[0], "scale": args[1:7]}, {"shape": ref[0], "scale": ref[1:7]}, sig)
            log.append((site, "gamma", args, rel, np.asarray(rec["value"]).ravel().tolist()))
    lowN, lowT = 1.0 / np.sqrt(1.0 + N), 1.0 / np.sqrt(1.0 + occ1 + occ2)
    for name, st in zip(trace["stages"], trace["snaps"]):
        chk = {"_prec_obs_step": [("prec", st["prec"], lowN)] if N else [], "_prec_V2_step": [("eta2", st["eta2"], lowN), ("phi2", st["phi2"], lowT[:, None])],
               "_prec_W_step": [("tau", st["tau"], lowN)]}.get(name, [])
        for nm, v, lo in chk:
            v = np.asarray(v)
            if not (np.all(v >= lo * (1 - 1e-6)) and np.all(v <= 1e6 * (1 + 1e-6))):
                fail("interaction sampler: precision %s outside its documented bounds after %s" % (nm, name), v.ravel().tolist()[:8],
                     {"low": np.asarray(lo).ravel().tolist()[:8], "high": 1e6}, "C08I:bounds:" + nm)
    return log


def istate_floats(st, N):
    out = [st["prec"], st["tau0"]]
    for k in ["W", "V2", "tau", "gam", "eta2", "phi2"]:
        out += np.asarray(st[k]).ravel().tolist()
    mu = np.asarray(st["Mu"]).ravel().tolist()
    return out + (mu if len(mu) == N else [0.0] * N)


def isweep_line(spec, before, log, data):
    nC, nT, D = spec["nC"], spec["nT"], spec["D"]
    y, cl, d1, d2 = data
    N = len(y)
    val = {s_: v for (s_, _k, _a, _sc, v) in log}

    def vecs(base, n):
        rows, fails = [], []
        for i in range(n):
            v = val["%s.%d" % (base, i)]
            fails.append(v is None)
            rows += [0.0] * D if v is None else list(v)
        return rows, fails
    w, fw = vecs("W", nC)
    v2, f2 = vecs("V2", nT)
    fl = [1.1, 1.1] + list(y) + istate_floats(before, N) + w + v2 + val["prec"] + val["phi2aux"] + val["phi2"] + val["eta2aux"] + val["eta2"]
    for d in range(D):
        fl += val["gam.%d" % d]
    btok = lambda bs: ",".join("1" if b else "0" for b in bs) if bs else "-"
    return "c08isweep %d %d %d %d %s %s %s %s %s %s" % (nC, nT, D, N, itok(cl), itok(d1), itok(d2), btok(fw), btok(f2), ftok(fl))


def irun_case(spec, res, iqueue):
    import batchie.models.sparse_combo_interaction as sci
    from scipy.special import logit
    case = {k: spec[k] for k in ("stream", "case_seed", "max_sweeps", "nC", "nT", "D", "rows", "sweeps")}
    for k in ("n0", "iclass", "perturb", "verbose"):
        if spec.get(k) is not None:
            case[k] = spec[k]
    rng = random.Random(spec["case_seed"] ^ 0x1A7E)
    try:
        model, screen = ibuild(spec, spec.get("n0"))
    except RuntimeError:
        raise
    except Exception as e:      # noqa: BLE001
        report(res, "interaction sampler: add_observations raised on a valid screen", case, "%s: %s" % (type(e).__name__, str(e)[:200]), "accepted", "C08I:add-observations-raised")
        return
    w = model.wrapped_model

    def fail(what, observed, required, signature):
        report(res, what, case, observed, required, signature)

    def current(n_rows):
        rows = spec["rows"][:n_rows]
        N = len(rows)
        y = np.array(w.y, dtype=np.float64)
        cl = np.array([r[0] for r in rows], dtype=int)
        d1 = np.array([r[1] for r in rows], dtype=int)
        d2 = np.array([r[2] for r in rows], dtype=int)
        y_ref = logit(np.array(spec["obs"][:n_rows], dtype=np.float64)) if N else np.zeros(0)
        if len(y) != N or list(w.cline) != cl.tolist() or list(w.dd1) != d1.tolist() or list(w.dd2) != d2.tolist():
            fail("interaction sampler: training tuples are not the observed combination rows of the screen",
                 [list(map(int, w.cline)), list(map(int, w.dd1)), list(map(int, w.dd2))], rows, "C08I:rows")
            return None
        if N and not close(y, y_ref, np.abs(y_ref) + 1.0):
            fail("interaction sampler: stored observations are not logit(obs)", y.tolist()[:8], y_ref.tolist()[:8], "C08I:transform")
        return rows, N, (y, cl, d1, d2)

    cur = current(spec.get("n0", len(spec["rows"])))
    if cur is None:
        return
    rows, N, data = cur
    y, cl, d1, d2 = data
    proxy = Proxy(rng.randrange(2 ** 32), spec["wild"], None)
    model.set_rng(proxy)
    fail_rng = random.Random(rng.randrange(2 ** 32))
    prev = None
    for sweep_no in range(spec["sweeps"]):
        if sweep_no == 1 and spec.get("n0") is not None and N < len(spec["rows"]):
            # second instalment, no reset
            try:
                model.add_observations(build_screen(spec, spec["rows"][N:], spec["obs"][N:]))
            except Exception as e:      # noqa: BLE001
                fail("interaction sampler: a second add_observations raised", "%s: %s" % (type(e).__name__, str(e)[:200]), "accepted", "C08I:add-observations-raised")
                return
            screen = build_screen(spec, spec["rows"], spec["obs"])
            cur = current(len(spec["rows"]))
            if cur is None:
                return
            rows, N, data = cur
            y, cl, d1, d2 = data
            prev = None
            fresh, _ = ibuild(spec)
            if bookkeeping_differs(bookkeeping(w), bookkeeping(fresh.wrapped_model)):
                fail("interaction sampler: bookkeeping after instalments differs from a single add_observations", "differs", "equal", "C08I:instalments-state")
            res.count("class.inter.instalments.add-step-add-step")
        if spec["perturb"] and sweep_no == 0:
            iperturb(w, rng, N)
        before = isnap(w)
        trace = run_sweep(model, proxy, fail_rng, spec["fail_p"], data, stages=ISTAGES, module=sci, snap=isnap)
        if wrapper_trouble(res, trace, case, prefix="C08I"):
            return
        res.evaluations += 1
        res.count("inter.sweeps")
        if prev is not None and N:
            th0, mu0, var0, muabs0 = prev
            p0 = np.asarray(th0.predict_conditional_mean(screen), dtype=np.float64)
            if p0.shape != mu0.shape or not close(p0, mu0, muabs0, tol=1e-4) or float(th0.precision) != var0:
                fail("interaction sampler: a sample exported after sweep k changed when sweep k+1 ran", p0.tolist()[:8], mu0.tolist()[:8], "C08I:export-alias")
        log = icheck_sweep(spec, trace, data, fail, res)
        after = isnap(w)
        pred = None
        if N and log is not None:
            th = model.get_model_state()
            pred = np.asarray(th.predict_conditional_mean(screen), dtype=np.float64)
            var = np.asarray(th.predict_conditional_variance(screen), dtype=np.float64)
            muabs = imu(before, cl, d1, d2, absolute=True)       # running maximum over the sweep (incremental float32 cache)
            for st_ in trace["snaps"]:
                muabs = np.maximum(muabs, imu(st_, cl, d1, d2, absolute=True))
            if pred.shape != after["Mu"].shape or not close(pred, after["Mu"], muabs, tol=1e-4):
                fail("interaction sampler: exported sample does not reproduce the fitted values on the training rows", pred.tolist()[:12], after["Mu"].tolist()[:12], "C08I:export")
            if var.shape != (N,) or not close(var, np.full(N, 1.0 / after["prec"]), 1.0 / after["prec"], tol=1e-9):
                fail("interaction sampler: exported variance is not 1/prec", var.tolist()[:4], 1.0 / after["prec"], "C08I:export")
            prev = (th, np.array(after["Mu"]), float(th.precision), muabs)
        if log is None:
            return
        trace["muabs"], run_max = {}, (np.abs(y) if N else 0)
        for name, st in zip(trace["stages"], trace["snaps"]):
            run_max = np.maximum(run_max, imu(st, cl, d1, d2, absolute=True) + (np.abs(y) if N else 0))
            trace["muabs"][name] = run_max
        iqueue.append((isweep_line(spec, before, log, data), case, log, trace, after, pred, N, sweep_no))
    res.traces_validated += 1
    return isnap(w)


def irun_case_guarded(spec, res, iqueue):
    """nothing in the extension stream may affect the result of C08: a crash is an advisory too"""
    n0 = len(iqueue)
    try:
        return irun_case(spec, res, iqueue)
    except Exception as e:      # noqa: BLE001
        del iqueue[n0:]
        res.advise("interaction sampler stream: %s: %s" % (type(e).__name__, str(e)[:200]),
                   {k: spec.get(k) for k in ("stream", "case_seed", "nC", "nT", "D", "sweeps")}, None, None, "C08I:crash")


def inter_class_specs(seed):
    rng = random.Random(seed)
    sbf = [[0, 0, 1], [1, 1, 2], [0, 2, 0], [1, 0, 2], [0, 1, 0], [1, 2, 1], [0, 1, 2], [1, 2, 0]]
    out = []

    def mk(name, nC, nT, D, rows, perturb, **kw):
        sp = {"stream": "inter", "iclass": name, "case_seed": seed, "nC": nC, "nT": nT, "D": D, "rows": [list(r) for r in rows],
              "obs": [round(0.02 + 0.96 * rng.random(), 6) for _ in rows], "extra": [], "perturb": perturb, "wild": False, "fail_p": 0.0,
              "max_sweeps": 3, "sweeps": 3}
        sp.update(kw)
        return sp
    out.append(mk("instalments", 2, 3, 2, sbf, False, n0=3))
    out.append(mk("instalments", 2, 3, 1, sbf, True, n0=5))
    out.append(mk("row-order", 2, 3, 3, sbf, True))
    out.append(mk("units-without-data.first-and-last-index", 4, 5, 2, [[1, 1, 2], [2, 2, 3], [1, 3, 1], [2, 3, 2], [1, 2, 3]], True))
    out.append(mk("units-without-data.first-and-last-index", 4, 5, 2, [[1, 1, 2], [2, 2, 3], [1, 3, 1], [2, 3, 2], [1, 2, 3]], False))
    wide = [[n % 2, n % 3, (n % 3 + 1 + (n // 3) % 2) % 3] for n in range(129)]
    sp = mk("int-width.n_obs=129", 2, 3, 2, wide, True)
    sp["sweeps"] = 1
    out.append(sp)
    return out


def inter_stream(ctx, res, iqueue):
    max_sweeps = ctx.scale(3, 4, 4)
    rng = ctx.subrng("inter")
    for t in range(ctx.scale(60, 800, 250)):
        spec = igen_spec(rng.randrange(2 ** 48), max_sweeps)
        res.count("inter.cases")
        res.count("inter.D=%d" % spec["D"])
        res.count("inter.cases.perturbed", int(spec["perturb"]))
        res.count("inter.cases.screen_with_non_combination_rows", int(bool(spec["extra"])))
        irun_case_v(spec, res, iqueue, t % 8 == 3)
    for t in range(ctx.scale(3, 20, 8)):
        irun_case_guarded(igen_spec(rng.randrange(2 ** 48), 2, selfpair=True), res, iqueue)
    # hardening classes on the interaction sampler, deterministic shapes
    crng = random.Random(ctx.subrng("inter-class").randrange(2 ** 48))
    for ci, spec in enumerate(inter_class_specs(crng.randrange(2 ** 48))):
        irun_case_v(spec, res, iqueue, ci % 2 == 1)


# ------------------------------------------------------------------------------------------------
# item 18: the real entry point -- batchie.cli.train_model.main() (argv + files)
# ------------------------------------------------------------------------------------------------

def cli_specs(seed):
    """deterministic shapes: seed 0 / chain 0, ids 0, unobserved rows in the file, permuted mapping ids, D = 1 and 2, both samplers"""
    rng = random.Random(seed)
    rows = [[0, 0, 1], [1, 1, 2], [0, 2, 0], [1, 0, 2], [0, 1, 0], [1, 2, 1], [0, 0, -1], [1, -1, 1], [0, 1, 2]]
    combo = [r for r in rows if r[1] >= 0 and r[2] >= 0]
    out = []

    def mk(sampler, D, rows_, unobs, **kw):
        sp = {"sampler": sampler, "nC": 3, "nT": 4, "D": D, "rows": [list(r) for r in rows_],
              "obs": [round(0.03 + 0.94 * rng.random(), 6) for _ in rows_], "unobserved": [list(r) for r in unobs],
              "seed": 0, "n_chains": 1, "chain_index": 0, "n_burnin": 1, "thin": 1, "n_samples": 2, "verbose": False}
        sp.update(kw)
        return sp
    out.append(mk("SparseDrugCombo", 1, rows, [[2, 3, 0], [0, 1, 3]]))
    out.append(mk("SparseDrugCombo", 2, rows, [[1, 0, 1]], seed=7, n_chains=3, chain_index=2, n_burnin=2, thin=2, tperm=[2, 0, 3, 1], verbose=True))
    out.append(mk("SparseDrugCombo", 3, rows[:5], [], seed=0, n_chains=2, chain_index=0, n_burnin=0))
    out.append(mk("SparseDrugComboInteraction", 1, combo + [[0, 0, -1]], [[2, 3, 0]]))
    out.append(mk("SparseDrugComboInteraction", 2, combo, [[1, 0, 1]], seed=5, n_chains=2, chain_index=1, verbose=True))
    return out


def cli_case(ctx, res, spec, queue, iqueue):
    """write the screen (observed rows + unobserved rows, interleaved), run train_model.main() on it, and judge (a) what the sampler
    received, (b) every sweep it ran (same oracles and model tie as the library streams, draws recorded on the real generator),
    (c) the thetas it wrote, (d) tie only: the chain equals the library chain for the generator the CLI documents"""
    import os
    import shutil
    import sys
    import tempfile
    import logging
    from scipy.special import logit
    import batchie.cli.train_model as tm
    from batchie.core import ThetaHolder
    from batchie.data import Screen, ExperimentSpace
    inter = spec["sampler"] == "SparseDrugComboInteraction"
    if inter:
        import batchie.models.sparse_combo_interaction as mod
        cls, stages, snapf, muf, sig = mod.SparseDrugComboInteraction, ISTAGES, isnap, imu, "C08I"
    else:
        import batchie.models.sparse_combo as mod
        cls, stages, snapf, muf, sig = mod.SparseDrugCombo, STAGES, snap, mu_scratch, "C08"
    case = {"kind": "cli", "spec": spec, "verbose": bool(spec.get("verbose"))}
    res.count("class.entry-point.train_model." + spec["sampler"])

    def fail(what, observed, required, signature):
        report(res, what, case, observed, required, signature)

    # ---- the file: unobserved rows interleaved with the observed ones
    rows, obs = spec["rows"], spec["obs"]
    allrows, allobs, mask = [], [], []
    un = list(spec["unobserved"])
    for i_, (r, o) in enumerate(zip(rows, obs)):
        if un and i_ % 2 == 1:
            allrows.append(un.pop(0)); allobs.append(0.0); mask.append(False)
        allrows.append(r); allobs.append(o); mask.append(True)
    for r in un:
        allrows.append(r); allobs.append(0.0); mask.append(False)
    full = build_screen(spec, allrows, allobs)
    tmap, smap = maps_of(spec)
    full = Screen(treatment_names=full.treatment_names, treatment_doses=full.treatment_doses, sample_names=full.sample_names,
                  plate_names=np.array(["p" if m_ else "u" for m_ in mask], dtype=str), observations=np.array(allobs, dtype=float),
                  observation_mask=np.array(mask, dtype=bool),
                  treatment_mapping=tmap, sample_mapping=smap)
    train_rows = [r for r in rows if (r[1] >= 0 and r[2] >= 0)] if inter else rows
    train_obs = [o for r, o in zip(rows, obs) if (r[1] >= 0 and r[2] >= 0)] if inter else obs
    train_screen = build_screen(spec, train_rows, train_obs)
    N = len(train_rows)
    cl = np.array([r[0] for r in train_rows], dtype=int)
    d1 = np.array([r[1] for r in train_rows], dtype=int)
    d2 = np.array([r[2] for r in train_rows], dtype=int)
    y_ref = (logit(np.array(train_obs, dtype=np.float64)) if inter else logit(np.clip(np.array(train_obs, dtype=np.float64), 0.01, 0.99))) if N else np.zeros(0)
    cspec = {"stream": "cli", "nC": spec["nC"], "nT": spec["nT"], "D": spec["D"], "rows": train_rows}
    tmp = tempfile.mkdtemp(prefix="c08cli")
    steps = []          # per step: (before, trace, after)
    received = {}
    orig_step = cls.__dict__["step"]

    def step_wrapper(self, *args, **kwargs):
        w = self.wrapped_model
        if not received:
            real = w.rng
            received.update(rng=real, rng_state=(real.bit_generator.state if hasattr(real, "bit_generator") else None), D=int(w.D),
                            tuples=([float(v) for v in w.y], [int(v) for v in w.cline], [int(v) for v in w.dd1], [int(v) for v in w.dd2]),
                            proxy=PassProxy(real), model=self)
            self.set_rng(received["proxy"])
        before = snapf(w)
        data = (np.array(w.y, dtype=np.float64), cl, d1, d2)
        trace = run_sweep(self, received["proxy"], random.Random(0), 0.0, data, stages=stages, module=mod, snap=snapf,
                          step=lambda: orig_step(self, *args, **kwargs))
        steps.append((before, trace, snapf(w)))

    argv = ["train_model", "--data", os.path.join(tmp, "screen.h5"), "--model", spec["sampler"], "--model-param",
            "n_embedding_dimensions=%d" % spec["D"], "--output", os.path.join(tmp, "thetas.h5"), "--n-samples", str(spec["n_samples"]),
            "--n-burnin", str(spec["n_burnin"]), "--thin", str(spec["thin"]), "--n-chains", str(spec["n_chains"]),
            "--chain-index", str(spec["chain_index"]), "--seed", str(spec["seed"])] + (["--verbose"] if spec.get("verbose") else [])
    lg = logging.getLogger("batchie")
    saved_argv, saved_handlers, saved_level = sys.argv, list(lg.handlers), lg.level
    raised, raised_in_harness = None, False
    try:
        full.save_h5(os.path.join(tmp, "screen.h5"))
        cls.step = step_wrapper
        sys.argv = argv
        import io
        saved_err, sys.stderr = sys.stderr, io.StringIO()      # configure_logging attaches a stream handler to stderr: keep it quiet
        try:
            tm.main()
        except BaseException as e:      # noqa: BLE001 -- SystemExit from argparse included
            raised = "%s: %s" % (type(e).__name__, str(e)[:200])
            raised_in_harness = innermost_in_harness(e)
        finally:
            sys.stderr = saved_err
        holder = ThetaHolder.load_h5(os.path.join(tmp, "thetas.h5")) if raised is None and os.path.exists(os.path.join(tmp, "thetas.h5")) else None
    finally:
        cls.step = orig_step
        sys.argv = saved_argv
        for h in list(lg.handlers):
            if h not in saved_handlers:
                lg.removeHandler(h)
        lg.setLevel(saved_level)
        shutil.rmtree(tmp, ignore_errors=True)
    if raised is not None and raised_in_harness:
        res.count("wrapper.unexpected-call")
        fail("the harness's instrumentation of train_model.main() raised", raised, "recordable run", sig + ":wrapper-unexpected-call")
        return
    if raised is not None:
        fail("train_model.main() raised on a valid screen", raised, "completes", sig + ":step-raised")
        return
    for _b, tr_, _a in steps:
        if wrapper_trouble(res, tr_, case, prefix=sig):
            return
    if spec.get("verbose"):
        res.count("class.verbose-logging")
    # ---- (a) what the sampler received
    if not received:
        fail("train_model.main() never stepped the sampler", 0, "steps", sig + ":step-raised")
        return
    got_rows = [list(t) for t in zip(received["tuples"][1], received["tuples"][2], received["tuples"][3])]
    yy = np.array(received["tuples"][0], dtype=np.float64)
    if got_rows != [list(map(int, r)) for r in train_rows] or len(yy) != N or (N and not close(yy, y_ref, np.abs(y_ref) + 1.0)):
        fail("the sampler started by train_model.main() was not given the observed experiments of the file (ids / order / transformed values)",
             {"rows": got_rows[:12], "y": yy.tolist()[:6]}, {"rows": train_rows[:12], "y": y_ref.tolist()[:6]}, sig + ":rows")
        return
    # ---- (b) every sweep
    y = yy
    data = (y, cl, d1, d2)
    for k, (before, trace, after) in enumerate(steps):
        res.evaluations += 1
        counts = {}
        if inter:
            log = icheck_sweep(cspec, trace, data, fail, res)
        else:
            log = check_sweep(cspec, train_rows, k, before, trace, data, y_ref, fail, counts)
        for k_, v_ in counts.items():
            res.count(k_, v_)
        if log is None:
            return
        run_max = (np.abs(y) if N else 0)
        trace["muabs"] = {}
        for name, st in zip(trace["stages"], trace["snaps"]):
            run_max = np.maximum(run_max, muf(st, cl, d1, d2, absolute=True) + (np.abs(y) if N else 0))
            trace["muabs"][name] = run_max
        if inter:
            iqueue.append((isweep_line(cspec, before, log, data), case, log, trace, after, np.array(after["Mu"]), N, k))
        else:
            queue.append((sweep_line(cspec, before, log, data), case, log, trace, after, np.array(after["Mu"]), N, k))
    # ---- (c) the thetas written: each reproduces the fitted values and the precision of a step, in order
    if holder is None or holder.n_thetas != spec["n_samples"]:
        fail("train_model.main() did not write the requested number of posterior samples", None if holder is None else int(holder.n_thetas),
             spec["n_samples"], sig + ":export")
        return
    pos = 0
    for i_ in range(holder.n_thetas):
        th = holder.get_theta(i_)
        pred = np.asarray(th.predict_conditional_mean(train_screen), dtype=np.float64) if N else np.zeros(0)
        found = None
        for k in range(pos, len(steps)):
            after = steps[k][2]
            sc_ = np.maximum(muf(after, cl, d1, d2, absolute=True), muf(steps[k][0], cl, d1, d2, absolute=True)) + 1e-3 if N else 0
            if (not N or close(pred, after["Mu"], sc_, tol=1e-4)) and close(1.0 / float(th.precision), 1.0 / after["prec"], 1.0 / after["prec"], tol=1e-6):
                found = k
                break
        if found is None:
            fail("a posterior sample written by train_model.main() reproduces the fitted values / noise precision of no step of the chain",
                 {"sample": i_, "predicted": pred.tolist()[:8]}, "Mu and 1/prec after one of the steps", sig + ":export")
            return
        pos = found + 1
    # ---- (d) tie only: the same chain as the library path with the documented generator
    try:
        seeds = np.random.SeedSequence(spec["seed"]).spawn(spec["n_chains"])
        lib_rng = np.random.default_rng(seeds[spec["chain_index"]])
        lib = cls(experiment_space=ExperimentSpace.from_screen(full), n_embedding_dimensions=spec["D"])
        sub = full.subset_observed()
        if sub is not None:
            lib.add_observations(sub)
        lib.reset_model()
        lib.set_rng(lib_rng)
        with warnings.catch_warnings():
            warnings.simplefilter("ignore")
            for _ in steps:
                lib.step()
        same = same_state(snapf(lib.wrapped_model), steps[-1][2]) and received["D"] == spec["D"]
    except Exception as e:      # noqa: BLE001
        same = "library path raised %s" % type(e).__name__
    if same is not True:
        fail("the chain run by train_model.main() is not the chain of the library path for default_rng(SeedSequence(seed).spawn(n_chains)[chain_index])",
             str(same), "bit-identical final sampler state", sig + ":cli-chain")


def cli_stream(ctx, res, queue, iqueue):
    for spec in cli_specs(ctx.subrng("cli").randrange(2 ** 48)):
        if spec["sampler"] == "SparseDrugComboInteraction":
            try:
                cli_case(ctx, res, spec, queue, iqueue)
            except Exception as e:      # noqa: BLE001 -- extension: never affects the result
                res.advise("interaction sampler, train_model entry point: %s: %s" % (type(e).__name__, str(e)[:200]), {"kind": "cli", "spec": spec}, None, None, "C08I:crash")
        elif spec.get("verbose"):
            with common.verbose_logging():
                cli_case(ctx, res, spec, queue, iqueue)
        else:
            cli_case(ctx, res, spec, queue, iqueue)


def mvn_eval(case):
    """one call of sample_mvn_from_precision with a prescribed z; returns (got, want, magnitude, cond) -- `form` is `mu_part` (the
    samplers' call form: N(Q^-1 b, Q^-1)) or `mu` (N(mu, Q^-1))"""
    import batchie.fast_mvn as fm
    Q, b, z = np.array(case["Q"], dtype=np.float64), np.array(case["b"], dtype=np.float64), np.array(case["z"], dtype=np.float64)

    class Z:
        """hands out the prescribed z whatever Generator method / call form asks for it (item 21)"""
        other = []

        def normal(self, *a, **k):
            return z.copy()

        def __getattr__(self, name):
            if name.startswith("__"):
                raise AttributeError(name)
            Z.other.append(name)
            return lambda *a, **k: z.copy()
    kw = {"mu_part": b.copy()} if case.get("form", "mu_part") == "mu_part" else {"mu": b.copy()}
    got = np.asarray(fm.sample_mvn_from_precision(Q.copy(), rng=Z(), **kw), dtype=np.float64)
    L = np.linalg.cholesky(Q)
    t1 = np.linalg.solve(L.T, z)
    t2 = np.linalg.solve(Q, b) if "mu_part" in kw else b
    return got, t1 + t2, float(np.max(np.abs(t1) + np.abs(t2))), float(np.linalg.cond(Q))


def mvn_check(res, case, lines, cbs):
    got, want, mag, cond = mvn_eval(case)
    D = len(case["z"])
    res.evaluations += 1
    res.count("mvn.cases")
    if got.shape != (D,) or not close(got, want, mag, tol=1e-11 * cond):
        what = ("sample_mvn_from_precision(Q, mu_part, z) is not U^-1 z + Q^-1 mu_part" if case.get("form", "mu_part") == "mu_part"
                else "sample_mvn_from_precision(Q, mu=m, z) is not U^-1 z + m")
        res.fail(what, case, got.tolist(), want.tolist(), "C08:mvn")
    if lines is not None:
        Q, b = np.array(case["Q"]), np.array(case["b"])
        bb = b if case.get("form", "mu_part") == "mu_part" else Q @ b          # the model has the mu_part form: Q^-1 (Q m) = m
        lines.append("c08mvn %d %s" % (D, ftok(list(Q.ravel()) + list(bb) + list(case["z"]))))
        cbs.append((case, got, mag, 1e-10 * cond))
    return got


def mvn_stream(ctx, res, lines, cbs):
    """sample_mvn_from_precision on its own with a recorded z (float64, well conditioned); every run: 1x1 precision matrices whose
    entry is not 1 (so that z/sqrt(q) differs from z/q and from z) and 2x2 ones, in BOTH call forms (mu_part= and mu=)"""
    rng = ctx.subrng("mvn")
    fixed = []
    for q in (0.04, 0.25, 4.0, 9.0, 2500.0):
        for form in ("mu_part", "mu"):
            g = np.random.default_rng(rng.randrange(2 ** 32))
            fixed.append({"kind": "mvn", "form": form, "Q": [[q]], "b": [float(g.standard_normal() * 3)], "z": [float(g.standard_normal())]})
            res.count("class.mvn.1x1-precision-not-1.%s" % form)
    for form in ("mu_part", "mu"):
        g = np.random.default_rng(rng.randrange(2 ** 32))
        fixed.append({"kind": "mvn", "form": form, "Q": [[4.0, 1.5], [1.5, 9.0]], "b": g.standard_normal(2).tolist(), "z": g.standard_normal(2).tolist()})
    for t, case in enumerate(fixed):
        if t % 3 == 0:
            with common.verbose_logging():
                got_v = mvn_check(res, dict(case, verbose=True), lines, cbs)
            res.count("class.verbose-logging")
            got_p, _, _, _ = mvn_eval(case)
            if not np.array_equal(got_v, got_p):
                res.fail("sample_mvn_from_precision gives another result with debug logging enabled", dict(case, verbose=True), got_v.tolist(), got_p.tolist(), "C08:mvn")
        else:
            mvn_check(res, case, lines, cbs)
    for t in range(ctx.scale(40, 2000)):
        g = np.random.default_rng(rng.randrange(2 ** 32))
        D = rng.randint(1, 6)
        A = g.standard_normal((D + 2, D))
        Q = A.T @ A * 10.0 ** g.uniform(-1, 2) + np.diag(10.0 ** g.uniform(-1, 1, size=D))
        b = g.standard_normal(D) * 10.0 ** g.uniform(-1, 2)
        z = g.standard_normal(D)
        mvn_check(res, {"kind": "mvn", "form": "mu_part" if t % 4 else "mu", "Q": Q.tolist(), "b": b.tolist(), "z": z.tolist()}, lines, cbs)


def run(ctx, res):
    res.rule = RULE
    max_sweeps = ctx.scale(3, 5, 5)
    queue = []
    rng = ctx.subrng("main")
    n_main = ctx.scale(170, 3000, 800)
    for t in range(n_main):
        spec = gen_spec(rng.randrange(2 ** 48), "main", max_sweeps)
        describe(spec, res)
        run_case_v(spec, res, queue, t % 8 == 3)
        if t < 4:
            res.sample({k: spec[k] for k in ("stream", "case_seed", "nC", "nT", "D", "rows", "sweeps")})
    # grid: every embedding size, fresh and randomised (pairwise distinct hyper-parameters), three consecutive sweeps
    rng = ctx.subrng("grid")
    for rep_ in range(ctx.scale(1, 6, 2)):
        for D in range(1, 7):
            for perturbed in (False, True):
                spec = grid_spec(rng.randrange(2 ** 48), D, perturbed)
                res.count("grid.D=%d.%s" % (D, "randomised" if perturbed else "fresh"))
                describe(spec, res)
                run_case_v(spec, res, queue, D in (1, 4) and perturbed and rep_ == 0)
    # the hardening classes (HARDENING_CHECKLIST.md): deterministic shapes, in every run
    cls_seed = ctx.subrng("class").randrange(2 ** 48)
    for ci, (name, spec) in enumerate(class_specs(cls_seed)):
        spec["class_index"] = ci
        if not class_nontrivial(name, spec):
            raise RuntimeError("harness: class case %s lacks its feature" % name)
        n_before = res.traces_validated
        describe(spec, res)
        run_case_v(spec, res, queue, ci % 4 == 1)          # boundary cases under debug logging as well
        res.count("class." + name, int(res.traces_validated > n_before))
    # histories: rows added between sweeps, reset_model() between sweeps
    rng = ctx.subrng("history")
    for t in range(ctx.scale(24, 300, 80)):
        spec = history_spec(rng.randrange(2 ** 48), max_sweeps)
        describe(spec, res)
        run_case_v(spec, res, queue, t % 6 == 2)
    rng = ctx.subrng("selfpair")
    n_known = len(res.oracle_failures)
    res.count("selfpair.cases")
    run_case(fixed_selfpair_spec(), res, queue)
    if not any(f["signature"] == "C08:self-pair-cache" for f in res.oracle_failures[n_known:]):
        res.notes.append("the fixed self-pair witness no longer shows a stale cache (known finding C08:self-pair-cache may be fixed)")
    for t in range(ctx.scale(5, 40, 20)):
        spec = gen_spec(rng.randrange(2 ** 48), "selfpair", 2)
        res.count("selfpair.cases")
        run_case(spec, res, queue)
    iqueue = []
    inter_stream(ctx, res, iqueue)
    cli_stream(ctx, res, queue, iqueue)
    mlines, mcbs = [], []
    mvn_stream(ctx, res, mlines, mcbs)
    if ctx.driver is not None:
        iouts = ctx.driver.ask([q[0] for q in iqueue]) if iqueue else []
        for q, out in zip(iqueue, iouts):
            line, case, log, trace, after, pred, N, sweep_no = q
            compare_with_model(res, case, out, log, trace, after, pred, N, sweep_no, stages=ISTAGES, state_floats=istate_floats, where="C08I:sweep")
        res.count("tie.inter_sweep_lines", len(iqueue))
        outs = ctx.driver.ask([q[0] for q in queue] + mlines)
        for q, out in zip(queue, outs[:len(queue)]):
            line, case, log, trace, after, pred, N, sweep_no = q
            compare_with_model(res, case, out, log, trace, after, pred, N, sweep_no)
        for (case, got, sc_, tol), out in zip(mcbs, outs[len(queue):]):
            m = parse_floats(out) if out != "bad-op" else None
            if m is None or not close(m, got, sc_, tol=max(tol, 1e-12)):
                res.disagree("C08:mvn", case, got.tolist(), m)
        res.count("tie.sweep_lines", len(queue))
        res.count("tie.mvn_lines", len(mlines))


def replay(ctx, case, res):
    if case.get("verbose") and not case.get("verbose_compare"):
        with common.verbose_logging():
            return _replay(ctx, case, res)
    return _replay(ctx, case, res)


def _replay(ctx, case, res):
    if case.get("kind") == "mvn":
        mvn_check(res, case, None, None)
        return
    if case.get("kind") == "cli":
        q_, iq_ = [], []
        cli_case(ctx, res, case["spec"], q_, iq_)
        if ctx.driver is not None:
            for q in q_:
                compare_with_model(res, q[1], ctx.driver.ask([q[0]])[0], *q[2:])
            for q in iq_:
                compare_with_model(res, q[1], ctx.driver.ask([q[0]])[0], *q[2:], stages=ISTAGES, state_floats=istate_floats, where="C08I:sweep")
        return
    if str(case.get("stream", "")).startswith("inter"):
        iqueue = []
        if case.get("iclass"):
            cand = [sp for sp in inter_class_specs(case["case_seed"]) if sp["iclass"] == case["iclass"] and sp["D"] == case["D"] and sp.get("n0") == case.get("n0")
                    and sp["perturb"] == case.get("perturb", sp["perturb"])]
            ispec = cand[0]
        else:
            ispec = igen_spec(case["case_seed"], case.get("max_sweeps", 3), selfpair=case["stream"] == "inter-selfpair")
        irun_case_guarded(ispec, res, iqueue)
        if ctx.driver is not None and iqueue:
            for q, out in zip(iqueue, ctx.driver.ask([q[0] for q in iqueue])):
                line, c, log, trace, after, pred, N, sweep_no = q
                compare_with_model(res, c, out, log, trace, after, pred, N, sweep_no, stages=ISTAGES, state_floats=istate_floats, where="C08I:sweep")
        return
    if case.get("fixed") == "selfpair-witness":
        spec = fixed_selfpair_spec()
    elif case.get("grid"):
        spec = grid_spec(case["case_seed"], case["grid"][0], case["grid"][1])
    elif case.get("stream") == "history":
        spec = history_spec(case["case_seed"], case.get("max_sweeps", 3))
    elif case.get("stream") == "class":
        spec = class_specs(case["case_seed"])[case["class_index"]][1]
        spec["class_index"] = case["class_index"]
    else:
        spec = gen_spec(case["case_seed"], case["stream"], case.get("max_sweeps", 3))
    queue = []
    if case.get("verbose_compare"):
        run_case_v(spec, res, queue, True)
    else:
        run_case(dict(spec, verbose=True) if case.get("verbose") else spec, res, queue)
    if ctx.driver is not None and queue:
        outs = ctx.driver.ask([q[0] for q in queue])
        for q, out in zip(queue, outs):
            line, c, log, trace, after, pred, N, sweep_no = q
            compare_with_model(res, c, out, log, trace, after, pred, N, sweep_no)
