"""Checklist item 21: an exception whose innermost frame is harness code (a stub, a recording wrapper, an oracle) is the harness's
problem -- it becomes a tie (`wrapper.unexpected-call` + model disagreement), never a concrete violation of the implementation."""
import os
import traceback

_HERE = os.path.dirname(os.path.abspath(__file__))
_VERIF = os.path.dirname(_HERE)


def raised_in_harness(e):
    tb = traceback.extract_tb(e.__traceback__)
    if not tb:
        return False
    fn = os.path.abspath(tb[-1].filename)
    return fn.startswith(_HERE + os.sep) or fn.startswith(os.path.join(_VERIF, "vlib") + os.sep)


def fail_or_tie(res, where, what, case, e, required, signature=None):
    """report exception `e` caught around a call into the implementation"""
    desc = "%s: %s" % (type(e).__name__, e)
    if raised_in_harness(e):
        res.count("wrapper.unexpected-call")
        res.disagree(where, {"case": case}, desc + " (raised in harness code)", required)
        return False
    if signature is None:
        res.fail(what, case, desc, required)
    else:
        res.fail(what, case, desc, required, signature=signature)
    return True
