"""C09 -- predictions are pure, row-wise, treatment-order-symmetric and control-neutral.

Every case is self-contained (theta as 64-bit patterns + the raw screen), so `replay` re-executes it.
Oracles (on the implementation alone): per-row reference recomputation from theta, subset / nested subset /
plate / permutation = entries of the whole (exact), column swap (tolerance), control = single agent, viability
range, variance = 1/precision > 0, non-mutation of theta and screen, predict_*_all rows = per-theta predictions
(exact), predict_*_avg = exact mean.  Tie: the Lean model (`Batchie.Predict`) evaluated at Float on the same
theta and ids.

Auditor round (a-c09-c20): screens with non-default encodings and partially observed plates, theta memory layouts,
helpers on subsets/plates, and the call-order scenario (plates first / whole / plates again on a fresh Screen) were added.
Mutants tried on a scratch copy (all red with a replay unless noted): control not zeroed separately for V0/V1/V2 x column 0/1,
interaction sample column 0/1, predict_single_drug V0; ids sorted / overwritten in place (S2 seed); in-place `+=` into theta.W0;
`observation_mask[:] = True` and in-place `treatment_doses` write inside predict (the former was MISSED before partially observed
screens were generated); module-level caches keyed by screen size (predict) and by (holder, size) (predict_viability_avg: caught by
the helper-on-subset oracle); avg skipping the last sample; variance stack reusing sample 0; clip bound changed in the single-agent path;
interaction viability clipping the factors instead of the product.
Temporaries stream (`run_temporaries`): plates / equal-sized subsets / freshly built holders used as throw-away objects (address reuse)
for the five helpers and theta.predict_*; mutant "module-level memo keyed by (kind, id(screen), id(thetas)) + shape check" in
predict_mean_all / predict_variance_all (missed before) and its whole-Screen-only variant (holder ids) are red with a replay.
"""
import math

import numpy as np

from vlib import common
from harness import screens as S

common.use_repo_sources()

RULE = ("random parameter values (float64: N(0,1), tiny, large, mixed magnitudes 1e-20..1e20, D in 0..5) of both shipped MCMC "
        "sample types x real Screens of arity 1, 2 (3 = refused) with control by name or by dose in either/both columns; "
        "half of the screens carry a non-default encoding (treatment/sample ids permuted, mapping rows shuffled) and half are only "
        "partially observed (mask constant per plate); theta arrays C-ordered, Fortran-ordered or read-only strided views; "
        "random subsets, nested subsets, plates, row permutations, column swap, single-agent screens, holders of 0..4 samples "
        "(also incomplete), helpers on subsets, and a call-order scenario on a fresh Screen object (plates first, whole screen, plates "
        "again). Non-trivial: >=3 rows with a control in column 0 of some row, in column 1 of some row, and a full combination row.")

REL = 1e-9


# ----------------------------------------------------------------------------- encoding

def fbits(x):
    return S.bits(float(x))


def vec_tok(a):
    a = np.asarray(a, dtype=float).reshape(-1)
    return "-" if a.size == 0 else ",".join(str(fbits(x)) for x in a)


def mat_tok(m):
    m = np.asarray(m, dtype=float)
    if m.shape[0] == 0:
        return "-"
    return ";".join("_" if m.shape[1] == 0 else ",".join(str(fbits(x)) for x in r) for r in m)


def theta_to_case(kind, th):
    if kind == "sdc":
        return {"W": [[fbits(x) for x in r] for r in th.W], "W0": [fbits(x) for x in th.W0],
                "V2": [[fbits(x) for x in r] for r in th.V2], "V1": [[fbits(x) for x in r] for r in th.V1],
                "V0": [fbits(x) for x in th.V0], "alpha": fbits(th.alpha), "precision": fbits(th.precision),
                "D": int(np.asarray(th.W).shape[1])}
    return {"W": [[fbits(x) for x in r] for r in th.W], "V2": [[fbits(x) for x in r] for r in th.V2],
            "precision": fbits(th.precision), "D": int(np.asarray(th.W).shape[1]),
            "lookup": [[int(k[0]), int(k[1]), fbits(v)] for k, v in th.single_effect_lookup.items()]}


def _mat(rows, d):
    a = np.array([[S.from_bits(b) for b in r] for r in rows], dtype=float)
    return a.reshape(len(rows), d)


def _lay(a, layout):
    """memory layout of a parameter array: C order, Fortran order, or a read-only strided view into a larger buffer
    (the values are the same; code that assumes contiguity or writes into theta in place is exposed)"""
    a = np.asarray(a, dtype=float)
    if layout == "f":
        return np.asfortranarray(a)
    if layout == "negstride":
        return np.ascontiguousarray(a[::-1])[::-1]
    if layout == "strided_ro":
        big = np.full(tuple(2 * k for k in a.shape), 7.5, dtype=float)
        view = big[tuple(slice(None, None, 2) for _ in a.shape)]
        view[...] = a
        view.flags.writeable = False
        return view
    return a


def theta_from_case(kind, c):
    from batchie.models.sparse_combo import SparseDrugComboMCMCSample
    from batchie.models.sparse_combo_interaction import SparseDrugComboInteractionMCMCSample
    d = c["D"]
    lay = c.get("layout", "c")
    sc_ = (lambda x: np.float64(x)) if lay in ("f", "negstride") else (lambda x: x)     # numpy scalars vs python floats
    if kind == "sdc":
        return SparseDrugComboMCMCSample(
            W=_lay(_mat(c["W"], d), lay), W0=_lay(np.array([S.from_bits(b) for b in c["W0"]], dtype=float), lay),
            V2=_lay(_mat(c["V2"], d), lay), V1=_lay(_mat(c["V1"], d), lay),
            V0=_lay(np.array([S.from_bits(b) for b in c["V0"]], dtype=float), lay),
            alpha=sc_(S.from_bits(c["alpha"])), precision=sc_(S.from_bits(c["precision"])))
    return SparseDrugComboInteractionMCMCSample(
        W=_lay(_mat(c["W"], d), lay), V2=_lay(_mat(c["V2"], d), lay), precision=sc_(S.from_bits(c["precision"])),
        single_effect_lookup={(int(a), int(b)): S.from_bits(v) for a, b, v in c["lookup"]})


def theta_tok(kind, th):
    if kind == "sdc":
        return "|".join([mat_tok(th.W), vec_tok(th.W0), mat_tok(th.V2), mat_tok(th.V1), vec_tok(th.V0),
                         str(fbits(th.alpha)), str(fbits(th.precision))])
    lk = "-" if not th.single_effect_lookup else ",".join(
        "%d:%d:%d" % (int(k[0]), int(k[1]), fbits(v)) for k, v in th.single_effect_lookup.items())
    return "|".join([mat_tok(th.W), mat_tok(th.V2), str(fbits(th.precision)), lk])


def screen_toks(sc):
    tids = np.asarray(sc.treatment_ids)
    sids = np.asarray(sc.sample_ids)
    a = int(sc.treatment_arity)
    s = "-" if sids.size == 0 else ",".join(str(int(x)) for x in sids)
    t = "-" if sids.size == 0 else ";".join(",".join(str(int(x)) for x in r) for r in tids)
    return "%d %s %s" % (a, s, t)


def parse_vec(tok):
    if tok == "-":
        return []
    return [float("nan") if x == "nan" else S.from_bits(int(x)) for x in tok.split(",")]


def parse_out(line, matrix=False):
    if line.startswith("err:") or line == "bad-op":
        return line
    assert line.startswith("ok "), line
    body = line[3:]
    if not matrix:
        return parse_vec(body)
    if body == "-":
        return []
    return [([] if r == "_" else parse_vec(r)) for r in body.split(";")]


def err_tok(e):
    n = type(e).__name__
    if n == "NotImplementedError":
        return "err:Other"
    return S.err_tok(e)


# ----------------------------------------------------------------------------- generation

def rand_value(rng, regime):
    if regime == "normal":
        return rng.gauss(0, 1)
    if regime == "tiny":
        return rng.gauss(0, 1) * 1e-12
    if regime == "large":
        return rng.gauss(0, 1) * 300.0
    if regime == "mixed":
        return rng.choice([-1, 1]) * 10.0 ** rng.uniform(-20, 20)
    if regime == "grid":
        return rng.choice([0.0, -0.0, 1.0, -1.0, 0.5, 2.0, -3.0, 1e-30, 0.1, 1e30])
    if regime == "clipedge":
        return rng.gauss(0, 1) * 1e-4
    raise ValueError(regime)


def gen_theta_case(rng, kind, n_s, n_t, regime=None, d=None):
    regime = regime or rng.choice(["normal", "normal", "normal", "tiny", "large", "mixed", "grid"])
    d = rng.choice([0, 1, 1, 2, 2, 3, 5, 9]) if d is None else d
    val = lambda: fbits(rand_value(rng, regime))  # noqa: E731
    prec = fbits(rng.choice([1.0, 0.37, 2.5, 1e-12, 1e12, 10.0 ** rng.uniform(-30, 30), abs(rng.gauss(0, 1)) + 1e-3]))
    layout = rng.choice(["c", "c", "c", "f", "strided_ro", "negstride"])
    if kind == "sdc" and regime == "clipedge":
        # the modelled mean sits just inside / just outside logit(0.01) = -4.59512 or logit(0.99) = +4.59512: the clip bounds 0.01 / 0.99
        # are written four times in the code (predict, predict_single_drug, interaction viability twice)
        edge = fbits(rng.choice([-1, 1]) * (4.595119850134589 + rng.choice([-0.02, -0.002, 0.002, 0.02])))
        return {"W": [[val() for _ in range(d)] for _ in range(n_s)], "W0": [val() for _ in range(n_s)],
                "V2": [[val() for _ in range(d)] for _ in range(n_t)], "V1": [[val() for _ in range(d)] for _ in range(n_t)],
                "V0": [val() for _ in range(n_t)], "alpha": edge, "precision": prec, "D": d, "regime": regime, "layout": layout}
    if kind == "sdc":
        return {"W": [[val() for _ in range(d)] for _ in range(n_s)], "W0": [val() for _ in range(n_s)],
                "V2": [[val() for _ in range(d)] for _ in range(n_t)], "V1": [[val() for _ in range(d)] for _ in range(n_t)],
                "V0": [val() for _ in range(n_t)], "alpha": val(), "precision": prec, "D": d, "regime": regime, "layout": layout}
    lookup = []
    for s in range(n_s):
        lookup.append([s, -1, fbits(1.0)])
        for t in range(n_t):
            v = rng.choice([rng.random(), rng.random() * 1.5, 0.005, 0.995, 1.0, 0.5, 0.0, 1e-9, 0.0099, 0.0101, 0.9899, 0.9901])
            lookup.append([s, t, fbits(v)])
    rng.shuffle(lookup)
    return {"W": [[val() for _ in range(d)] for _ in range(n_s)], "V2": [[val() for _ in range(d)] for _ in range(n_t)],
            "precision": prec, "D": d, "lookup": lookup, "regime": regime, "layout": layout}


def gen_raw(rng, arity, n_s, n_t, n_max):
    """raw screen whose ids lie in [-1, n_t) x [0, n_s): every treatment/sample of the pools is listed in the
    mappings of a pool-covering screen, so the ids do not depend on which rows were drawn"""
    n = rng.choice([0, 1, 2]) if rng.random() < 0.08 else rng.randint(3, n_max)
    suffix = LONG_SUFFIX if rng.random() < 0.2 else ""      # names longer than any small fixed-width buffer (>= 25 chars)
    no_control = arity == 2 and n_t > 0 and rng.random() < 0.08   # a screen without any control
    tpool = [("t%d%s" % (i, suffix), 1.0 + (i % 3)) for i in range(n_t)]
    ctrl = "control"
    ctrl_cells = CTRL_CELLS
    spool = ["s%d%s" % (i, suffix) for i in range(n_s)]
    tn, td, sn, pn = [], [], [], []
    n_pl = rng.randint(1, 3)
    for r in range(n):
        cells = []
        mode = rng.random()
        for c in range(arity):
            if n_t == 0:
                is_ctrl = True
            elif arity == 1:
                is_ctrl = rng.random() < 0.25
            else:
                is_ctrl = (mode < 0.2 and c == 0) or (0.2 <= mode < 0.4 and c == 1) or (0.4 <= mode < 0.5 and c <= 1) \
                    or (mode >= 0.9 and rng.random() < 0.3)
                is_ctrl = is_ctrl and not no_control
            cells.append(rng.choice(ctrl_cells) if is_ctrl else rng.choice(tpool))
        if arity >= 2 and rng.random() < 0.15 and n_t > 0:
            cells[1] = cells[0]  # the same agent twice
        tn.append([c[0] for c in cells])
        td.append([c[1] for c in cells])
        sn.append(rng.choice(spool))
        pn.append("p%d" % rng.randrange(n_pl))
    if n >= 3 and n_s >= 2 and rng.random() < 0.3:
        # row order: first and last row share a sample, a row in between has another one (A,B,A / A,B,B,A / A,?,B,?,A)
        a, b = rng.sample(spool, 2)
        sn[0] = sn[-1] = a
        sn[rng.randrange(1, n - 1)] = b
        if n >= 4 and rng.random() < 0.5:
            for k in range(1, n - 1):
                sn[k] = b
    raw = dict(ctrl=ctrl, arity=arity, tnames=tn, tdoses=td, snames=sn, pnames=pn,
               obs=[rng.random() for _ in range(n)], mask=None,
               tmap=None, smap=None, n_s=n_s, n_t=n_t, suffix=suffix)
    return decorate_raw(rng, raw)


WIDE_IDS = [127, 128, 255, 256, 257, 0]


def widen_ids(rng, raw):
    """integer-width boundaries: the agents of this screen get the treatment ids 127, 128, 255, 256, 257 (and 0) out of 258"""
    n_t = raw["n_t"]
    suffix = raw.get("suffix", "")
    pool = rng.sample(range(n_t), len(WIDE_IDS))
    turn = [rng.randrange(len(pool)) for _ in range(raw["arity"])]
    for r in range(len(raw["tnames"])):
        for c in range(raw["arity"]):
            if raw["tnames"][r][c].startswith("t") and raw["tdoses"][r][c] > 0:       # a real agent of the pool
                j = pool[turn[c] % len(pool)]      # every column cycles through all the boundary ids
                turn[c] += 1
                raw["tnames"][r][c], raw["tdoses"][r][c] = "t%d%s" % (j, suffix), 1.0 + (j % 3)
    tm, _ = mappings_for(dict(raw, enc=None))
    default_id = {(str(nm), float(ds)): int(i) for nm, ds, i in zip(*tm)}
    perm = list(range(n_t))
    for j, want in zip(pool, WIDE_IDS):
        a = default_id[("t%d%s" % (j, suffix), 1.0 + (j % 3))]
        x = perm.index(want)
        perm[a], perm[x] = perm[x], perm[a]
    enc = raw.get("enc") or {"sperm": list(range(raw["n_s"])), "trow": list(range(n_t + len(CTRL_CELLS))), "srow": list(range(raw["n_s"]))}
    enc["tperm"] = perm
    raw["enc"] = enc
    raw["wide"] = True


def decorate_raw(rng, raw):
    """partially observed plates and non-default encodings: the ids still lie in [-1, n_t) x [0, n_s), but treatment
    t_i / sample s_i no longer has id i and the mapping rows are not in (name, dose) / name order"""
    n = len(raw["snames"])
    if n and rng.random() < 0.5:
        seen = {}
        for pn in raw["pnames"]:
            if pn not in seen:
                seen[pn] = rng.random() < 0.5
        raw["mask"] = [seen[pn] for pn in raw["pnames"]]
    if rng.random() < 0.5:
        tperm = list(range(raw["n_t"]))
        sperm = list(range(raw["n_s"]))
        trow = list(range(raw["n_t"] + len(CTRL_CELLS)))
        srow = list(range(raw["n_s"]))
        for x in (tperm, sperm, trow, srow):
            rng.shuffle(x)
        raw["enc"] = {"tperm": tperm, "sperm": sperm, "trow": trow, "srow": srow}
    return raw


LONG_SUFFIX = "_" + "n" * 27
CTRL_CELLS = [("control", 0.0), ("control", 2.0), ("t0", 0.0), ("zz", -1.0), ("control", 1.0)]
_MAP_CACHE = {}


def mappings_for(raw):
    """the mapping batchie itself produces for a screen listing every pool member and every spelling of control
    (so ids are stable: treatment t_i <-> id i, sample s_i <-> id i)"""
    n_t, n_s = raw["n_t"], raw["n_s"]
    enc = raw.get("enc")
    if enc:
        tm, sm = mappings_for(dict(raw, enc=None))
        ids = np.array([enc["tperm"][int(i)] if int(i) >= 0 else -1 for i in tm[2]], dtype=np.asarray(tm[2]).dtype)
        o = np.array(enc["trow"], dtype=int)
        assert len(o) == len(ids), (len(o), len(ids))
        tm2 = (np.asarray(tm[0])[o], np.asarray(tm[1])[o], ids[o])
        sid = np.array([enc["sperm"][int(i)] for i in sm[1]], dtype=np.asarray(sm[1]).dtype)
        o = np.array(enc["srow"], dtype=int)
        return tm2, (np.asarray(sm[0])[o], sid[o])
    suffix = raw.get("suffix", "")
    if (n_t, n_s, suffix) in _MAP_CACHE:
        return _MAP_CACHE[(n_t, n_s, suffix)]
    rows_t = [("t%d%s" % (i, suffix), 1.0 + (i % 3)) for i in range(n_t)] + CTRL_CELLS
    k = max(len(rows_t), n_s)
    big = dict(ctrl="control", arity=1,
               tnames=[[rows_t[i % len(rows_t)][0]] for i in range(k)],
               tdoses=[[rows_t[i % len(rows_t)][1]] for i in range(k)],
               snames=["s%d%s" % (i % n_s, suffix) for i in range(k)], pnames=["p"] * k, obs=None, mask=None)
    s = S.build(big)
    _MAP_CACHE[(n_t, n_s, suffix)] = (s.treatment_mapping, s.sample_mapping)
    return _MAP_CACHE[(n_t, n_s, suffix)]


def build_screen(raw, tnames=None, tdoses=None, rows=None, arity=None):
    """real Screen from `raw` (optionally other treatment columns / a row selection), ids pinned by the pool mappings"""
    from batchie.data import Screen
    tmap, smap = mappings_for(raw)
    a = arity if arity is not None else raw["arity"]
    tn = raw["tnames"] if tnames is None else tnames
    td = raw["tdoses"] if tdoses is None else tdoses
    idx = list(range(len(raw["snames"]))) if rows is None else rows
    n = len(idx)
    # ids of treatments that are not in the pool mapping (control spelled by dose <= 0) still encode to -1
    return Screen(
        treatment_names=np.array([tn[i] for i in idx], dtype=str).reshape(n, a),
        treatment_doses=np.array([td[i] for i in idx], dtype=float).reshape(n, a),
        sample_names=np.array([raw["snames"][i] for i in idx], dtype=str),
        plate_names=np.array([raw["pnames"][i] for i in idx], dtype=str),
        observations=np.array([raw["obs"][i] for i in idx], dtype=float),
        observation_mask=(None if raw.get("mask") is None else np.array([raw["mask"][i] for i in idx], dtype=bool)),
        control_treatment_name=raw["ctrl"], treatment_mapping=tmap, sample_mapping=smap)


# ----------------------------------------------------------------------------- reference (loop by loop)

def fsum(xs):
    return math.fsum(xs)


def ref_mean(kind, th, s, ts):
    """(value, scale): the definition, from theta alone, for one experiment; scale = same with absolute values"""
    nc = [int(t) for t in ts if int(t) != -1]
    W = np.asarray(th.W, dtype=float)
    terms = []
    if kind == "sdc":
        terms += [float(th.alpha), float(th.W0[s])]
        for t in nc:
            terms.append(float(th.V0[t]))
            terms += [float(W[s, d]) * float(th.V1[t, d]) for d in range(W.shape[1])]
    if len(ts) == 2 and len(nc) == 2:
        terms += [float(W[s, d]) * float(th.V2[nc[0], d]) * float(th.V2[nc[1], d]) for d in range(W.shape[1])]
    return fsum(terms), fsum(abs(x) for x in terms)


def expit_ref(mu):
    if mu >= 0:
        return 1.0 / (1.0 + math.exp(-mu))
    e = math.exp(mu)
    return e / (1.0 + e)


def clip_ref(x):
    return min(max(x, 0.01), 0.99)


def close(a, b, tol):
    if a == b or (math.isnan(a) and math.isnan(b)):
        return True
    if math.isnan(a) or math.isnan(b) or math.isinf(a) or math.isinf(b):
        return False
    return abs(a - b) <= tol


def mu_tol(scale):
    return REL * scale + 1e-300


def viab_tol(scale):
    return min(1.0, 1e-9 + 0.25 * REL * scale)


# ----------------------------------------------------------------------------- snapshots (non-mutation)

def make_holder(members, declared=None):
    """a ThetaHolder built through its PUBLIC interface (constructor + add_theta): the attribute that stores the samples is the
    implementation's business (item 20/21: no knowledge of the current layout in an oracle path)"""
    from batchie.core import ThetaHolder
    members = list(members)
    h = ThetaHolder(n_thetas=len(members) if declared is None else declared)
    for t in members:
        h.add_theta(t)
    return h


def snaps_differ(before, after, res=None):
    """True iff an attribute that existed BEFORE has another value after.  Attributes that only appear afterwards (a lazily filled
    private cache a refactor may add) are not a mutation of the observable state: counted, never a replay."""
    if (isinstance(before, tuple) and isinstance(after, tuple) and before and after and before[0] == after[0]
            and all(isinstance(x, tuple) and len(x) == 2 and isinstance(x[0], str) for x in before[1:] + after[1:]) and len(before) > 1):
        b, a = dict(before[1:]), dict(after[1:])
        if set(a) - set(b) and res is not None:
            res.count("observed.new_attribute_after_call")
        return any(k not in a or snaps_differ(v, a[k], res) for k, v in b.items())
    if isinstance(before, list) and isinstance(after, list) and len(before) == len(after):
        return any(snaps_differ(x, y, res) for x, y in zip(before, after))
    return before != after


def deep_snap(obj, depth=0):
    """bit-exact, order-preserving snapshot of EVERY attribute (enumerated by introspection, not by a hand-written list)"""
    if isinstance(obj, np.ndarray):
        if obj.dtype == object:      # (bytes of an object array are pointers: compare the elements)
            return ("nd-obj", obj.shape, tuple(deep_snap(x, depth) for x in obj.reshape(-1).tolist()))
        return ("nd", obj.dtype.str, obj.shape, obj.tobytes())
    if isinstance(obj, (tuple, list)):
        return (type(obj).__name__,) + tuple(deep_snap(x, depth) for x in obj)
    if isinstance(obj, dict):
        return ("dict",) + tuple((deep_snap(k, depth), deep_snap(v, depth)) for k, v in obj.items())
    if isinstance(obj, (float, np.floating)):
        return ("f", fbits(obj))
    if isinstance(obj, (int, str, bool, type(None), np.generic)):
        return (type(obj).__name__, repr(obj))
    if hasattr(obj, "__dict__") and depth < 2:
        return (type(obj).__name__,) + tuple((k, deep_snap(v, depth + 1)) for k, v in sorted(vars(obj).items()))
    return ("obj", type(obj).__name__)


def snap_theta(kind, th):
    return deep_snap(th)


def snap_screen(base):
    """every attribute of the underlying Screen (views share them)"""
    return deep_snap(base)


def arrays_of(obj):
    out = []
    for v in vars(obj).values():
        if isinstance(v, np.ndarray):
            out.append(v)
        elif isinstance(v, (tuple, list)):
            out += [x for x in v if isinstance(x, np.ndarray)]
    return out


METHODS = {"mean": "predict_conditional_mean", "viab": "predict_viability", "var": "predict_conditional_variance"}


class Runner:
    def __init__(self, res, case, lines):
        self.res = res
        self.case = case
        self.lines = lines     # list of (driver line, impl value, tol spec, where) or None (oracle only)
        self.kind = case["kind"]
        self.failed = False
        self.kept = []         # (result array, its values when returned, method): re-read after all later calls
        self.tmp_id_reuse = None
        self.instalments = False
        self.unsorted_prediction = False
        self.clip = set()

    def recheck_kept(self):
        for arr, vals, what in self.kept:
            now = [float(x) for x in np.asarray(arr, dtype=float).reshape(-1)]
            if len(now) != len(vals) or any(fbits(a) != fbits(b) for a, b in zip(now, vals)):
                self.fail("an earlier prediction result changed after later calls", {"method": what, "then": vals[:6], "now": now[:6]},
                          "results are independent arrays", signature="C09:aliasing")
                return

    def fail(self, what, observed, required, signature=None):
        self.failed = True
        self.res.fail(what, self.case, observed, required, signature=signature or ("C09:" + what))

    def call(self, th, what, sc, base):
        """one prediction call with the purity check around it; returns list of floats or 'err:X'"""
        b_th, b_sc = snap_theta(self.kind, th), snap_screen(base)
        try:
            raw_out = getattr(th, METHODS[what])(sc)
            out = [float(x) for x in np.asarray(raw_out, dtype=float).reshape(-1)]
            if isinstance(raw_out, np.ndarray):
                # the result must be fresh storage: not a view of theta / of the screen / of an earlier result
                for a in arrays_of(th) + arrays_of(base) + [k[0] for k in self.kept]:
                    if a.size and raw_out.size and np.shares_memory(raw_out, a):
                        # not a clause of the property by itself (a view is legal as long as nothing changes): counted only;
                        # `recheck_kept` fires when an earlier result actually CHANGES after later calls
                        self.res.count("observed.result_shares_storage")
                        break
                if len(self.kept) < 40:
                    self.kept.append((raw_out, list(out), what))
        except Exception as e:  # noqa
            out = err_tok(e)
        if snaps_differ(b_th, snap_theta(self.kind, th), self.res):
            self.fail("prediction mutated the posterior sample", {"method": what}, "theta arrays bit-identical before/after")
        if snaps_differ(b_sc, snap_screen(base), self.res):
            self.fail("prediction mutated the screen", {"method": what}, "screen arrays bit-identical before/after")
        return out

    def tie(self, line, impl, scales, what, where, matrix=False):
        if self.lines is not None:
            self.lines.append((line, impl, scales, what, where, matrix, self.case))


def run_temporaries(R, case, raw, kind, thetas):
    """Object lifetime: `screen.get_plate(pid)`, `screen.plates`, `screen.subset(mask)` and freshly built holders are used as
    TEMPORARIES -- nothing but the result is retained, so the next temporary of the same type usually gets the same address
    (id) and, here, the same size.  Every result must be exactly the corresponding columns / rows of the whole-screen result.
    Anything memoised by identity (id(screen), id(thetas), id(theta)) without keeping the object alive fails here."""
    import gc
    from batchie.core import ThetaHolder
    from batchie.models import main as mm
    n = len(raw["snames"])
    n_pl = 2 if n < 6 else 3
    scr = build_screen(dict(raw, pnames=["q%d" % (i % n_pl) for i in range(n)], mask=None))   # several (nearly) equal-sized plates
    plate_ids = np.asarray(scr.plate_ids).copy()
    masks = [np.array(m, dtype=bool) for m in case.get("tmp_masks", [])]
    holder = make_holder(thetas)
    th = thetas[0]
    calls = [("predict_mean_all", lambda v, h: mm.predict_mean_all(v, h), 1), ("predict_viability_all", lambda v, h: mm.predict_viability_all(v, h), 1),
             ("predict_variance_all", lambda v, h: mm.predict_variance_all(v, h), 1),
             ("predict_mean_avg", lambda v, h: mm.predict_mean_avg(v, h), 0), ("predict_viability_avg", lambda v, h: mm.predict_viability_avg(v, h), 0),
             ("theta.predict_conditional_mean", lambda v, h: th.predict_conditional_mean(v), 0),
             ("theta.predict_viability", lambda v, h: th.predict_viability(v), 0),
             ("theta.predict_conditional_variance", lambda v, h: th.predict_conditional_variance(v), 0)]
    reused = 0
    gc.collect()
    for name, fn, two_d in calls:
        try:
            with np.errstate(all="ignore"):
                whole = np.array(fn(scr, holder), dtype=float)
        except Exception:  # noqa  (NaN refusals etc. are judged by the holder oracles above)
            continue
        if np.isnan(whole).any():
            continue
        seen_ids = set()
        targets = [("plate", ("p", int(pid))) for pid in np.unique(plate_ids)] + [("subset", ("m", k)) for k in range(len(masks))]
        for rnd in ((0, 1) if name.startswith("predict_") else (0,)):   # twice: the second round meets what the first left behind
            for tname, (tk, tv) in targets:
                idx = np.where(plate_ids == tv)[0] if tk == "p" else np.where(masks[tv])[0]
                try:
                    with np.errstate(all="ignore"):
                        if tk == "p":
                            seen_ids.add(id(scr.get_plate(tv)))
                            out = np.array(fn(scr.get_plate(tv), holder), dtype=float)       # temporary Plate
                        else:
                            out = np.array(fn(scr.subset(masks[tv]), holder), dtype=float)    # temporary ScreenSubset
                except Exception as e:  # noqa
                    R.fail("%s raises on a temporary %s although it predicts the whole screen" % (name, tname), {"error": repr(e)[:200]}, "an array",
                           signature="C09:temporaries")
                    break
                want = whole[:, idx] if two_d else whole[idx]
                if out.shape != want.shape or out.tobytes() != want.tobytes():
                    R.fail("%s on a temporary %s (nothing but the result retained) is not the corresponding entries of the whole screen" % (name, tname),
                           {"rows": [int(i) for i in idx][:12], "round": rnd, "got": out.reshape(-1)[:8].tolist()}, want.reshape(-1)[:8].tolist(),
                           signature="C09:temporaries")
                    break
            else:
                continue
            break
        reused += len(seen_ids) < len(np.unique(plate_ids)) or len(np.unique(plate_ids)) < 2
        # ---- temporary HOLDERS of the same length, other members, bound to the same name one after the other
        if len(thetas) >= 2 and name.startswith("predict_"):
            L = 2
            try:
                with np.errstate(all="ignore"):
                    per = [np.array(getattr(t, METHODS["mean" if "mean" in name else ("var" if "variance" in name else "viab")])(scr), dtype=float)
                           for t in thetas]
            except Exception:  # noqa
                continue
            for combo in ([0, 0], [1, 0], [1, 1], [0, 1], [len(thetas) - 1, 0]):
                h = make_holder([thetas[k] for k in combo])            # the previous holder of this name dies here
                try:
                    with np.errstate(all="ignore"):
                        out = np.array(fn(scr, h), dtype=float)
                except Exception as e:  # noqa
                    R.fail("%s raises on a freshly built holder" % name, {"members": combo, "error": repr(e)[:200]}, "an array", signature="C09:temporaries")
                    break
                if two_d:
                    want = np.stack([per[k] for k in combo])
                else:
                    want = np.zeros(n, dtype=float)
                    for k in combo:
                        want = want + per[k]
                    want = want / L
                if out.shape != want.shape or out.tobytes() != want.tobytes():
                    R.fail("%s with a freshly built holder of the same length but other members returns another holder's result" % name,
                           {"members": combo, "got": out.reshape(-1)[:8].tolist()}, want.reshape(-1)[:8].tolist(), signature="C09:temporaries")
                    break
    R.tmp_id_reuse = reused
    # ---- instalments: the same holder built by add_theta one sample at a time, and by combining two partial holders
    if len(thetas) >= 2:
        try:
            h1 = ThetaHolder(n_thetas=len(thetas))
            for t in thetas:
                h1.add_theta(t)
            cut = 1 + case["idx"] % (len(thetas) - 1)
            ha, hb = ThetaHolder(n_thetas=cut), ThetaHolder(n_thetas=len(thetas) - cut)
            for t in thetas[:cut]:
                ha.add_theta(t)
            for t in thetas[cut:]:
                hb.add_theta(t)
            h2 = ha.combine(hb)
            for name, fn, two_d in calls[:5]:
                with np.errstate(all="ignore"):
                    try:
                        ref = np.array(fn(scr, holder), dtype=float)
                    except Exception:  # noqa
                        continue
                    for how, hx in (("add_theta one by one", h1), ("combine of two partial holders", h2)):
                        out = np.array(fn(scr, hx), dtype=float)
                        if out.shape != ref.shape or out.tobytes() != ref.tobytes():
                            R.fail("%s differs for a holder with the same samples built by %s" % (name, how), out.reshape(-1)[:8].tolist(),
                                   ref.reshape(-1)[:8].tolist(), signature="C09:instalments")
            R.instalments = True
        except Exception as e:  # noqa
            R.fail("a helper raises for a holder built in instalments", repr(e)[:200], "the same result as for the holder built at once",
                   signature="C09:instalments")


def aba_triple(sids):
    """(i, j, k), i < j < k, with sids[i] == sids[k] != sids[j] (first/last of the triple share a sample), else None"""
    n = len(sids)
    for i in range(n):
        for k in range(n - 1, i + 1, -1):
            if sids[k] == sids[i]:
                for j in range(i + 1, k):
                    if sids[j] != sids[i]:
                        return (i, j, k)
    return None


def tol_for(what, scale):
    if what == "mean":
        return mu_tol(scale)
    if what == "viab":
        return viab_tol(scale)
    return 0.0


def quick_results(case):
    """the five helpers and the three `theta.predict_*` on the whole screen of a case, as bytes / error class (fresh objects)"""
    from batchie.core import ThetaHolder
    from batchie.models import main as mm
    model = case["model"] if case.get("kind") == "bigholder" else case["kind"]
    thetas = [theta_from_case(model, c) for c in case["thetas"]]
    base = build_screen(case["raw"])
    holder = make_holder(thetas[: case.get("held", len(thetas))], case.get("declared", len(thetas)))
    out = {}
    calls = [("predict_mean_all", lambda: mm.predict_mean_all(base, holder)), ("predict_viability_all", lambda: mm.predict_viability_all(base, holder)),
             ("predict_variance_all", lambda: mm.predict_variance_all(base, holder)), ("predict_mean_avg", lambda: mm.predict_mean_avg(base, holder)),
             ("predict_viability_avg", lambda: mm.predict_viability_avg(base, holder))]
    for k, t in enumerate(thetas[:3]):
        for what in ("mean", "viab", "var"):
            calls.append(("theta%d.%s" % (k, METHODS[what]), (lambda t=t, what=what: getattr(t, METHODS[what])(base))))
    for name, f in calls:
        try:
            with np.errstate(all="ignore"):
                a = np.array(f(), dtype=float)
            out[name] = (a.shape, a.tobytes())
        except Exception as e:  # noqa
            out[name] = err_tok(e)
    out["screen"] = snap_screen(base)
    out["thetas"] = [deep_snap(t) for t in thetas]
    return out


def with_verbose(case, res, body):
    """item 19: a case marked `verbose` runs entirely under `vlib.common.verbose_logging()` (logger `batchie` at DEBUG with a formatting
    sink = what -v/--verbose sets), with the same oracles; in addition every helper / method result on the whole screen must be
    bit-identical to the run WITHOUT verbose logging on the same input, and so must the inputs afterwards"""
    if not case.get("verbose"):
        return body()
    quiet = quick_results(case)
    with common.verbose_logging():
        out = body()
        loud = quick_results(case)
    for k in quiet:
        if (snaps_differ(quiet[k], loud[k], res) if k in ("screen", "thetas") else quiet[k] != loud[k]):
            if k in ("screen", "thetas"):
                res.fail("the %s differ(s) after the calls under verbose (DEBUG) logging" % k, case, "changed", "as without verbose logging",
                         signature="C09:verbose-logging")
            elif isinstance(quiet[k], str) or isinstance(loud[k], str):
                res.fail("%s succeeds / fails differently under verbose (DEBUG) logging" % k, case, str(loud[k])[:100], str(quiet[k])[:100],
                         signature="C09:verbose-logging")
            else:
                a = np.frombuffer(loud[k][1], dtype=float)[:8].tolist()
                b = np.frombuffer(quiet[k][1], dtype=float)[:8].tolist()
                res.fail("%s returns another result under verbose (DEBUG) logging than without it" % k, case, {"verbose": a}, {"default": b},
                         signature="C09:verbose-logging")
            break
    return out


def run_case(case, res, lines):
    return with_verbose(case, res, lambda: _run_case(case, res, lines))


def _run_case(case, res, lines):
    """execute ONE self-contained case on the real code: oracles (+ queue tie lines)"""
    from batchie.core import ThetaHolder
    from batchie.models import main as mm
    kind = case["kind"]
    R = Runner(res, case, lines)
    raw = case["raw"]
    arity = raw["arity"]
    thetas = [theta_from_case(kind, c) for c in case["thetas"]]
    th = thetas[0]
    base = build_screen(raw)
    n = base.size
    tids = np.asarray(base.treatment_ids)
    sids = np.asarray(base.sample_ids)
    in_range = (n == 0) or (int(sids.max(initial=-1)) < np.asarray(th.W).shape[0]
                            and int(tids.max(initial=-1)) < np.asarray(th.V2).shape[0]
                            and (np.asarray(th.V2).shape[0] > 0 or not (tids == -1).any()))
    supported = (arity in (1, 2)) if kind == "sdc" else arity == 2
    whole = {}
    scales = None
    for what in ("mean", "viab", "var"):
        out = R.call(th, what, base, base)
        whole[what] = out
        # ---- expected errors -------------------------------------------------------------
        if what != "var" and not supported:
            # outside the property's quantifier (arity 1 and 2): compared with the MODEL only (tie), never a replay
            R.tie("c09.%s %s %s %s" % (kind, what, theta_tok(kind, th), screen_toks(base)), out, None, what, "whole")
            continue
        if isinstance(out, str):
            if in_range and not (kind == "sdci" and what == "viab" and out == "err:KeyError" and case.get("dropped_key")):
                R.fail("prediction raises on a valid (theta, screen)", {"method": what, "error": out}, "an array of predictions")
            R.tie("c09.%s %s %s %s" % (kind, what, theta_tok(kind, th), screen_toks(base)), out, None, what, "whole")
            continue
        if len(out) != n:
            R.fail("prediction has wrong length", {"method": what, "len": len(out)}, n)
            continue
        # ---- the definition, row by row --------------------------------------------------
        if what == "var":
            want = 1.0 / float(th.precision)
            if any(x != want for x in out) or not (want > 0):
                R.fail("variance is not the positive reciprocal precision for every experiment", out[:6], want)
            scales = scales or [0.0] * n
        else:
            refs = [ref_mean(kind, th, int(sids[i]), [int(t) for t in tids[i]]) for i in range(n)]
            scales = [r[1] for r in refs]
            for i in range(n):
                mu, sc_ = refs[i]
                if what == "mean":
                    if not close(out[i], mu, mu_tol(sc_)):
                        R.fail("conditional mean differs from its per-experiment definition",
                               {"row": i, "sample": int(sids[i]), "treatments": [int(t) for t in tids[i]], "got": out[i]}, mu)
                        break
                else:
                    R.clip.add((kind, arity, "lo" if out[i] == 0.01 else ("hi" if out[i] == 0.99 else "in")))
                    if not (0.01 <= out[i] <= 0.99):
                        R.fail("viability outside [0.01, 0.99]", {"row": i, "got": out[i]}, "0.01 <= v <= 0.99")
                        break
                    if kind == "sdc":
                        if abs(mu) > 1e6 and sc_ > 1e3 * abs(mu):
                            continue
                        want = clip_ref(expit_ref(mu))
                        tol = viab_tol(sc_)
                    else:
                        lk = th.single_effect_lookup
                        p = clip_ref(lk[(int(sids[i]), int(tids[i][0]))] * lk[(int(sids[i]), int(tids[i][1]))])
                        arg = mu + math.log(p)
                        want = clip_ref(math.exp(min(arg, 700.0)))
                        tol = min(1.0, 1e-9 + REL * sc_ * 1.0)
                    if not close(out[i], want, tol):
                        R.fail("viability differs from clip(logistic/exp of the modelled mean)",
                               {"row": i, "sample": int(sids[i]), "treatments": [int(t) for t in tids[i]], "got": out[i]}, want)
                        break
        R.tie("c09.%s %s %s %s" % (kind, what, theta_tok(kind, th), screen_toks(base)), out, scales, what, "whole")

    ok_whole = {w: v for w, v in whole.items() if not isinstance(v, str)}
    R.unsorted_prediction = any(v != sorted(v) for w, v in ok_whole.items() if w != "var")

    # ---- subsets, nested subsets, plates: entries of the whole, exactly -------------------------
    def same(a, b):
        return len(a) == len(b) and all((x == y) or (math.isnan(x) and math.isnan(y)) for x, y in zip(a, b))

    m1 = np.array(case["mask"], dtype=bool)
    if n and ok_whole:
        sub = base.subset(m1)
        views = [("subset", sub, np.where(m1)[0])]
        m2 = np.array(case["mask2"][: int(m1.sum())], dtype=bool)
        if len(m2) == int(m1.sum()):
            views.append(("nested subset", sub.subset(m2), np.where(m1)[0][m2]))
        views.append(("inverted subset", sub.invert(), np.where(~m1)[0]))
        for p in base.plates:
            views.append(("plate", p, np.where(np.asarray(base.plate_ids) == p.plate_id)[0]))
        # every row alone (at most 6), and -- when some sample brackets another one (A..B..A) -- exactly such a triple
        for i in list(range(n))[:3] + list(range(n))[-3:]:
            one = np.zeros(n, dtype=bool)
            one[i] = True
            views.append(("single-row subset", base.subset(one), np.array([i])))
        aba = aba_triple([int(x) for x in sids])
        if aba is not None:
            m3 = np.zeros(n, dtype=bool)
            m3[list(aba)] = True
            views.append(("A,B,A subset", base.subset(m3), np.where(m3)[0]))
        for name, v, idx in views:
            for what in ok_whole:
                got = R.call(th, what, v, base)
                want = [ok_whole[what][i] for i in idx]
                if isinstance(got, str) or not same(got, want):
                    R.fail("prediction on a %s differs from the corresponding entries of the whole screen" % name,
                           {"method": what, "rows": [int(i) for i in idx], "got": got if isinstance(got, str) else got[:8]}, want[:8],
                           signature="C09:subset-differs")
                    break
        # ---- row order: a screen with permuted rows -----------------------------------------
        perm = case["perm"]
        ps = build_screen(raw, rows=perm)
        for what in ok_whole:
            got = R.call(th, what, ps, ps)
            want = [ok_whole[what][i] for i in perm]
            if isinstance(got, str) or not same(got, want):
                R.fail("prediction depends on the row order", {"method": what, "perm": perm, "got": got if isinstance(got, str) else got[:8]}, want[:8])
        # tie on a subset as well (the model is applied to the subset's own rows)
        if m1.any():
            what = "mean" if "mean" in ok_whole else "var"
            got = R.call(th, what, sub, base)
            R.tie("c09.%s %s %s %s" % (kind, what, theta_tok(kind, th), screen_toks(sub)), got,
                  [scales[i] for i in np.where(m1)[0]] if scales else None, what, "subset")

    # ---- call order: a FRESH Screen object (its treatment_ids is the internal array, a plate's is a copy) is first
    #      used plate by plate, then as a whole, then plate by plate again; every result must be the corresponding
    #      entries of the whole-first run above, and no call may change the screen or the sample ------------------
    if n and ok_whole:
        fresh = build_screen(raw)
        pids = np.asarray(fresh.plate_ids).copy()
        for phase in ("plates before", "whole", "plates after"):
            if phase == "whole":
                targets = [(fresh, np.arange(n))]
            else:
                targets = [(pl, np.where(pids == pl.plate_id)[0]) for pl in fresh.plates]
            for v, idx in targets:
                for what in ok_whole:
                    got = R.call(th, what, v, fresh)
                    want = [ok_whole[what][i] for i in idx]
                    if isinstance(got, str) or not same(got, want):
                        R.fail("prediction depends on the order of calls (%s the whole-screen call on a fresh Screen)" % phase,
                               {"method": what, "rows": [int(i) for i in idx][:12], "got": got if isinstance(got, str) else got[:8]}, want[:8],
                               signature="C09:call-order")
                        break

    # ---- treatment order: swap the two columns -------------------------------------------------
    if arity == 2 and n and ok_whole:
        sw = build_screen(raw, tnames=[r[::-1] for r in raw["tnames"]], tdoses=[r[::-1] for r in raw["tdoses"]])
        for what in ok_whole:
            got = R.call(th, what, sw, sw)
            if isinstance(got, str) or len(got) != n or not all(close(got[i], ok_whole[what][i], tol_for(what, scales[i])) for i in range(n)):
                R.fail("swapping the two treatment columns changes the prediction",
                       {"method": what, "got": got if isinstance(got, str) else got[:8]}, ok_whole[what][:8], signature="C09:not-symmetric")
        # ---- control neutrality: pair with control == the single agent (arity-1 screen) -------
        ctl_rows = [i for i in range(n) if (tids[i] == -1).any()]
        if ctl_rows and kind == "sdc":
            one_n, one_d = [], []
            for i in ctl_rows:
                c = 1 if tids[i][0] == -1 else 0          # the non-control column (or column 1 when both are control)
                one_n.append([raw["tnames"][i][c]])
                one_d.append([raw["tdoses"][i][c]])
            full_n = [[""]] * n
            full_d = [[0.0]] * n
            for k, i in enumerate(ctl_rows):
                full_n[i], full_d[i] = one_n[k], one_d[k]
            single = build_screen(raw, tnames=full_n, tdoses=full_d, rows=ctl_rows, arity=1)
            for what in ok_whole:
                got = R.call(th, what, single, single)
                want = [ok_whole[what][i] for i in ctl_rows]
                if isinstance(got, str) or not all(close(g, w, tol_for(what, scales[i]) * 1e-3) for g, w, i in zip(got, want, ctl_rows)):
                    R.fail("a pair with control does not predict like the single agent",
                           {"method": what, "rows": ctl_rows, "pair": want[:8], "single": got if isinstance(got, str) else got[:8]},
                           "equal", signature="C09:control-not-neutral")
            if "mean" in ok_whole:
                for i in ctl_rows:
                    if (tids[i] == -1).all():
                        want = float(th.alpha) + float(th.W0[int(sids[i])])
                        if not close(ok_whole["mean"][i], want, 1e-12 * (abs(float(th.alpha)) + abs(float(th.W0[int(sids[i])])))):
                            R.fail("control/control row is not the intercept alone", {"row": i, "got": ok_whole["mean"][i]}, want,
                                   signature="C09:control-not-neutral")
        if ctl_rows and kind == "sdci" and "mean" in ok_whole:
            for i in ctl_rows:
                if ok_whole["mean"][i] != 0.0:
                    R.fail("interaction mean of a row with a control is not zero", {"row": i, "got": ok_whole["mean"][i]}, 0.0,
                           signature="C09:control-not-neutral")
                if "viab" in ok_whole:
                    c = 1 if tids[i][0] == -1 else 0
                    lk = th.single_effect_lookup
                    one = (int(sids[i]), int(tids[i][c]))
                    if lk.get((int(sids[i]), -1)) == 1.0 and one in lk:
                        want = clip_ref(lk[one])
                        if not close(ok_whole["viab"][i], want, 1e-12):
                            R.fail("interaction-model pair with control does not predict the (clipped) single-agent effect",
                                   {"row": i, "got": ok_whole["viab"][i]}, want, signature="C09:control-not-neutral")

    # ---- holders: stacked and averaged helpers ---------------------------------------------------
    declared = case["declared"]
    held = list(thetas[: case["held"]])
    holder = make_holder(held, declared)
    complete = len(held) >= declared
    per = {}
    for what in ("mean", "viab", "var"):
        per[what] = [R.call(t, what, base, base) for t in held[:declared]]
    # tolerance scale of the holder = the largest per-sample scale of each experiment
    if supported and in_range and n:
        try:
            scales = [max([ref_mean(kind, t, int(sids[i]), [int(x) for x in tids[i]])[1] for t in held[:declared]] + [0.0]) for i in range(n)]
        except (IndexError, KeyError):
            scales = None
    else:
        scales = None
    for what, fn_all, fn_avg in (("viab", mm.predict_viability_all, mm.predict_viability_avg),
                                 ("mean", mm.predict_mean_all, mm.predict_mean_avg),
                                 ("var", mm.predict_variance_all, None)):
        snaps = [snap_theta(kind, t) for t in held]
        b_sc = snap_screen(base)
        try:
            allp = fn_all(base, holder)
            allp_l = [[float(x) for x in r] for r in np.asarray(allp, dtype=float)]
            shape = tuple(np.asarray(allp).shape)
        except Exception as e:  # noqa
            allp_l = err_tok(e)
            shape = None
        avg = None
        if fn_avg is not None:
            try:
                with np.errstate(all="ignore"):
                    avg = [float(x) for x in fn_avg(base, holder)]
            except Exception as e:  # noqa
                avg = err_tok(e)
        if snaps_differ(snaps, [snap_theta(kind, t) for t in held], res) or snaps_differ(b_sc, snap_screen(base), res):
            R.fail("predict_*_all/avg mutated a sample or the screen", {"method": what}, "bit-identical before/after")
        rows_ok = all(not isinstance(p, str) for p in per[what]) and complete
        has_nan = rows_ok and any(math.isnan(x) for p in per[what] for x in p)
        if rows_ok and not has_nan and not (what == "var" and declared == 0):
            if isinstance(allp_l, str):
                R.fail("predict_%s_all raises although every sample predicts" % what, allp_l, "a matrix")
            else:
                if shape != (declared, n):
                    R.fail("predict_%s_all has wrong shape" % what, list(shape), [declared, n])
                elif any(not same(allp_l[i], per[what][i]) for i in range(declared)):
                    R.fail("row i of predict_%s_all is not sample i's prediction (holder order)" % what,
                           {"all": [r[:6] for r in allp_l[:4]]}, {"per_theta": [r[:6] for r in per[what][:4]]}, signature="C09:stack-rows")
            if fn_avg is not None and declared > 0:
                if isinstance(avg, str) or len(avg) != n:
                    R.fail("predict_%s_avg raises / wrong length although every sample predicts" % what, str(avg)[:200], "vector of length %d" % n)
                else:
                    for j in range(n):
                        col = [per[what][i][j] for i in range(declared)]
                        want = fsum(col) / declared
                        tol = 1e-12 * fsum(abs(x) for x in col) / declared + (REL * scales[j] * 1e-3 if scales else 0.0)
                        if not close(avg[j], want, tol):
                            R.fail("predict_%s_avg is not the mean over the samples" % what, {"experiment": j, "got": avg[j], "column": col[:6]}, want,
                                   signature="C09:avg-not-mean")
                            break
        # (incomplete holders, failing samples, NaN predictions: outside the quantifier -- the tie lines below compare them with the model)
        # the helpers on a subset / a plate: the corresponding COLUMNS of the helpers on the whole screen, exactly
        if n and not isinstance(allp_l, str) and shape == (declared, n) and declared > 0:
            views = [("subset", base.subset(m1), np.where(m1)[0])] if m1.any() else []
            pl0 = base.plates[0]
            views.append(("plate", pl0, np.where(np.asarray(base.plate_ids) == pl0.plate_id)[0]))
            for name, v, idx in views:
                b_sc = snap_screen(base)
                try:
                    sub_all = [[float(x) for x in r] for r in np.asarray(fn_all(v, holder), dtype=float)]
                except Exception as e:  # noqa
                    sub_all = err_tok(e)
                want = [[r[i] for i in idx] for r in allp_l]
                if isinstance(sub_all, str) or len(sub_all) != declared or any(not same(a, b) for a, b in zip(sub_all, want)):
                    R.fail("predict_%s_all on a %s is not the corresponding columns of predict_%s_all on the whole screen" % (what, name, what),
                           {"rows": [int(i) for i in idx][:12], "got": sub_all if isinstance(sub_all, str) else [r[:6] for r in sub_all[:3]]},
                           [r[:6] for r in want[:3]], signature="C09:helper-subset")
                if fn_avg is not None and not isinstance(avg, str) and len(avg) == n:
                    try:
                        with np.errstate(all="ignore"):
                            sub_avg = [float(x) for x in fn_avg(v, holder)]
                    except Exception as e:  # noqa
                        sub_avg = err_tok(e)
                    want = [avg[i] for i in idx]
                    if isinstance(sub_avg, str) or not same(sub_avg, want):
                        R.fail("predict_%s_avg on a %s is not the corresponding entries of predict_%s_avg on the whole screen" % (what, name, what),
                               {"rows": [int(i) for i in idx][:12], "got": sub_avg if isinstance(sub_avg, str) else sub_avg[:8]}, want[:8],
                               signature="C09:helper-subset")
                if snaps_differ(b_sc, snap_screen(base), res):
                    R.fail("predict_*_all/avg on a %s mutated the screen" % name, {"method": what}, "bit-identical before/after")
        hs = [theta_tok(kind, t) for t in held]
        hl = "c09.hold %s %%s %s %d %s %s" % (kind, what, declared, "-" if not hs else "/".join(hs), screen_toks(base))
        R.tie(hl % "all", allp_l, scales, what, "all", matrix=True)
        if fn_avg is not None:
            R.tie(hl % "avg", avg, scales, what, "avg")
    # ---- temporaries: views and holders that die right after the call (CPython reuses their addresses) ------------
    if n >= 2 and ok_whole and supported and in_range:
        run_temporaries(R, case, raw, kind, thetas)
    # ---- object reuse: after all those calls on other screens / sizes the SAME sample object still predicts the whole
    #      screen as it did at first, and as a fresh sample object built from the same values does ----------------
    if n and ok_whole:
        fresh_th = theta_from_case(kind, case["thetas"][0])
        for what in ok_whole:
            for who, t in (("the reused sample object", th), ("a fresh sample object", fresh_th)):
                got = R.call(t, what, base, base)
                if isinstance(got, str) or not same(got, ok_whole[what]):
                    R.fail("prediction of %s differs from the first prediction of the whole screen" % who,
                           {"method": what, "got": got if isinstance(got, str) else got[:8]}, ok_whole[what][:8], signature="C09:object-reuse")
    R.recheck_kept()
    return R


def run_gcz(rng, res, lines):
    """`copy_array_with_control_treatments_set_to_zero` alone: in-range and out-of-range ids, 1-d and 2-d"""
    from batchie.common import copy_array_with_control_treatments_set_to_zero as gcz
    n = rng.randint(0, 5)
    d = rng.choice([None, 0, 1, 2, 3])
    if d == 0 and n == 0:
        n = 1
    arr = np.array([[rand_value(rng, "grid" if rng.random() < .5 else "normal") for _ in range(1 if d is None else d)] for _ in range(n)], dtype=float)
    arr = arr.reshape(n) if d is None else arr.reshape(n, d)
    k = rng.randint(0, 7)
    # (numpy does not bounds-check integer-array indices when the result has zero size, e.g. D = 0: only in-range there)
    lo, hi = (-n - 1, n) if (rng.random() < 0.3 and d != 0) else (-1, n - 1)
    ts = [rng.choice([-1, rng.randint(min(lo, hi), max(lo, hi))]) for _ in range(k)]
    case = {"kind": "gcz", "arr": [fbits(x) for x in arr.reshape(-1)], "shape": list(arr.shape), "ts": ts}
    return run_gcz_case(case, res, lines)


def run_gcz_case(case, res, lines):
    from batchie.common import copy_array_with_control_treatments_set_to_zero as gcz
    arr = np.array([S.from_bits(b) for b in case["arr"]], dtype=float).reshape(case["shape"])
    ts = np.array(case["ts"], dtype=int)
    before = arr.tobytes()
    n = arr.shape[0]
    try:
        out = gcz(arr, ts)
    except Exception as e:  # noqa
        out = err_tok(e)
    if arr.tobytes() != before:
        res.fail("copy_array_with_control_treatments_set_to_zero mutated its source array", case, "source changed", "source unchanged",
                 signature="C09:gather-mutates")
    valid = all(-1 <= t < n for t in case["ts"]) and (n > 0 or not case["ts"])
    if valid:
        if isinstance(out, str):
            res.fail("gather raises on in-range ids", case, out, "array")
        else:
            for i, t in enumerate(case["ts"]):
                want = np.zeros(arr.shape[1:]) if t == -1 else arr[t]
                if np.asarray(out[i]).tobytes() != np.asarray(want, dtype=float).tobytes():
                    res.fail("gathered cell is not (0 if id == -1 else arr[id])", case, {"i": i, "got": np.asarray(out[i]).tolist()},
                             np.asarray(want).tolist(), signature="C09:gather-wrong")
                    break
            if out.shape != (len(case["ts"]),) + arr.shape[1:]:
                res.fail("gather has wrong shape", case, list(out.shape), [len(case["ts"])] + list(arr.shape[1:]))
    # (ids < -1 or >= len: malformed input, compared with the model below, never a replay)
    if lines is not None:
        tt = "-" if not case["ts"] else ",".join(str(t) for t in case["ts"])
        if arr.ndim == 1:
            impl = out if isinstance(out, str) else [float(x) for x in out]
            lines.append(("c09.gcz1 %s %s" % (vec_tok(arr), tt), impl, None, "bits", "gcz1", False, case))
        else:
            impl = out if isinstance(out, str) else [[float(x) for x in r] for r in out]
            lines.append(("c09.gcz2 %s %s" % (mat_tok(arr), tt), impl, None, "bits", "gcz2", True, case))


HOLDER_SIZES = [15, 16, 17, 20, 31, 32, 33, 40, 65]     # straddling the usual blocking factors 16 / 32 / 64 (and > 8)


def gen_bigholder(rng, idx, size):
    """a LARGE holder (samples that really differ) on a tiny screen: reductions over posterior samples done in blocks,
    chunks or pairwise fashion change code path at these sizes"""
    model = "sdc" if rng.random() < 0.6 else "sdci"
    arity = 2 if model == "sdci" else rng.choice([1, 2, 2])
    n_s, n_t = rng.randint(1, 3), rng.randint(1, 3)
    raw = gen_raw(rng, arity, n_s, n_t, n_max=5)
    while len(raw["snames"]) < 2:
        raw = gen_raw(rng, arity, n_s, n_t, n_max=5)
    d = rng.choice([1, 2])
    thetas = [gen_theta_case(rng, model, n_s, n_t, "normal", d=d) for _ in range(size)]
    n = len(raw["snames"])
    mask = [rng.random() < 0.5 for _ in range(n)]
    if not any(mask):
        mask[rng.randrange(n)] = True
    return {"kind": "bigholder", "model": model, "idx": idx, "size": size, "raw": raw, "thetas": thetas, "mask": mask,
            "verbose": size in (16, 17, 33, 65)}


def run_bigholder(case, res, lines):
    return with_verbose(case, res, lambda: _run_bigholder(case, res, lines))


def _run_bigholder(case, res, lines):
    from batchie.core import ThetaHolder
    from batchie.models import main as mm
    model = case["model"]
    thetas = [theta_from_case(model, c) for c in case["thetas"]]
    L = len(thetas)
    base = build_screen(case["raw"])
    n = base.size
    holder = make_holder(thetas)
    sel = np.array(case["mask"], dtype=bool)
    idx_sel = np.where(sel)[0]
    sids, tids = np.asarray(base.sample_ids), np.asarray(base.treatment_ids)

    def fail(what, observed, required, sig):
        res.fail(what, case, observed, required, signature=sig)

    for what, fn_all, fn_avg in (("mean", mm.predict_mean_all, mm.predict_mean_avg), ("viab", mm.predict_viability_all, mm.predict_viability_avg),
                                 ("var", mm.predict_variance_all, None)):
        try:
            with np.errstate(all="ignore"):
                per = [[float(x) for x in np.asarray(getattr(t, METHODS[what])(base), dtype=float)] for t in thetas]
        except Exception as e:  # noqa
            fail("a sample of a large holder does not predict a valid tiny screen", repr(e)[:200], "predictions", "C09:big-holder")
            return
        if any(math.isnan(x) for p in per for x in p):
            continue
        scales = None
        if what != "var":
            scales = [max(ref_mean(model, t, int(sids[i]), [int(x) for x in tids[i]])[1] for t in thetas) for i in range(n)]
        for view_name, view, idx in (("whole screen", base, np.arange(n)), ("subset", base.subset(sel), idx_sel)):
            try:
                with np.errstate(all="ignore"):
                    allp = np.asarray(fn_all(view, holder), dtype=float)
                    avg = None if fn_avg is None else [float(x) for x in fn_avg(view, holder)]
            except Exception as e:  # noqa
                fail("predict_%s_all/avg raises for a holder of %d samples" % (what, L), repr(e)[:200], "a result", "C09:big-holder")
                break
            want_rows = [[p[i] for i in idx] for p in per]
            if allp.shape != (L, len(idx)) or any([fbits(x) for x in allp[k]] != [fbits(x) for x in want_rows[k]] for k in range(L)):
                bad = next((k for k in range(min(L, allp.shape[0])) if [fbits(x) for x in allp[k]] != [fbits(x) for x in want_rows[k]]), None)
                fail("row i of predict_%s_all is not sample i's prediction for a holder of %d samples (%s)" % (what, L, view_name),
                     {"shape": list(allp.shape), "first_bad_row": bad}, {"shape": [L, len(idx)]}, "C09:stack-rows")
            if avg is not None:
                if len(avg) != len(idx):
                    fail("predict_%s_avg has the wrong length for a holder of %d samples" % (what, L), len(avg), len(idx), "C09:avg-not-mean")
                    continue
                for j, i in enumerate(idx):
                    col = [p[i] for p in per]
                    want = fsum(col) / L
                    tol = 1e-11 * fsum(abs(x) for x in col) / L + 1e-300
                    if not close(avg[j], want, tol):
                        fail("predict_%s_avg is not the mean over the %d samples of the holder (%s)" % (what, L, view_name),
                             {"experiment": int(i), "got": avg[j], "first_values": col[:4]}, want, "C09:avg-not-mean")
                        break
            if lines is not None and view is base:
                hl = "c09.hold %s %%s %s %d %s %s" % (model, what, L, "/".join(theta_tok(model, t) for t in thetas), screen_toks(base))
                lines.append((hl % "all", [[float(x) for x in r] for r in allp], scales, what, "bigholder.all", True, case))
                if avg is not None:
                    lines.append((hl % "avg", avg, scales, what, "bigholder.avg", False, case))


def gen_case(rng, idx):
    kind = "sdc" if rng.random() < 0.6 else "sdci"
    n_s = rng.randint(1, 4)
    n_t = rng.choice([0, 1, 2, 3, 4, 5, 6]) if rng.random() < 0.9 else 1
    if rng.random() < 0.08:
        n_s, n_t = 11, rng.choice([11, 12])     # two-digit names: "s10" < "s2", "t10" < "t2" in the mapping order
    if kind == "sdc":
        arity = rng.choice([1, 2, 2, 2, 2, 3]) if rng.random() < 0.9 else 2
    else:
        arity = rng.choice([2, 2, 2, 2, 2, 2, 1, 3])
    wide = rng.random() < 0.1
    if wide:
        n_s, n_t = 2, 258
        arity = 2 if rng.random() < 0.8 else arity
    raw = gen_raw(rng, arity, n_s, n_t, n_max=12) if not wide else gen_raw(rng, arity, n_s, n_t, n_max=16)
    if wide:
        widen_ids(rng, raw)
    n = len(raw["snames"])
    n_th = rng.choice([0, 1, 2, 3, 4]) if not wide else rng.choice([1, 2])
    regime = rng.choice(["normal", "normal", "normal", "tiny", "large", "mixed", "grid", "clipedge", "clipedge"])
    short = rng.random() < 0.1      # theta with one treatment row too few -> IndexError when that id occurs
    if wide:
        short = False
    thetas = [gen_theta_case(rng, kind, n_s, max(n_t - (1 if short else 0), 0), regime, d=(rng.choice([1, 2]) if wide else None))
              for _ in range(max(n_th, 1))]
    if (short or n_t == 0) and any(t["D"] == 0 for t in thetas):
        # numpy skips the bounds check when the gathered rows are empty (D = 0); keep ids in range there
        short = False
        thetas = [gen_theta_case(rng, kind, n_s, n_t, regime) for _ in range(max(n_th, 1))]
        for t in thetas:
            if t["D"] == 0 and n_t == 0:
                t["D"] = 1
                t["W"] = [[fbits(0.5)] for _ in range(n_s)]
    dropped = False
    if kind == "sdci" and rng.random() < 0.06 and thetas[0]["lookup"]:
        thetas[0]["lookup"].pop(rng.randrange(len(thetas[0]["lookup"])))
        dropped = True
    held = n_th
    declared = n_th if rng.random() < 0.9 else n_th + 1
    perm = list(range(n))
    rng.shuffle(perm)
    tmp_masks = []
    if n >= 2:
        k = rng.randint(1, n - 1)
        for _ in range(4):
            chosen = set(rng.sample(range(n), k))
            tmp_masks.append([i in chosen for i in range(n)])
    return {"kind": kind, "idx": idx, "raw": raw, "thetas": thetas, "held": held, "declared": declared, "tmp_masks": tmp_masks,
            "verbose": (idx % 6 == 0) or bool(raw.get("wide")),
            "mask": [rng.random() < 0.5 for _ in range(n)], "mask2": [rng.random() < 0.6 for _ in range(n)], "perm": perm,
            "short_theta": short, "dropped_key": dropped}


def describe(case):
    raw = case["raw"]
    return {"kind": case["kind"], "arity": raw["arity"], "rows": len(raw["snames"]), "n_samples": raw["n_s"], "n_treatments": raw["n_t"],
            "D": case["thetas"][0]["D"], "regime": case["thetas"][0]["regime"], "holder": [case["held"], case["declared"]]}


def compare_tie(res, entry, got_line):
    line, impl, scales, what, where, matrix, case = entry
    model = parse_out(got_line, matrix)
    small = {"kind": case.get("kind"), "idx": case.get("idx"), "where": where, "line": line[:300]}
    if isinstance(impl, str) or isinstance(model, str):
        if impl != model:
            res.disagree("c09." + where, small, impl if isinstance(impl, str) else "value", model if isinstance(model, str) else "value")
        return
    a = impl if matrix else [impl]
    b = model if matrix else [model]
    if len(a) != len(b) or any(len(x) != len(y) for x, y in zip(a, b)):
        res.disagree("c09." + where, small, [len(x) for x in a], [len(x) for x in b])
        return
    for ra, rb in zip(a, b):
        for j, (x, y) in enumerate(zip(ra, rb)):
            if what == "bits":
                ok = fbits(x) == fbits(y)
            else:
                sc = scales[j] if scales else 0.0
                ok = close(x, y, tol_for(what, sc) if what != "var" else 1e-15 * abs(x))
                if what == "viab" and case.get("kind") == "sdci":
                    ok = close(x, y, min(1.0, 1e-9 + REL * sc))
            if not ok:
                res.disagree("c09." + where, small, {"j": j, "impl": x}, {"j": j, "model": y})
                return


def run(ctx, res):
    import warnings
    with warnings.catch_warnings(), np.errstate(all="ignore"):
        warnings.simplefilter("ignore")
        _run(ctx, res)


def _run(ctx, res):
    res.rule = RULE
    rng = ctx.subrng("c09")
    n_cases = ctx.scale(200, 4000, 2000)
    lines = [] if ctx.driver is not None else None
    for i in range(ctx.scale(150, 2000, 1000)):
        run_gcz(ctx.subrng("gcz", i), res, lines)
        res.evaluations += 1
        res.count("gather")
    for rnd in range(ctx.scale(1, 6, 3)):
        for size in HOLDER_SIZES:
            case = gen_bigholder(ctx.subrng("bigholder", rnd, size), rnd * 1000 + size, size)
            run_bigholder(case, res, lines)
            res.evaluations += 1
            res.count("class.size.holder_%d" % size)
            if case["verbose"]:
                res.count("class.verbose-logging")
            res.count("class.size.holder_15_to_65.%s" % case["model"])
    for i in range(n_cases):
        case = gen_case(ctx.subrng("case", i), i)
        R = run_case(case, res, lines)
        res.evaluations += 1
        d = describe(case)
        raw = case["raw"]
        res.count("kind.%s" % d["kind"])
        res.count("arity.%d" % d["arity"])
        res.count("regime.%s" % d["regime"])
        res.count("holder.%d" % case["held"])
        if case["declared"] > case["held"]:
            res.count("holder.incomplete")
        if case["short_theta"]:
            res.count("theta.too_small")
        res.count("theta.layout.%s" % case["thetas"][0].get("layout", "c"))
        if case["verbose"]:
            res.count("class.verbose-logging")
            if R.unsorted_prediction:
                res.count("class.verbose-logging.predictions_not_ascending")
        for kk, aa, side in R.clip:
            res.count("class.boundary.clip.%s_arity%d.%s" % (kk, aa, side))
        if R.instalments:
            res.count("class.instalments.holder_add_theta_combine")
        if R.tmp_id_reuse is not None:
            res.count("class.temporaries")
            if R.tmp_id_reuse:
                res.count("class.temporaries.address_reuse_observed")
        lay0 = case["thetas"][0].get("layout", "c")
        sid_l = [int(x) for x in build_screen(raw).sample_ids] if d["rows"] else []
        tid_a = np.asarray(build_screen(raw).treatment_ids) if d["rows"] else np.zeros((0, d["arity"]), dtype=int)
        ok_ar = (d["arity"] in (1, 2)) if d["kind"] == "sdc" else d["arity"] == 2
        if d["rows"] and ok_ar:
            res.count("class.object_reuse")            # same sample object / holder on whole, subsets, plates, other screens, whole again
            res.count("class.input_mutation_aliasing")  # deep snapshots around every call, shares_memory, re-read of earlier results
            res.count("class.attribute_completeness")   # snapshots enumerate vars(theta) / vars(screen)
        if lay0 != "c" and ok_ar and d["rows"]:
            res.count("class.memory_layout")
        if raw.get("suffix") and d["rows"]:
            res.count("class.long_names")
        if ok_ar and d["rows"]:
            used = set(int(x) for x in tid_a.reshape(-1)) - {-1}
            if raw.get("enc"):
                res.count("class.encoding.permuted")
            if used and used != set(range(len(used))):
                res.count("class.encoding.id_gaps")
            if d["arity"] == 2 and not (tid_a == -1).any():
                res.count("class.encoding.no_control")
            if any(nm == "control" and ds > 0 for rn, rd in zip(raw["tnames"], raw["tdoses"]) for nm, ds in zip(rn, rd)):
                res.count("class.encoding.named_control_positive_dose")
            if aba_triple(sid_l) is not None:
                res.count("class.row_order.sample_ABA")
                if len(sid_l) >= 3 and sid_l[0] == sid_l[-1] and any(x != sid_l[0] for x in sid_l[1:-1]):
                    res.count("class.row_order.sample_ABA_whole_screen")
            if len(set(raw["pnames"])) > 1 and any(raw["pnames"][k] != raw["pnames"][k + 1] and raw["pnames"][k] in raw["pnames"][k + 2:]
                                                   for k in range(len(raw["pnames"]) - 2)):
                res.count("class.row_order.plates_interleaved")
            if 0 in sid_l and 0 in used:
                res.count("class.falsy.id0")
            if raw["n_s"] >= 11:
                res.count("class.size.two_digit_names")
            if raw.get("wide") and used & {127, 128, 255, 256, 257}:
                res.count("class.boundary.ids_127_128_255_256_257")
                if d["arity"] == 2 and all({256, 257} & set(int(x) for x in tid_a[:, c]) for c in (0, 1)):
                    res.count("class.boundary.ids_above_255_in_both_columns")
            if d["D"] >= 8:
                res.count("class.size.D_ge_8")
        if d["rows"] <= 1 or case["held"] <= 1 or d["D"] == 0:
            res.count("class.falsy.n0_n1_k0_k1_D0")
        if raw.get("enc"):
            res.count("screen.nondefault_encoding")
        if raw.get("mask") is not None and not all(raw["mask"]):
            res.count("screen.partially_observed")
        if d["arity"] == 2 and d["rows"] >= 3:
            b = build_screen(raw)
            t = np.asarray(b.treatment_ids)
            th0 = case["thetas"][0]
            if (t == -1).any() and th0["V2"] and any(S.from_bits(x) != 0.0 for x in th0["V2"][-1]) \
                    and (d["kind"] == "sdci" or (S.from_bits(th0["V0"][-1]) != 0.0 and any(S.from_bits(x) != 0.0 for x in th0["V1"][-1]))):
                res.count("control_with_nonzero_last_theta_row")
            c0 = bool(((t[:, 0] == -1) & (t[:, 1] != -1)).any())
            c1 = bool(((t[:, 1] == -1) & (t[:, 0] != -1)).any())
            both = bool(((t == -1).all(axis=1)).any())
            full = bool(((t != -1).all(axis=1)).any())
            if both:
                res.count("rows.control_control")
            if c0:
                res.count("rows.control_col0_only")
            if c1:
                res.count("rows.control_col1_only")
            if c0 and c1 and full:
                res.nontrivial.add((d["kind"], i))
                res.count("nontrivial")
        res.sample(dict(d, first_rows=[[raw["snames"][k], raw["tnames"][k], raw["tdoses"][k]] for k in range(min(3, d["rows"]))]))
        res.traces_validated += 1
    if lines:
        outs = ctx.driver.ask([e[0] for e in lines])
        for e, o in zip(lines, outs):
            compare_tie(res, e, o)
        res.count("tie_lines", len(lines))


def replay(ctx, case, res):
    import warnings
    warnings.simplefilter("ignore")
    if case.get("kind") == "gcz":
        run_gcz_case(case, res, None)
    elif case.get("kind") == "bigholder":
        run_bigholder(case, res, None)
    else:
        run_case(case, res, None)
