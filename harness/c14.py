"""C14 -- Subset and plate views are exact row selections with set-algebra semantics.

Tie: random expression trees of view operations (Model/ViewExpr.lean) are evaluated by the Lean driver (`vexpr`, `vscreen`)
and by the real ScreenSubset / Plate objects; selection vectors and every per-experiment attribute are compared.
Oracle (on the implementation alone): every node's selection equals an independently computed set-algebra value, every
attribute equals "parent rows at the selected positions", outer views are re-read after every operation (aliasing),
to_screen rows, unique filter keeps exactly one row per condition, foreign views refuse to combine / concat.
"""
import random

import numpy as np

from vlib import common
from harness import screens as S
from harness import c01c14_common as G

common.use_repo_sources()

import logging

logging.getLogger("batchie").setLevel(logging.ERROR)     # "Could not create single treatment effects array." on every None

RULE = ("random screens (1-14 rows quick / 1-30 thorough, arity 1-3, small name/dose/sample pools so that conditions repeat, plate-uniform "
        "masks) x random expression trees (depth <= 4 quick / <= 8 thorough) over subset / observed / unobserved / plate / nested subset / "
        "invert / combine / concat(k=0..4) / unique filter / foreign-screen leaves, masks empty, full, random; every subtree is sent to the model. "
        "Selection masks are handed over in random memory layouts (contiguous, strided, negative stride, read-only) and must be left unchanged; after every "
        "operation every earlier view's selection vector and, at the end, every earlier view's attributes are re-read. The unique filter is also applied to the "
        "screen itself, and select_unique_zipped_numpy_arrays is run directly on random id columns (control sentinel -1, all-control columns, "
        "sentinel/maximum pairs that collide under mixed-radix packing, strided column slices) against the model's `uniq`. "
        "Every property of the view's class is found by introspection and compared: per-experiment arrays (incl. single_treatment_effects) with the parent's "
        "rows at the selection, derived scalars/sets (size, n_plates, unique_*, n_unique_*, treatment_arity, is_observed, *_space_size, plate_id, plate_name) with "
        "their value recomputed from the parent's selected rows, mappings/control name with the parent's objects; 35% of the screens have replicated "
        "monotherapy rows spread over plates (effects array non-None), with combination-only / monotherapy-only / one-replicate-missing selections. "
        "40% of the parents with >= 2 plates went through 1-3 in-place Plate.merge calls (any pair of equally observed plates, merged plates again; the stored "
        "plate mapping is then stale): views, attributes, derived properties and to_screen (rows incl. the plate name per row; plate ids of the materialised "
        "screen decode to those names) are checked against the parent's rows AFTER the merges, which is also what the model is given. "
        "Checklist classes generated in every run: class.temporaries (attributes / to_screen / unique filter read from temporary get_plate(p) / subset(m) "
        "views of equal size, only the value kept), class.instalments (subset(m1).subset(m2) = subset(composed); a.combine(b).combine(c) = concat([a,b,c]) = "
        "subset(union), on every property by introspection and after to_screen), class.int-width (parents with 127/128/255/256/257 plates and treatment ids: "
        "all plates, rows with large ids, unique filter, to_screen). Only clauses of the property text can make the check fail; derived scalar properties, mappings reported by views, exception classes, "
        "the None-for-empty convention, malformed masks / columns and values owned by other properties are compared with model and reference and reported as "
        "ADVISORIES (res.advise), which never affect the result. "
        "Non-trivial: tree with >= 3 operations incl. a nested subset or unique filter, evaluated without error on a screen of >= 3 rows.")

ATTRS = ["plate_ids", "sample_ids", "treatment_ids", "sample_names", "treatment_names", "treatment_doses", "observations", "observation_mask"]


# properties of a view whose value is derived from its rows (recomputed by the oracle from the parent's selected rows);
# every OTHER property found by introspection on the view's class must be a per-experiment array (parent's rows at the
# selection), the parent's object itself (mappings, control name), None where the parent's is None, or raise what the parent's raises
DERIVED = ("size", "n_plates", "unique_plate_ids", "unique_sample_ids", "unique_treatments", "n_unique_samples", "n_unique_treatments",
           "treatment_arity", "is_observed", "sample_space_size", "treatment_space_size", "plate_id", "plate_name")
SHARED = ("treatment_mapping", "sample_mapping", "plate_mapping", "control_treatment_name")


def prop_names(obj):
    names = set()
    for k in type(obj).__mro__:
        for n, o in vars(k).items():
            if isinstance(o, property):
                names.add(n)
    return sorted(names)


def canon(x):
    """canonical python value: arrays -> nested lists, floats -> bit patterns"""
    if isinstance(x, np.ndarray):
        return [canon(e) for e in x]
    if isinstance(x, (float, np.floating)):
        return ("f", S.bits(x))
    if isinstance(x, np.generic):
        return x.item()
    if isinstance(x, (list, tuple)):
        return [canon(e) for e in x]
    return x


def read_prop(obj, name):
    try:
        return ("ok", getattr(obj, name))
    except Exception as e:      # noqa: BLE001
        return ("raises", type(e).__name__)


def ste_of_rows(sids, tids, obs):
    """single_treatment_effects recomputed from the given rows alone (independent of batchie): None when a (sample, treatment)
    of some row has no monotherapy row among them; 'ValueError' for arity < 2; else rows of floats"""
    if not tids:
        a = None
    else:
        a = len(tids[0])
    if a is not None and a < 2:
        return "ValueError"
    mono = {}
    for s_, row, o in zip(sids, tids, obs):
        if sum(1 for t in row if t == -1) == len(row) - 1:
            mono.setdefault((s_, max(row)), []).append(o)
    out = []
    for s_, row in zip(sids, tids):
        r = []
        for t in row:
            if t == -1:
                r.append(1.0)
            elif (s_, t) in mono:
                v = mono[(s_, t)]
                r.append(sum(v) / len(v))
            else:
                return None
        out.append(r)
    return out


def ste_close(a, b):
    if a is None or b is None or isinstance(a, str) or isinstance(b, str):
        return a == b
    if len(a) != len(b):
        return False
    def close(p, q):
        if p != p or q != q:
            return p != p and q != q            # NaN observations (load-path class): NaN where the reference is NaN
        if p in (float("inf"), float("-inf")) or q in (float("inf"), float("-inf")):
            return p == q
        return abs(p - q) <= 1e-9 * max(1.0, abs(p), abs(q))
    return all(len(x) == len(y) and all(close(p, q) for p, q in zip(x, y)) for x, y in zip(a, b))


def soft(res, where, case, impl, ref):
    """Behaviour the property TEXT does not state -- derived scalar properties, mappings reported by views, exception classes, the None-for-empty
    convention, malformed masks / columns, values owned by other properties (Plate.merge, the effect means) -- differs from the reference: an
    ADVISORY (res.advise), printed and written into the evidence; it never makes the check fail."""
    if res is None:
        return
    res.advise("outside the text of C14: " + where, case, str(impl)[:600], str(ref)[:600], signature="C14:ext:" + where)


class Absent(Exception):
    """subset_observed()/subset_unobserved() returned None"""


def err_tok(e):
    if isinstance(e, Absent):
        return "err:KeyError"
    return S.err_tok(e)


# ---------------------------------------------------------------- canonical text of a real view

def show_view(v):
    tids = np.asarray(v.treatment_ids)
    return ("ok sel=" + S.sel_tok(v.selection_vector)
            + "|tn=" + S.lst((S.lst(S.name_tok(str(x)) for x in r) for r in v.treatment_names), ";")
            + "|td=" + S.lst((S.lst(S.dose_tok(x) for x in r) for r in v.treatment_doses), ";")
            + "|sn=" + S.lst(S.name_tok(str(x)) for x in v.sample_names)
            + "|pn=" + S.lst(S.name_tok(str(x)) for x in v.screen.plate_names[v.selection_vector])
            + "|obs=" + S.lst(str(S.bits(x)) for x in v.observations)
            + "|mask=" + S.lst("1" if b else "0" for b in v.observation_mask)
            + "|tids=" + S.lst((S.show_ids(r) for r in tids), ";")
            + "|sids=" + S.show_ids(v.sample_ids) + "|pids=" + S.show_ids(v.plate_ids))


def derived_view_tok(v):
    """derived properties of a real view, as the model's `vderived` prints them"""
    try:
        pid = str(int(v.plate_id)) if hasattr(v, "plate_id") else None
    except Exception as e:      # noqa: BLE001
        pid = S.err_tok(e)
    if pid is None:             # plain ScreenSubset: no plate_id property; the model's value is checked on Plate objects only
        ids = sorted(set(int(x) for x in v.plate_ids))
        pid = str(ids[0]) if len(ids) == 1 else "err:ValueError"
    try:
        e_ = v.single_treatment_effects
        ste = "none" if e_ is None else "arr"
    except Exception as e:      # noqa: BLE001
        ste = S.err_tok(e)
    return ("ok size=%d|arity=%d|np=%d|up=%s|us=%s|ut=%s|nus=%d|nut=%d|obs=%s|sss=%d|tss=%d|pid=%s|ste=%s" % (
        int(v.size), int(v.treatment_arity), int(v.n_plates), S.show_ids(v.unique_plate_ids), S.show_ids(v.unique_sample_ids),
        S.show_ids(v.unique_treatments), int(v.n_unique_samples), int(v.n_unique_treatments), "1" if bool(v.is_observed) else "0",
        int(v.sample_space_size), int(v.treatment_space_size), pid, ste))


def rpn(tree):
    op = tree[0]
    if op in ("S", "F"):
        return [op + S.sel_tok(tree[1])]
    if op in ("o", "u"):
        return [op]
    if op == "p":
        return ["p%d" % tree[1]]
    if op == "s":
        return rpn(tree[1]) + ["s" + S.sel_tok(tree[2])]
    if op in ("i", "q"):
        return rpn(tree[1]) + [op]
    if op == "c":
        return rpn(tree[1]) + rpn(tree[2]) + ["c"]
    if op == "n":
        out = []
        for t in tree[1]:
            out += rpn(t)
        return out + ["n%d" % len(tree[1])]
    raise ValueError(op)


def n_ops(tree):
    op = tree[0]
    if op in ("S", "F", "o", "u", "p"):
        return 1
    if op in ("s", "i", "q"):
        return 1 + n_ops(tree[1])
    if op == "c":
        return 1 + n_ops(tree[1]) + n_ops(tree[2])
    return 1 + sum(n_ops(t) for t in tree[1])


def has_nested(tree):
    op = tree[0]
    if op in ("s", "q"):
        return True
    if op == "i":
        return has_nested(tree[1])
    if op == "c":
        return has_nested(tree[1]) or has_nested(tree[2])
    if op == "n":
        return any(has_nested(t) for t in tree[1])
    return False


# ---------------------------------------------------------------- evaluation on the real code + oracle

def build_parent(raw):
    """the parent screen of a case: Screen(...) from the raw rows, then the recorded in-place Plate.merge calls
    (plate ids at the time of each call); merge rewrites screen.plate_names and re-encodes the plate ids but leaves the
    stored plate mapping stale"""
    s = S.build(raw)
    for a, b in raw.get("merges") or []:
        s.get_plate(int(a)).merge(s.get_plate(int(b)))
    for st in raw.get("steps") or []:
        # item 23: public-API calls that leave a plate PARTLY observed (the constructor refuses such screens)
        if st[0] == "merge":
            s.get_plate(int(st[1])).merge(s.get_plate(int(st[2])))
        else:
            s.set_observed(np.array(st[1], dtype=bool), np.array(st[2], dtype=float))
    if raw.get("via_h5"):
        # item 19, load path: the parent is what Screen.load_h5 returns for the saved rows (under DEBUG logging for the verbose slice)
        import shutil
        import tempfile
        from batchie.data import Screen
        d = tempfile.mkdtemp(prefix="c14_")
        try:
            s.save_h5(d + "/p.h5")
            with G.vctx(raw.get("via_h5") == "verbose"):
                s = Screen.load_h5(d + "/p.h5")
        finally:
            shutil.rmtree(d, ignore_errors=True)
    return s


def gen_merges(rng, raw):
    """1-3 merges of two plates with the same observed status (any pair: into the first / a middle / the last name, merged plates again)"""
    s = S.build(raw)
    merges = []
    for _ in range(rng.randint(1, 3)):
        ids = [int(x) for x in s.unique_plate_ids]
        status = {q: bool(s.observation_mask[s.plate_ids == q][0]) for q in ids}
        pairs = [(a, b) for a in ids for b in ids if a != b and status[a] == status[b]]
        if not pairs:
            break
        a, b = rng.choice(pairs)
        s.get_plate(a).merge(s.get_plate(b))
        merges.append([a, b])
    return merges


def effective_raw(raw):
    """the rows of the parent as they are after the merges (what the model is given)"""
    if not raw.get("merges"):
        return raw
    s = build_parent(raw)
    r = dict(raw, pnames=[str(x) for x in s.plate_names])
    r.pop("merges")
    return r


class Eval:
    """evaluates a tree on the real objects; after every operation re-reads every view created so far"""

    def __init__(self, raw, res=None, case=None, lseed=0):
        self.raw = raw
        self.screen = build_parent(raw)
        self.foreign = None
        self.res = res
        self.case = case
        self.lrng = random.Random(lseed)
        self.inputs = []        # (mask array handed to the code, its values when handed over)
        self.live = []          # (view, snapshot of its selection vector, expected selection (python list))
        self.nodes = []         # (tree, canonical output) per evaluated subtree, post-order
        n = len(raw["snames"])
        # parent attributes, copied once (python lists -> independent of numpy boolean indexing)
        s = self.screen
        self.parent = {a: [x for x in np.asarray(getattr(s, a)).tolist()] for a in ATTRS}
        self.parent["observations"] = [S.bits(x) for x in s.observations]
        self.parent["plate_names"] = [str(x) for x in s.plate_names]
        self.n = n
        if raw.get("via_h5"):
            saved = [S.bits(x) for x in raw["obs"]]
            if self.parent["observations"] != saved or self.parent["observation_mask"] != [bool(b) for b in raw["mask"]]:
                self.soft("load:observations-rewritten", self.parent["observations"][:12], saved[:12])      # persistence of the rows is C02's
        if raw.get("merges"):
            order = sorted(set(self.parent["plate_names"]))
            if self.parent["plate_ids"] != [order.index(x) for x in self.parent["plate_names"]]:
                self.soft("merged-parent:plate-ids", self.parent["plate_ids"], [order.index(x) for x in self.parent["plate_names"]])    # Plate.merge: C13
        self.pvals = {name: read_prop(s, name) for name in prop_names(s) if name != "plates"}
        self.obs_f = [float(x) for x in s.observations]
        # independent check of the parent's own single-treatment effects (tolerance: a mean is computed)
        st, val = self.pvals.get("single_treatment_effects", ("ok", None))
        mine = ste_of_rows(self.parent["sample_ids"], self.parent["treatment_ids"], self.obs_f)
        got = val.tolist() if (st == "ok" and val is not None) else (None if st == "ok" else val)
        if n and not ste_close(got, mine):
            self.soft("ste:parent", got, mine)      # the VALUE of the parent's effects is not C14's; that a view reports the parent's rows is
        self.ste_kind = "none" if got is None else "raises" if isinstance(got, str) else "array"

    def soft(self, where, impl, ref):
        soft(self.res, where, self.case, impl, ref)

    def fail(self, what, observed, required, signature=None):
        if self.res is not None:
            self.res.fail(what, self.case, observed, required, signature=signature or ("C14:" + what))

    def mask(self, lst):
        """a boolean mask array with the given values in a random memory layout; remembered so that it can be re-read later"""
        a = np.array(lst, dtype=bool)
        how = self.lrng.choice(["c", "c", "strided", "neg", "readonly", "offset"])
        if how == "strided":
            big = np.ones(2 * len(a) + 1, dtype=bool)
            big[1::2] = a
            a = big[1::2]
        elif how == "neg":
            a = np.ascontiguousarray(a[::-1])[::-1]
        elif how == "readonly":
            a.setflags(write=False)
        elif how == "offset":
            big = np.zeros(len(a) + 3, dtype=bool)
            big[2:2 + len(a)] = a
            a = big[2:2 + len(a)]
        self.inputs.append((a, [bool(b) for b in lst]))
        return a

    def check_alias(self, after):
        for (a, vals) in self.inputs:
            if [bool(b) for b in a] != vals:
                self.fail("a selection mask handed to a view operation was changed in place", {"after": after, "now": [bool(b) for b in a]}, vals,
                          signature="C14:input-mask-mutated")
                return False
        for (v, snap, _exp) in self.live:
            cur = [bool(b) for b in v.selection_vector]
            if cur != snap:
                self.fail("an existing view's selection vector changed after a later operation", {"after": after, "now": cur}, snap,
                          signature="C14:aliasing")
                return False
        if [bool(b) for b in self.screen.observation_mask] != self.parent["observation_mask"]:
            self.fail("parent mask changed by a view operation", after, "unchanged")
        return True

    def recheck_all(self):
        """views used AFTER further operations: every earlier view still reports the parent's rows at its (unchanged) selection"""
        for (v, snap, exp) in self.live:
            if v.screen is self.screen:
                self.check_view(["after"], v, snap)

    def check_view(self, tree, v, exp):
        """oracle: selection == set-algebra value; attributes == parent rows at the selected positions, in order"""
        sel = [bool(b) for b in v.selection_vector]
        if len(sel) != self.n:
            self.fail("selection vector does not have the parent's length", len(sel), self.n)
            return
        if exp is not None and sel != exp:
            self.fail("selection differs from the set-algebra value of the expression", {"op": tree[0], "sel": sel}, exp,
                      signature="C14:selection:" + tree[0])
            return
        idx = [i for i, b in enumerate(sel) if b]
        if v.size != len(idx):
            self.fail("view.size is not the number of selected rows", v.size, len(idx))
        if not self.check_props(v, idx):
            return
        if v.treatment_mapping is not self.screen.treatment_mapping and v.screen is self.screen:
            self.soft("shared:treatment_mapping-object", "other object", "parent's")

    def derived(self, name, idx):
        """value of a derived property recomputed from the parent's rows at `idx`; ('raises', cls) where the view has to raise"""
        P = self.parent
        pids = [P["plate_ids"][i] for i in idx]
        sids = [P["sample_ids"][i] for i in idx]
        tids = [P["treatment_ids"][i] for i in idx]
        if name == "size":
            return ("ok", len(idx))
        if name == "n_plates":
            return ("ok", len(set(pids)))
        if name == "unique_plate_ids":
            return ("ok", sorted(set(pids)))
        if name == "unique_sample_ids":
            return ("ok", sorted(set(sids)))
        if name == "unique_treatments":
            return ("ok", sorted(set(t for r in tids for t in r) - {-1}))
        if name == "n_unique_samples":
            return ("ok", len(set(sids)))
        if name == "n_unique_treatments":
            return ("ok", len(set(t for r in tids for t in r) - {-1}))
        if name == "treatment_arity":
            return ("ok", self.raw["arity"])
        if name == "is_observed":
            return ("ok", all(P["observation_mask"][i] for i in idx))
        if name == "sample_space_size":
            return ("ok", len(self.screen.sample_mapping[0]))
        if name == "treatment_space_size":
            return ("ok", len(self.screen.treatment_mapping[0]))
        if name == "plate_id":
            return ("ok", pids[0]) if len(set(pids)) == 1 else ("raises", "ValueError")
        if name == "plate_name":
            return ("ok", P["plate_names"][idx[0]]) if len(set(pids)) == 1 else None      # only specified for single-plate views
        return None

    def check_props(self, v, idx):
        """every property of the view's class, found by introspection"""
        for name in prop_names(v):
            st, val = read_prop(v, name)
            if name in DERIVED:
                want = self.derived(name, idx)
                if want is None:
                    continue
                got = (st, canon(val) if st == "ok" else val)
                if got != (want[0], canon(want[1]) if want[0] == "ok" else want[1]) and want[0] == "raises":
                    self.soft("derived:" + name + ":exception-class", got, want)       # which exception an inapplicable property raises
                    continue
                if got != (want[0], canon(want[1]) if want[0] == "ok" else want[1]):
                    self.soft("derived:" + name, {"property": name, "got": got}, want)       # derived scalars are not named in the text
                continue
            if name in SHARED:
                pst, pval = (("ok", self.screen.control_treatment_name) if name == "control_treatment_name" else self.pvals[name])
                if st != "ok" or not (val is pval or canon(val) == canon(pval)):
                    self.soft("shared:" + name, (st, str(val)[:80]), "the parent's")
                continue
            if name not in self.pvals:
                if self.res is not None:
                    self.res.count("unclassified-view-property." + name)
                continue
            pst, pval = self.pvals[name]
            if pst == "raises":
                if (st, val) != (pst, pval):
                    self.soft("attr:" + name + ":exception-class", (st, str(val)[:80]), pval)
                continue
            if pval is None:
                if st != "ok" or val is not None:
                    self.fail("per-experiment attribute is absent on the parent but not on the view", {"attr": name, "got": (st, str(val)[:80])},
                              None, signature="C14:attr:" + name)
                    return False
                continue
            if isinstance(pval, np.ndarray) and pval.ndim >= 1 and pval.shape[0] == self.n:
                want = [canon(pval[i]) for i in idx]
                got = canon(val) if (st == "ok" and isinstance(val, np.ndarray)) else (st, str(val)[:80])
                if got != want:
                    self.fail("attribute of a view is not the parent's at the selected rows", {"attr": name, "got": got}, want,
                              signature="C14:attr:" + name)
                    return False
                if name == "single_treatment_effects" and self.res is not None:
                    own = ste_of_rows([self.parent["sample_ids"][i] for i in idx], [self.parent["treatment_ids"][i] for i in idx],
                                      [self.obs_f[i] for i in idx])
                    if idx and not ste_close(own, [[x for x in r] for r in pval[idx].tolist()]):
                        self.res.count("ste.view-where-recomputing-from-own-rows-differs")
                continue
            if self.res is not None:
                self.res.count("unclassified-view-property." + name)
        # plate_names is a plain attribute of the parent, read through the selection
        got = [str(x) for x in v.screen.plate_names[v.selection_vector]]
        if got != [self.parent["plate_names"][i] for i in idx]:
            self.fail("attribute of a view is not the parent's at the selected rows", {"attr": "plate_names", "got": got},
                      [self.parent["plate_names"][i] for i in idx], signature="C14:attr:plate_names")
            return False
        return True

    def expected(self, tree, kids):
        """set-algebra value computed from the children's *expected* selections (independent of numpy indexing)"""
        op = tree[0]
        n = self.n
        if op in ("S", "F"):
            return list(tree[1])
        if op == "o":
            return list(self.parent["observation_mask"])
        if op == "u":
            return [not b for b in self.parent["observation_mask"]]
        if op == "p":
            return [x == tree[1] for x in self.parent["plate_ids"]]
        if op == "i":
            return [not b for b in kids[0]]
        if op == "c":
            return [a or b for a, b in zip(kids[0], kids[1])]
        if op == "n":
            if len(kids) == 0:
                return None
            return [any(k[i] for k in kids) for i in range(n)]
        if op == "s":
            out = [False] * n
            pos = [i for i, b in enumerate(kids[0]) if b]
            for j, i in enumerate(pos):
                out[i] = bool(tree[2][j])
            return out
        if op == "q":
            return None      # any one-per-condition choice satisfies the property; checked in check_unique
        raise ValueError(op)

    def check_unique(self, outer_exp, v):
        sel = [bool(b) for b in v.selection_vector]
        key = lambda i: (self.parent["sample_ids"][i], tuple(self.parent["treatment_ids"][i]))
        inside = [i for i, b in enumerate(outer_exp) if b]
        kept = [i for i, b in enumerate(sel) if b]
        if any(not outer_exp[i] for i in kept):
            self.fail("unique filter selected a row outside the view", kept, inside, signature="C14:unique")
            return
        kk = [key(i) for i in kept]
        if len(set(kk)) != len(kk) or set(kk) != set(key(i) for i in inside):
            self.fail("unique filter does not keep exactly one experiment per distinct (sample, treatment ids)",
                      {"kept": kept, "keys": [list(map(str, k)) for k in kk]}, "one row per distinct condition of the view",
                      signature="C14:unique")

    def ev(self, tree):
        """returns (view, expected selection list)"""
        from batchie.data import ScreenSubset, filter_dataset_to_unique_treatments
        op = tree[0]
        kids = []
        if op in ("s", "i", "q"):
            kids = [self.ev(tree[1])]
        elif op == "c":
            kids = [self.ev(tree[1]), self.ev(tree[2])]
        elif op == "n":
            kids = [self.ev(t) for t in tree[1]]
        kexp = [k[1] for k in kids]
        if op == "S":
            v = self.screen.subset(self.mask(tree[1]))
        elif op == "F":
            if self.foreign is None:
                self.foreign = build_parent(self.raw)
            v = self.foreign.subset(self.mask(tree[1]))
        elif op == "o":
            v = self.screen.subset_observed()
            if v is None:
                if any(self.parent["observation_mask"]):
                    self.fail("subset_observed() absent although observed rows exist", None, "a view")
                raise Absent()
        elif op == "u":
            v = self.screen.subset_unobserved()
            if v is None:
                if not all(self.parent["observation_mask"]):
                    self.fail("subset_unobserved() absent although unobserved rows exist", None, "a view")
                raise Absent()
        elif op == "p":
            v = self.screen.get_plate(tree[1])
        elif op == "s":
            v = kids[0][0].subset(self.mask(tree[2]))
        elif op == "i":
            v = kids[0][0].invert()
        elif op == "c":
            foreign = kids[0][0].screen is not kids[1][0].screen
            try:
                v = kids[0][0].combine(kids[1][0])
            except ValueError:
                if not foreign:
                    self.fail("combine of two views of one screen refused", "ValueError", "union")
                raise
            if foreign:
                self.fail("views of different parent screens combined", "a view", "ValueError", signature="C14:foreign")
        elif op == "n":
            vs = [k[0] for k in kids]
            foreign = len(vs) >= 2 and any(x.screen is not vs[0].screen for x in vs)
            v = ScreenSubset.concat(vs)
            if foreign:
                self.fail("views of different parent screens concatenated", "a view", "ValueError", signature="C14:foreign")
        elif op == "q":
            v = filter_dataset_to_unique_treatments(kids[0][0])
        else:
            raise ValueError(op)
        exp = self.expected(tree, kexp)
        if op in ("o", "u") and not any(exp):
            self.soft("empty-observed-view-present", "a view", None)        # None-for-empty is a convention, not in the text
        if v.screen is self.screen:
            self.check_view(tree, v, exp)
            if op == "q":
                self.check_unique(kexp[0], v)
        if exp is None:
            exp = [bool(b) for b in v.selection_vector]
        self.live.append((v, [bool(b) for b in v.selection_vector], exp))
        self.check_alias(tree[0])
        self.nodes.append((tree, show_view(v) if v.screen is self.screen or True else None))
        return v, exp


def run_tree(raw, tree, res, case, lseed=0):
    """evaluate on the real code with all oracles; returns (Eval, root view or None, error token or None)"""
    E = Eval(raw, res, case, lseed)
    try:
        v, _ = E.ev(tree)
        E.recheck_all()
        return E, v, None
    except Exception as e:       # noqa: BLE001 -- exceptions are part of the behaviour, compared by class
        E.check_alias("error:" + type(e).__name__)
        E.recheck_all()
        return E, None, err_tok(e)


# ---------------------------------------------------------------- select_unique_zipped_numpy_arrays, directly

def gen_columns(rng):
    """id columns as filter_dataset_to_unique_treatments builds them: sample ids 0..s-1, treatment ids -1..m-1"""
    k = rng.choice([1, 2, 2, 3, 3, 4])
    n = rng.choice([0, 1, 2, 3, 5, 8, 12])
    mode = rng.choice(["random", "random", "all-control-column", "all-control", "packing-collision", "bad-length"])
    ns, m = rng.randint(1, 3), rng.randint(0, 3)
    cols = [[rng.randrange(ns) for _ in range(n)]]
    for j in range(1, k):
        if mode == "all-control" or (mode == "all-control-column" and j == 1):
            cols.append([-1] * n)
        else:
            cols.append([rng.choice([-1] + list(range(m)) + [m - 1 if m else -1]) for _ in range(n)])
    if mode == "packing-collision" and k >= 2 and n >= 2:
        # (s, -1, ...) and (s - 1, max, ...) get the same key under key = key * (max + 1) + id; likewise in the last two columns
        mx = max(max(c) for c in cols[1:] + [[0]])
        i, j = rng.sample(range(n), 2)
        cols[0][i], cols[0][j] = 1, 0
        cols[1][i], cols[1][j] = -1, mx
        for c in cols[2:]:
            c[i] = c[j] = rng.choice([-1, mx])
    if mode == "bad-length" and k >= 2:
        cols[rng.randrange(1, k)].append(0)
    return mode, cols


def unique_direct(ctx, res, rng, queue):
    from batchie.common import select_unique_zipped_numpy_arrays
    for t in range(ctx.scale(150, 2000)):
        mode, cols = gen_columns(rng)
        if rng.random() < 0.02:
            cols = []
        case = {"kind": "select_unique", "cols": cols}
        res.evaluations += 1
        res.count("uniq." + mode)
        n = len(cols[0]) if cols else 0
        same = len(set(len(c) for c in cols)) <= 1
        if cols and same and rng.random() < 0.5:
            block = np.array(cols, dtype=int).T.reshape(n, len(cols))          # C-ordered rows: the columns are strided slices
            arrs = [block[:, j] for j in range(len(cols))]
        else:
            arrs = [np.array(c, dtype=int) for c in cols]
        if t % 6 == 0:
            case["verbose"] = True
            res.count("class.verbose-logging")
        try:
            with G.vctx(case.get("verbose")):
                got = [bool(b) for b in select_unique_zipped_numpy_arrays(arrs)]
            out = "ok " + S.sel_tok(got)
        except Exception as e:      # noqa: BLE001
            got = None
            out = S.err_tok(e)
        check_unique_direct(res, case, cols, got, out)
        queue("uniq " + (" ".join(S.lst(str(x) for x in c) for c in cols)), out, case)


def check_unique_direct(res, case, cols, got, out):
    same = len(set(len(c) for c in cols)) <= 1
    if not cols or not same:
        if got is not None:
            soft(res, "unique:direct:unequal-lengths-accepted", case, out, "ValueError")
        return
    if got is None:
        res.fail("select_unique_zipped_numpy_arrays raises on equally long columns", case, out, "a mask", signature="C14:unique:direct")
        return
    rows = list(zip(*cols)) if cols[0] else []
    kept = [rows[i] for i, b in enumerate(got) if b]
    if len(got) != len(rows) or len(set(kept)) != len(kept) or set(kept) != set(rows):
        res.fail("select_unique_zipped_numpy_arrays does not keep exactly one row per distinct combination", case,
                 {"mask": got, "kept": [list(r) for r in kept]}, "one row per distinct combination", signature="C14:unique:direct")


def check_to_screen(E, v, res, case):
    """materialise: same rows in the same order"""
    t = v.to_screen()
    idx = [i for i, b in enumerate(v.selection_vector) if b]
    want = {
        "treatment_names": [E.parent["treatment_names"][i] for i in idx],
        "treatment_doses": [E.parent["treatment_doses"][i] for i in idx],
        "sample_names": [E.parent["sample_names"][i] for i in idx],
        "plate_names": [E.parent["plate_names"][i] for i in idx],
        "observations": [E.parent["observations"][i] for i in idx],
        "observation_mask": [E.parent["observation_mask"][i] for i in idx],
    }
    got = {
        "treatment_names": np.asarray(t.treatment_names).tolist(), "treatment_doses": np.asarray(t.treatment_doses).tolist(),
        "sample_names": np.asarray(t.sample_names).tolist(), "plate_names": [str(x) for x in t.plate_names],
        "observations": [S.bits(x) for x in t.observations], "observation_mask": [bool(b) for b in t.observation_mask],
    }
    for k in want:
        if got[k] != want[k]:
            res.fail("to_screen() rows differ from the selected rows", case, {"attr": k, "got": got[k]}, want[k], signature="C14:to_screen:" + k)
            return t
    if t.control_treatment_name != E.screen.control_treatment_name:
        res.fail("to_screen() changed the control name", case, t.control_treatment_name, E.screen.control_treatment_name)
    dec = {int(i): str(nm) for nm, i in zip(*t.plate_mapping)}
    if [dec.get(int(i)) for i in t.plate_ids] != want["plate_names"] or len(dec) != len(set(want["plate_names"])):
        res.fail("plate ids of the materialised screen do not decode to the selected rows' plate names", case,
                 {"plate_ids": [int(i) for i in t.plate_ids], "plate_mapping": S.show_smap(t.plate_mapping)}, want["plate_names"],
                 signature="C14:to_screen:plate-ids")
    return t


# ---------------------------------------------------------------- generation

def gen_mask(rng, n):
    m = rng.random()
    if m < 0.12:
        return [False] * n
    if m < 0.24:
        return [True] * n
    p = rng.choice([0.2, 0.5, 0.8])
    return [rng.random() < p for _ in range(n)]


def gen_tree(rng, raw, depth, sizes_of, allow_foreign=True):
    """random tree; `sizes_of(tree)` evaluates a subtree on the real code and returns its size (or None on error)"""
    n = len(raw["snames"])
    r = rng.random()
    if depth <= 0 or r < 0.22:
        k = rng.random()
        if k < 0.12 and raw["arity"] >= 2 and n:
            # combination-only / monotherapy-only / all-but-one-monotherapy-row selections
            nctl = [sum(1 for c in range(raw["arity"]) if is_ctrl_cell(raw, r, c)) for r in range(n)]
            kind = rng.choice(["combo", "mono", "drop-one-mono"])
            if kind == "combo":
                m = [x == 0 for x in nctl]
            elif kind == "mono":
                m = [x == raw["arity"] - 1 for x in nctl]
            else:
                mono = [r for r in range(n) if nctl[r] == raw["arity"] - 1]
                m = [True] * n
                if mono:
                    m[rng.choice(mono)] = False
            return ["S", m]
        if k < 0.5:
            m = gen_mask(rng, n)
            if rng.random() < 0.03:
                m = m + [True]          # wrong length -> ValueError
            return ["S", m]
        if k < 0.62:
            return ["o"]
        if k < 0.74:
            return ["u"]
        if k < 0.94 or not allow_foreign:
            npl = max(1, len(set(raw["pnames"])))
            return ["p", rng.randint(0, npl) if rng.random() < 0.9 else rng.randint(-1, npl + 1)]
        return ["F", gen_mask(rng, n)]
    if r < 0.47:
        child = gen_tree(rng, raw, depth - 1, sizes_of, allow_foreign)
        sz = sizes_of(child)
        if sz is None:
            return child
        m = gen_mask(rng, sz)
        if rng.random() < 0.04:
            m = m + [False]             # wrong length -> ValueError
        return ["s", child, m]
    if r < 0.6:
        return ["i", gen_tree(rng, raw, depth - 1, sizes_of, allow_foreign)]
    if r < 0.75:
        return ["c", gen_tree(rng, raw, depth - 1, sizes_of, allow_foreign), gen_tree(rng, raw, depth - 1, sizes_of, allow_foreign)]
    if r < 0.87:
        k = rng.choice([0, 1, 2, 2, 3, 3, 4]) if rng.random() < 0.9 else 0
        return ["n", [gen_tree(rng, raw, depth - 2, sizes_of, allow_foreign) for _ in range(k)]]
    return ["q", gen_tree(rng, raw, depth - 1, sizes_of, allow_foreign)]


def subtrees(tree):
    op = tree[0]
    if op in ("s", "i", "q"):
        yield from subtrees(tree[1])
    elif op == "c":
        yield from subtrees(tree[1])
        yield from subtrees(tree[2])
    elif op == "n":
        for t in tree[1]:
            yield from subtrees(t)
    yield tree


def is_ctrl_cell(raw, r, c):
    return raw["tnames"][r][c] == raw["ctrl"] or raw["tdoses"][r][c] <= 0


def gen_mono_screen(rng, n_max):
    """screen whose single_treatment_effects is an array: every (sample, treatment) that occurs has monotherapy rows, usually
    replicated with different observations and spread over different plates; plus combination rows and control-only rows.
    With probability 0.25 one needed monotherapy row is left out (parent's effects None)."""
    a = rng.choice([2, 2, 2, 3])
    ctrl = rng.choice(["", "control", "dmso"])
    drugs = [x for x in rng.sample(S.NAME_POOL, 4) if x != ctrl][:rng.randint(2, 3)]
    doses = rng.sample([1.0, 2.5, 1e-310, 10.0], rng.randint(1, 2))
    treats = [(d, x) for d in drugs for x in doses][:rng.randint(2, 4)]
    samples = rng.sample(S.NAME_POOL, rng.randint(1, 2))
    ctl = lambda: rng.choice([(ctrl, 0.0), (ctrl, 1.0), (rng.choice(drugs), 0.0), (rng.choice(drugs), -0.0)])
    rows = []
    for smp in samples:
        for t in treats:
            for _ in range(rng.choice([1, 2, 2, 3])):
                cells = [ctl() for _ in range(a)]
                cells[rng.randrange(a)] = t
                rows.append((smp, cells))
        for _ in range(rng.randint(1, 4)):
            cells = [rng.choice(treats) for _ in range(a)]
            if rng.random() < 0.3:
                cells[rng.randrange(a)] = ctl()
            rows.append((smp, cells))
        if rng.random() < 0.5:
            rows.append((smp, [ctl() for _ in range(a)]))
    if rng.random() < 0.25:
        mono = [i for i, (_, cells) in enumerate(rows) if sum(1 for c in cells if c[0] == ctrl or c[1] <= 0) == a - 1]
        if mono:
            del rows[rng.choice(mono)]
    rng.shuffle(rows)
    rows = rows[:max(n_max, 6)] if rng.random() < 0.5 else rows[:n_max + 10]
    n = len(rows)
    plates = rng.sample(S.NAME_POOL, rng.randint(2, 4))
    pn = [rng.choice(plates) for _ in range(n)]
    st = {q: rng.random() < 0.6 for q in plates}
    ov = [0.0, 1.0, 0.5, 0.25, 0.75, 0.3333333333333333, 0.9, 0.1, 2.0, 0.7]
    return dict(ctrl=ctrl, arity=a, tnames=[[c[0] for c in cells] for _, cells in rows], tdoses=[[c[1] for c in cells] for _, cells in rows],
                snames=[smp for smp, _ in rows], pnames=pn, obs=[rng.choice(ov) for _ in range(n)],
                mask=None if rng.random() < 0.2 else [st[q] for q in pn], tmap=None, smap=None)


def gen_screen(rng, n_max):
    if rng.random() < 0.35:
        return gen_mono_screen(rng, n_max)
    names = rng.sample(S.NAME_POOL, rng.randint(2, 3))
    doses = rng.sample([0.0, 1.0, 2.5, 1e-310, -0.0], rng.randint(1, 3))
    raw = S.gen_raw(rng, n_max=n_max, names=names, doses=doses, n_samples=rng.randint(1, 2), n_plates=rng.randint(1, 4))
    if len(raw["snames"]) == 0 and rng.random() < 0.8:
        return gen_screen(rng, n_max)
    return raw


def extras(E, raw, res, case, toks, queue, do_unique, do_plates):
    """checks next to the tree: the unique filter applied to the screen itself, and the screen's plates"""
    from batchie.data import filter_dataset_to_unique_treatments
    # the unique filter applied to the screen itself (Screen.subset path)
    if do_unique:
        try:
            full = [True] * len(raw["snames"])
            w = filter_dataset_to_unique_treatments(E.screen)
            E.check_view(["q"], w, None)
            E.check_unique(full, w)
            if queue is not None:
                queue("vexpr S%s+q %s" % (S.sel_tok(full), toks), show_view(w), case)
            res.count("unique-filter-on-screen")
        except Exception as e:          # noqa: BLE001
            res.fail("filter_dataset_to_unique_treatments(screen) raises", case, "%s: %s" % (type(e).__name__, e), "a view")
    # plates: one view per unique plate id, in id order, partitioning the rows
    if do_plates:
        try:
            s = E.screen
            pl = s.plates
            ids = sorted(set(int(x) for x in s.plate_ids))
            cover = [0] * len(raw["snames"])
            if len(pl) != len(ids):
                res.fail("plates does not list one plate per plate id", case, len(pl), len(ids))
            for p, pid in zip(pl, ids):
                E.check_view(["p", pid], p, [x == pid for x in E.parent["plate_ids"]])
                for i, b in enumerate(p.selection_vector):
                    cover[i] += bool(b)
                if queue is not None:
                    queue("vexpr p%d %s" % (pid, toks), show_view(p), case)
            if any(c != 1 for c in cover):
                res.fail("plates do not partition the experiments", case, cover, "every row in exactly one plate")
        except Exception as e:          # noqa: BLE001
            res.fail("plates raises", case, "%s: %s" % (type(e).__name__, e), "list of plates")


# ---------------------------------------------------------------- HARDENING_CHECKLIST items 10, 12, 13

PER_ROW = ["plate_ids", "sample_ids", "treatment_ids", "sample_names", "treatment_names", "treatment_doses", "observations", "observation_mask"]


CORE = ("selection_vector", "plate_ids", "sample_ids", "treatment_ids", "sample_names", "treatment_names", "treatment_doses", "observations",
        "observation_mask", "single_treatment_effects")       # the selection and the per-experiment attributes: the text of C14


def view_props(v):
    """selection vector + every property of the view's class, canonical"""
    out = {"selection_vector": [bool(b) for b in v.selection_vector]} if hasattr(v, "selection_vector") else {}
    for name in prop_names(v):
        if name == "plates":
            continue
        st, val = read_prop(v, name)
        out[name] = canon(val) if st == "ok" else "raises:" + val
    return out


def equal_size_masks(rng, n, k):
    c = rng.randint(1, max(1, n - 1)) if n > 1 else n
    out = []
    for _ in range(k):
        idx = set(rng.sample(range(n), c))
        out.append([i in idx for i in range(n)])
    return out


def temporaries_case(res, case):
    """item 10: attributes / to_screen / unique filter of TEMPORARY views of equal size (get_plate(p), subset(m) built, used once, dropped) are
    the parent's rows at that plate / mask"""
    from batchie.data import filter_dataset_to_unique_treatments
    raw, masks = case["raw"], case["masks"]
    E = Eval(raw, res, case)
    s = E.screen
    P = E.parent
    sels = [("get_plate(%d)" % q, [x == q for x in P["plate_ids"]], (lambda q=q: s.get_plate(q))) for q in sorted(set(P["plate_ids"]))]
    sels += [("subset(mask %d)" % j, list(m), (lambda m=m: s.subset(np.array(m, dtype=bool)))) for j, m in enumerate(masks)]
    for attr in PER_ROW:
        got = [canon(getattr(mk(), attr)) for _, _, mk in sels]                 # one temporary per read, only the value kept
        for (nm, sel, _), g in zip(sels, got):
            want = [P[attr][i] for i, b in enumerate(sel) if b]
            want = [("f", x) for x in want] if attr == "observations" else canon(np.array(want).reshape(len(want), -1) if attr in ("treatment_ids", "treatment_names", "treatment_doses") and want else want)
            if attr == "treatment_doses":
                g = [[S.dose_tok(S.from_bits(x[1])) for x in r] for r in g]
                want = [[S.dose_tok(x) for x in P[attr][i]] for i, b in enumerate(sel) if b]
            if g != want:
                res.fail("attribute of a temporary view is not the parent's at the selected rows", case, {"view": nm, "attr": attr, "got": g}, want,
                         signature="C14:temporaries:attr:" + attr)
                return
    rows = [[str(x) for x in mk().to_screen().plate_names] + [S.bits(x) for x in mk().to_screen().observations] for _, _, mk in sels]
    for (nm, sel, _), g in zip(sels, rows):
        idx = [i for i, b in enumerate(sel) if b]
        if g != [P["plate_names"][i] for i in idx] + [P["observations"][i] for i in idx]:
            res.fail("to_screen() of a temporary view does not have the selected rows", case, {"view": nm, "got": g},
                     [P["plate_names"][i] for i in idx] + [P["observations"][i] for i in idx], signature="C14:temporaries:to_screen")
            return
    uq = [[bool(b) for b in filter_dataset_to_unique_treatments(mk()).selection_vector] for _, _, mk in sels]
    for (nm, sel, _), g in zip(sels, uq):
        key = lambda i: (P["sample_ids"][i], tuple(P["treatment_ids"][i]))
        kept = [i for i, b in enumerate(g) if b]
        inside = [i for i, b in enumerate(sel) if b]
        if any(not sel[i] for i in kept) or len(set(map(key, kept))) != len(kept) or set(map(key, kept)) != set(map(key, inside)):
            res.fail("unique filter of a temporary view does not keep exactly one experiment per distinct condition of that view", case,
                     {"view": nm, "kept": kept}, "one row per distinct condition", signature="C14:temporaries:unique")
            return


def instalments_case(res, case):
    """item 12: a selection reached in instalments and in one call is the same view on every property (by introspection), and materialises to the
    same screen: subset(m1).subset(m2) vs subset(composed); a.combine(b).combine(c) vs ScreenSubset.concat([a, b, c]) vs subset(union)"""
    from batchie.data import ScreenSubset
    raw, m1, m2, ms = case["raw"], case["m1"], case["m2"], case["ms"]
    E = Eval(raw, res, case)
    s = E.screen
    B = lambda m: np.array(m, dtype=bool)
    pos = [i for i, b in enumerate(m1) if b]
    comp = [False] * E.n
    for j, i in enumerate(pos):
        comp[i] = bool(m2[j])
    union = [any(m[i] for m in ms) for i in range(E.n)]
    groups = [
        ("nested subset", comp, [("subset(m1).subset(m2)", s.subset(B(m1)).subset(B(m2))), ("subset(composed)", s.subset(B(comp)))]),
        ("union", union, [("a.combine(b).combine(c)", s.subset(B(ms[0])).combine(s.subset(B(ms[1]))).combine(s.subset(B(ms[2])))),
                          ("concat([a, b, c])", ScreenSubset.concat([s.subset(B(m)) for m in ms])), ("subset(union)", s.subset(B(union)))]),
    ]
    for gname, exp, views in groups:
        ref_name, ref_view = views[-1]
        ref = view_props(ref_view)
        ref_rows = S.show_rows(ref_view.to_screen()) + "|" + S.show_screen(ref_view.to_screen())
        for nm, v in views:
            E.check_view([gname], v, exp)
            got = view_props(v)
            diff = sorted(k for k in set(ref) & set(got) if ref[k] != got[k])      # Plate has plate_id / plate_name, ScreenSubset has not
            ext = [k for k in diff if k not in CORE]
            diff = [k for k in diff if k in CORE]
            if ext:
                soft(res, "instalments:" + gname + ":derived", case, {"how": nm, "properties": ext}, "equal")
            if diff:
                res.fail("a view reached in instalments differs from the view reached in one call (by introspection)", case,
                         {"how": nm, "vs": ref_name, "properties": diff, "got": str(got.get(diff[0]))[:200]}, str(ref.get(diff[0]))[:200],
                         signature="C14:instalments:" + gname)
                return
            rows = S.show_rows(v.to_screen()) + "|" + S.show_screen(v.to_screen())
            if rows != ref_rows:
                res.fail("a view reached in instalments materialises to another screen than the view reached in one call", case,
                         {"how": nm, "got": rows[:300]}, ref_rows[:300], signature="C14:instalments:to_screen:" + gname)
                return
    E.check_alias("instalments")


def wide_parent(rng, m):
    """a parent with m plates and m distinct non-control treatments (ids up to m-1 straddle the int8 / uint8 boundaries), two samples,
    every condition duplicated once on another plate"""
    n = m + rng.randint(3, 8)
    tid = [i % m for i in range(n)]
    pl = [(i * 7 + 3) % m if i < m else rng.randrange(m) for i in range(n)]
    pl = list(range(m)) + pl[m:]
    status = {q: rng.random() < 0.5 for q in range(m)}
    return dict(ctrl="", arity=1, tnames=[["t%03d" % t] for t in tid], tdoses=[[1.0] for _ in tid], snames=["s%d" % (t % 2) for t in tid],
                pnames=["p%03d" % q for q in pl], obs=[rng.choice([0.25, 0.5, 0.75]) for _ in tid], mask=[status[q] for q in pl], tmap=None, smap=None)


def int_width_case(res, case, queue=None):
    """item 13: 127 / 128 / 255 / 256 / 257 plates and treatment ids: every plate, the rows with large ids, unique filter, to_screen"""
    from batchie.data import filter_dataset_to_unique_treatments
    raw = case["raw"]
    toks = S.raw_to_tokens(raw)
    E = Eval(raw, res, case)
    extras(E, raw, res, case, toks, None, True, True)           # all plates (partition, attributes), unique filter on the screen
    n = E.n
    m = len(set(raw["pnames"]))
    big = [P >= 128 or t[0] >= 128 for P, t in zip(E.parent["plate_ids"], E.parent["treatment_ids"])]
    for name, tree in (("large ids", ["S", big]), ("last plate", ["p", m - 1]), ("plate 0 (= 256 mod 256)", ["p", 0]),
                       ("unique of all", ["q", ["S", [True] * n]]), ("complement of plate 127", ["i", ["p", min(127, m - 1)]])):
        v, exp = E.ev(tree)
        t = check_to_screen(E, v, res, case)
        if queue is not None:
            queue("vexpr " + S.lst(rpn(tree), "+") + " " + toks, show_view(v), case)
            if tree[0] != "i":
                queue("vscreen " + S.lst(rpn(tree), "+") + " " + toks, S.show_screen(t) + "|" + S.show_rows(t), case)
    E.recheck_all()


def guarded(f, res, case, *a):
    """an exception escaping from a view operation on a valid screen with valid masks is a violation (the view the text demands is not produced)"""
    try:
        if case.get("kind") == "entry-point":
            f(res, case, *a)                # enters the verbose configuration itself (the CLI also needs --verbose)
        else:
            with G.vctx(case.get("verbose")):
                f(res, case, *a)
    except Exception as e:      # noqa: BLE001
        if G.raised_in_harness(e):      # item 21: an exception of the harness's own code (a wrapper, an unpack) is a broken tie, never a violation
            G.wrapper_trouble(res, "C14", "harness-exception:" + case["kind"], case, "%s: %s" % (type(e).__name__, e))
            return
        res.fail("a view operation on a valid screen with valid masks raises", case, "%s: %s" % (type(e).__name__, e), "a view",
                 signature="C14:raises:" + case["kind"])


def checklist_classes(ctx, res, rng, queue):
    n_max = 10 if ctx.tier == "quick" else 24
    for t in range(ctx.scale(10, 120)):
        raw = gen_screen(rng, n_max)
        while len(raw["snames"]) < 3:
            raw = gen_screen(rng, n_max)
        if len(set(raw["pnames"])) >= 2 and rng.random() < 0.3:
            raw["merges"] = gen_merges(rng, raw)
        n = len(raw["snames"])
        case = {"kind": "temporaries", "raw": raw, "masks": equal_size_masks(rng, n, 5), "verbose": t % 3 == 0}
        if case["verbose"]:
            res.count("class.verbose-logging")
        res.evaluations += 1
        res.count("class.temporaries")
        guarded(temporaries_case, res, case)
        m1 = gen_mask(rng, n)
        case = {"kind": "instalments", "raw": raw, "m1": m1, "m2": gen_mask(rng, sum(m1)), "ms": [gen_mask(rng, n) for _ in range(3)], "verbose": t % 3 == 1}
        if case["verbose"]:
            res.count("class.verbose-logging")
        res.evaluations += 1
        res.count("class.instalments")
        guarded(instalments_case, res, case)
    sizes = [127, 128, 255, 256, 257]
    picks = sizes if not (ctx.tier == "quick" and ctx.mode != "search") else [257, rng.choice([127, 128, 255, 256])]     # 257 plates: ids 0..256 cross every boundary
    for m in picks:
        case = {"kind": "int-width", "raw": wide_parent(rng, m), "verbose": m != 257}
        if case["verbose"]:
            res.count("class.verbose-logging")
        res.evaluations += 1
        res.count("class.int-width")
        res.count("class.int-width.%d" % m)
        guarded(int_width_case, res, case, queue)



# ---------------------------------------------------------------- HARDENING_CHECKLIST items 18 (real entry points) and 19 (verbose logging, load paths)

def row_tuples(s):
    return list(zip([tuple(r) for r in np.asarray(s.treatment_names).tolist()], [tuple(S.bits(x) for x in r) for r in np.asarray(s.treatment_doses)],
                    [str(x) for x in s.sample_names], [str(x) for x in s.plate_names], [S.bits(x) for x in s.observations]))


def entry_point_case(res, case):
    """the stages that take plate views / subsets of a loaded screen, through their real `batchie.cli.<stage>.main()`"""
    import shutil
    import tempfile
    from batchie.data import Screen
    raw, stage, verbose = case["raw"], case["stage"], bool(case.get("verbose"))
    tmpdir = tempfile.mkdtemp(prefix="c14_")
    try:
        src = tmpdir + "/in.h5"
        inp = S.build(raw)
        inp.save_h5(src)
        plates = sorted(set(raw["pnames"]))
        status = {q: bool(raw["mask"][raw["pnames"].index(q)]) for q in plates}
        if stage == "extract_screen_metadata":
            out = tmpdir + "/meta.json"
            with G.recording(stage, "Screen") as calls:
                G.run_main(stage, ["--screen", src, "--output", out], verbose)
            for c in calls:      # the plate views the stage iterates over partition the loaded screen by plate id
                loaded = c.out
                cover = [0] * len(raw["snames"])
                for p_ in loaded.plates:
                    for i, b in enumerate(p_.selection_vector):
                        cover[i] += bool(b)
                if any(c != 1 for c in cover):
                    res.fail("plates of the screen the stage loaded do not partition its experiments", case, cover, "every row in exactly one plate")
            want = {"n_plates": len(plates), "n_observed_plates": sum(status.values()), "n_unobserved_plates": len(plates) - sum(status.values())}
            try:
                meta = G.read_json(out)
                got = {k: meta[k] for k in want}
            except Exception as e:      # noqa: BLE001 -- item 20: the key names of the metadata file are knowledge about the current layout
                G.wrapper_trouble(res, "C14", "layout:metadata-json", case, "%s: %s" % (type(e).__name__, e))
                return
            if got != want:
                res.fail("extract_screen_metadata: the written plate counts are not the numbers of plate views / of plate views that are observed and unobserved",
                         case, got, want, signature="C14:entry-point:extract_screen_metadata")
        elif stage == "reveal_plate":
            out = tmpdir + "/revealed.h5"
            with G.recording(stage, "reveal_plates") as calls:
                G.run_main(stage, ["--screen", src, "--output", out, "--plate-id"] + list(case["plate_ids"]), verbose)
            got_ids = None
            try:
                if calls:
                    got_ids = [sorted(int(x) for x in c.arg("plate_ids")) for c in calls]
                else:
                    res.count("wrapper.not-called.reveal_plates")
            except (LookupError, TypeError, ValueError) as e:      # item 21: a call form the harness cannot bind is a broken tie
                G.wrapper_trouble(res, "C14", "reveal_plates", case, e)
            if got_ids is not None and sorted(case["plate_ids"]) not in got_ids:
                res.fail("reveal_plate: the plate ids handed to reveal_plates are not those of the command line (plate id 0 included)", case,
                         got_ids, sorted(case["plate_ids"]), signature="C14:entry-point:reveal_plate:ids")
            t = Screen.load_h5(out)
            if row_tuples(t) != row_tuples(inp):
                res.fail("reveal_plate: the rows of the written screen are not the rows of the given screen in the same order", case,
                         row_tuples(t)[:3], row_tuples(inp)[:3], signature="C14:entry-point:reveal_plate:rows")
            want_mask = [bool(m) or (plates.index(q) in case["plate_ids"]) for m, q in zip(raw["mask"], raw["pnames"])]
            if [bool(b) for b in t.observation_mask] != want_mask:
                res.fail("reveal_plate: the observed rows of the written screen are not the previously observed rows plus the rows of the plate views "
                         "with the given ids", case, [bool(b) for b in t.observation_mask], want_mask, signature="C14:entry-point:reveal_plate:mask")
        elif stage == "prepare_retrospective_simulation":
            tr, te = tmpdir + "/train.h5", tmpdir + "/test.h5"
            with G.recording(stage, "mask_screen") as calls:
                try:
                    G.run_main(stage, ["--data", src, "--training-output", tr, "--test-output", te, "--holdout-fraction", case["fraction"], "--seed", case["seed"]], verbose)
                except Exception as e:      # noqa: BLE001 -- the stage's own contract (C11 / C13)
                    res.count("entry-point.prepare.raised." + type(e).__name__)
                    return
            for c in calls:
                try:
                    filtered = c.arg("screen")
                except LookupError as e:        # item 21
                    G.wrapper_trouble(res, "C14", "mask_screen", case, e)
                    continue
                # filter -> subset -> to_screen: the materialised rows are rows of the loaded screen, in parent order
                have, it = row_tuples(filtered), iter(row_tuples(inp))
                if not all(any(r == x for x in it) for r in have):
                    res.fail("prepare_retrospective_simulation: the filtered (materialised) screen is not a selection of the loaded screen's rows in parent order",
                             case, have[:4], row_tuples(inp)[:4], signature="C14:entry-point:prepare:to_screen-rows")
    finally:
        shutil.rmtree(tmpdir, ignore_errors=True)


def load_case(res, case, queue=None):
    """item 19, load path: views of a parent that came out of Screen.load_h5 with NaN / +-inf observations"""
    raw = case["raw"]
    E = Eval(raw, res, case)
    n = E.n
    for tree in (["S", case["mask"]], ["p", 0], ["q", ["S", [True] * n]], ["i", ["S", case["mask"]]], ["u"], ["o"]):
        try:
            v, exp = E.ev(tree)
        except Absent:
            continue
        check_to_screen(E, v, res, case)
    extras(E, raw, res, case, None, None, True, True)
    E.recheck_all()


def entry_and_load_classes(ctx, res, rng):
    stages = ["extract_screen_metadata", "reveal_plate", "prepare_retrospective_simulation"]
    for t in range(ctx.scale(9, 90)):
        stage = stages[t % 3]
        raw = G.entry_raw(rng, arity=2 if stage == "prepare_retrospective_simulation" else None)
        case = {"kind": "entry-point", "stage": stage, "raw": raw, "verbose": t % 2 == 0}
        if stage == "reveal_plate":
            pl = sorted(set(raw["pnames"]))
            unobs = [i for i, q in enumerate(pl) if not raw["mask"][raw["pnames"].index(q)]]
            case["plate_ids"] = sorted(set([0] + rng.sample(unobs, rng.randint(1, len(unobs))))) if t % 2 == 0 else rng.sample(unobs, 1)
        if stage == "prepare_retrospective_simulation":
            case["fraction"] = rng.choice([0.1, 0.3, 0.5])
            case["seed"] = rng.choice([0, 0, 1, 7])
        res.evaluations += 1
        res.count("class.entry-point." + stage)
        if case["verbose"]:
            res.count("class.verbose-logging")
        guarded(entry_point_case, res, case)
    for t in range(ctx.scale(6, 60)):
        raw = G.entry_raw(rng, nan_obs=True)
        raw["via_h5"] = "verbose" if t % 2 == 0 else "quiet"
        case = {"kind": "load-nan-inf", "raw": raw, "mask": gen_mask(rng, len(raw["snames"])), "verbose": t % 2 == 0}
        res.evaluations += 1
        res.count("class.load-nan-inf")
        if case["verbose"]:
            res.count("class.verbose-logging")
        guarded(load_case, res, case)



# ---------------------------------------------------------------- HARDENING_CHECKLIST item 23: partly observed plates through the public API

def gen_steps(rng, raw):
    """1-3 calls of Screen.set_observed with a mask covering PART of an unobserved plate, or Plate.merge of an observed plate into an unobserved
    one / the other way round; returns the steps (ids as they are at the time of each call)"""
    s = S.build(raw)
    steps = []
    for _ in range(rng.randint(1, 3)):
        ids = [int(x) for x in s.unique_plate_ids]
        mask = [bool(b) for b in s.observation_mask]
        pid = [int(x) for x in s.plate_ids]
        rows = {q: [i for i in range(len(pid)) if pid[i] == q] for q in ids}
        unobs = {q: [i for i in rows[q] if not mask[i]] for q in ids}
        has_obs = {q: any(mask[i] for i in rows[q]) for q in ids}
        cross = [(a, b) for a in ids for b in ids if a != b and has_obs[a] != has_obs[b]]
        part = [q for q in ids if len(unobs[q]) >= 2]
        kind = rng.choice(["set_observed", "set_observed", "merge"])
        if kind == "merge" and cross:
            a, b = rng.choice(cross)                    # observed.merge(unobserved) or unobserved.merge(observed)
            s.get_plate(a).merge(s.get_plate(b))
            steps.append(["merge", a, b])
        elif part:
            q = rng.choice(part)
            chosen = set(rng.sample(unobs[q], rng.randint(1, len(unobs[q]) - 1)))       # a strict, non-empty part of the plate
            if rng.random() < 0.3:
                other = [i for r in ids if r != q for i in unobs[r]]
                chosen |= set(rng.sample(other, min(len(other), rng.randint(0, 2))))
            m = [i in chosen for i in range(len(pid))]
            vals = [rng.choice([0.0, 0.25, 0.5, 0.9, 1.0]) for _ in range(sum(m))]
            s.set_observed(np.array(m, dtype=bool), np.array(vals, dtype=float))
            steps.append(["set_observed", m, vals])
        elif cross:
            a, b = rng.choice(cross)
            s.get_plate(a).merge(s.get_plate(b))
            steps.append(["merge", a, b])
    return steps


def mixed_plates(E, idx=None):
    """plate ids (among the rows `idx`, default all) that contain both observed and unobserved rows"""
    st = {}
    for i in (range(E.n) if idx is None else idx):
        st.setdefault(E.parent["plate_ids"][i], set()).add(E.parent["observation_mask"][i])
    return sorted(q for q, v in st.items() if len(v) == 2)


def to_screen_tolerant(E, v, res, case):
    """to_screen of a view; a view that contains a partly observed plate is refused by Screen(...) (constructor invariant): that is not a failure here"""
    idx = [i for i, b in enumerate(v.selection_vector) if b]
    try:
        t = check_to_screen(E, v, res, case)
        return S.show_screen(t) + "|" + S.show_rows(t)
    except ValueError as e:
        if mixed_plates(E, idx):
            res.count("to_screen.partly-observed-plate-refused")
            return S.err_tok(e)
        res.fail("to_screen() of a view of a valid screen raises", case, "%s: %s" % (type(e).__name__, e), "a screen", signature="C14:to_screen:raises")
        return S.err_tok(e)


def partly_observed_case(res, case, queue=None):
    raw = case["raw"]
    E = Eval(raw, res, case, case.get("lseed", 0))
    s = E.screen
    n = E.n
    mask = E.parent["observation_mask"]
    res.count("class.partly-observed-plates." + ("mixed" if mixed_plates(E) else "uniform"))
    eraw = dict(raw, pnames=E.parent["plate_names"], obs=[float(x) for x in s.observations], mask=[False] * n, tmap=None, smap=None)
    for k in ("merges", "steps", "via_h5"):
        eraw.pop(k, None)
    toks = S.sel_tok(mask) + " %s " + S.raw_to_tokens(eraw)
    # the split itself: observed view = rows where mask, unobserved view = rows where ~mask, None exactly for an empty side
    vo, vu = s.subset_observed(), s.subset_unobserved()
    so = [bool(b) for b in vo.selection_vector] if vo is not None else None
    su = [bool(b) for b in vu.selection_vector] if vu is not None else None
    if (so is not None and so != mask) or (su is not None and su != [not b for b in mask]) or (so is None and any(mask)) or (su is None and not all(mask)):
        res.fail("the observed / unobserved views do not split the screen by its mask (every row in exactly one of them: observed rows in the observed "
                 "view, the others in the unobserved view)", case, {"observed": so, "unobserved": su}, {"observed": mask, "unobserved": [not b for b in mask]},
                 signature="C14:split")
    trees = [["o"], ["u"], ["c", ["o"], ["u"]], ["i", ["o"]], ["i", ["u"]], ["q", ["u"]], ["q", ["o"]], ["n", [["u"], ["o"]]]]
    nu = sum(1 for b in mask if not b)
    if nu:
        trees.append(["s", ["u"], case["inner"][:nu] + [True] * max(0, nu - len(case["inner"]))])
    for q in mixed_plates(E)[:2]:
        trees += [["p", q], ["c", ["p", q], ["u"]]]
    trees.append(case["tree"])
    for tree in trees:
        try:
            v, _ = E.ev(tree)
        except Exception as e:      # noqa: BLE001
            if queue is not None:
                queue("vexprm " + toks % S.lst(rpn(tree), "+"), err_tok(e), case)
            continue
        if v.screen is not E.screen:
            continue
        out = to_screen_tolerant(E, v, res, case)
        if queue is not None:
            queue("vexprm " + toks % S.lst(rpn(tree), "+"), show_view(v), case)
            queue("vscreenm " + toks % S.lst(rpn(tree), "+"), out, case)
    extras(E, raw, res, case, None, None, True, True)
    E.check_alias("partly-observed")
    E.recheck_all()


def partly_observed_class(ctx, res, rng, queue):
    n_max = 12 if ctx.tier == "quick" else 24
    done = 0
    for t in range(ctx.scale(40, 400)):
        if done >= ctx.scale(14, 140):
            break
        raw = gen_screen(rng, n_max)
        if len(raw["snames"]) < 4 or len(set(raw["pnames"])) < 2 or raw.get("mask") is None:
            continue
        raw["steps"] = gen_steps(rng, raw)
        if not raw["steps"]:
            continue
        done += 1

        def sizes_of(tree, raw=raw):
            E, v, err = run_tree(raw, tree, None, None)
            return None if v is None else int(v.size)

        case = {"kind": "partly-observed", "raw": raw, "tree": gen_tree(rng, raw, rng.randint(2, 4), sizes_of, allow_foreign=False),
                "inner": gen_mask(rng, len(raw["snames"])), "lseed": rng.randrange(1 << 30), "verbose": done % 4 == 0}
        res.evaluations += 1
        res.count("class.partly-observed-plates")
        if case["verbose"]:
            res.count("class.verbose-logging")
        guarded(partly_observed_case, res, case, queue)



def run(ctx, res):
    res.rule = RULE
    rng = ctx.subrng("c14")
    n_trees = ctx.scale(300, 4000, 2500)
    n_max = 14 if ctx.tier == "quick" else 30
    max_depth = 4 if ctx.tier == "quick" else 8
    lines, expect, where = [], [], []
    seen_lines = set()

    def queue(line, out, w):
        if line in seen_lines:
            return
        seen_lines.add(line)
        lines.append(line)
        expect.append(out)
        where.append(w)

    # first, so that an identity-keyed cache is reported on a case whose replay re-creates the address reuse
    checklist_classes(ctx, res, ctx.subrng("c14", "classes"), queue)
    entry_and_load_classes(ctx, res, ctx.subrng("c14", "entry"))
    partly_observed_class(ctx, res, ctx.subrng("c14", "partly"), queue)
    for t in range(n_trees):
        raw = gen_screen(rng, n_max)
        if len(set(raw["pnames"])) >= 2 and rng.random() < 0.4:
            raw["merges"] = gen_merges(rng, raw)
        toks = S.raw_to_tokens(effective_raw(raw))         # the model is given the parent's rows as they are after the merges
        res.count("parent.merges=%d" % len(raw.get("merges") or []))

        def sizes_of(tree, raw=raw):
            E, v, err = run_tree(raw, tree, None, None)
            return None if v is None else int(v.size)

        tree = gen_tree(rng, raw, rng.randint(2, max_depth), sizes_of)
        lseed = rng.randrange(1 << 30)
        case = {"raw": raw, "tree": tree, "lseed": lseed}
        if t % 6 == 0:
            case["verbose"] = True              # item 19: the slice that runs under DEBUG logging (same oracles, same model lines)
            res.count("class.verbose-logging")
        res.evaluations += 1
        with G.vctx(case.get("verbose")):
            E, v, err = run_tree(raw, tree, res, case, lseed)
        res.count("root." + tree[0])
        res.count("ste.parent-" + E.ste_kind)
        res.count("ops.%s" % ("1-2" if n_ops(tree) <= 2 else "3-6" if n_ops(tree) <= 6 else "7+"))
        res.count("result." + ("ok" if err is None else err))
        if err is None and n_ops(tree) >= 3 and has_nested(tree) and len(raw["snames"]) >= 3:
            res.nontrivial.add(common.short_hash(case))
        # model tie: every evaluated subtree, and the whole tree (error class when it failed)
        for sub, out in E.nodes:
            queue("vexpr " + S.lst(rpn(sub), "+") + " " + toks, out, case)
        if err is not None:
            queue("vexpr " + S.lst(rpn(tree), "+") + " " + toks, err, case)
        elif v.screen is E.screen:
            queue("vderived " + S.lst(rpn(tree), "+") + " " + toks, derived_view_tok(v), case)
        # to_screen of the root (and of one random inner node)
        if v is not None and v.screen is E.screen:
            picks = [(tree, v)]
            if len(E.live) > 1 and rng.random() < 0.5:
                j = rng.randrange(len(E.live))
                if E.live[j][0].screen is E.screen:
                    picks.append((E.nodes[j][0], E.live[j][0]))
            for sub, vv in picks:
                try:
                    tscreen = check_to_screen(E, vv, res, case)
                    out = S.show_screen(tscreen) + "|" + S.show_rows(tscreen)
                except Exception as e:      # noqa: BLE001
                    out = S.err_tok(e)
                    res.fail("to_screen() of a view of a valid screen raises", case, "%s: %s" % (type(e).__name__, e), "a screen",
                             signature="C14:to_screen:raises")
                queue("vscreen " + S.lst(rpn(sub), "+") + " " + toks, out, case)
                E.check_alias("to_screen")
        if rng.random() < 0.01:
            res.sample({"tree": S.lst(rpn(tree), "+"), "rows": len(raw["snames"]), "impl": (err or E.nodes[-1][1])[:200]})
        extras(E, raw, res, case, toks, queue, do_unique=(t % 4 == 1), do_plates=(t % 4 == 0))
    unique_direct(ctx, res, ctx.subrng("c14", "uniq"), queue)
    if ctx.driver is not None:
        got = ctx.driver.ask(lines)
        for l, e, g, c in zip(lines, expect, got, where):
            if e != g and (l.startswith("vderived ") or g.startswith("err:") or g.startswith("view-err:")):
                # derived scalar properties, and what the code does where the MODEL says the operation is inapplicable / malformed (wrong-length
                # mask, absent observed view, ...), are outside the text of C14 (refusing views of another parent is an oracle of its own): advisory.
                # An operation the model performs but the code refuses stays a broken tie.
                res.advise("outside the text of C14: model and implementation disagree (%s)" % l.split(" ")[0], {"line": l[:1500]}, e[:600], g[:600],
                           signature="C14:ext-tie:" + l.split(" ")[0] + (":error" if not l.startswith("vderived ") else ""))
            elif e != g:
                res.disagree("C14:" + l.split(" ")[0], {"line": l[:1500], "tree": c.get("tree", c.get("cols"))}, e[:600], g[:600])
        res.traces_validated += len(lines)


def replay(ctx, case, res):
    if case.get("kind") == "entry-point":
        guarded(entry_point_case, res, case)
        return
    if case.get("kind") == "load-nan-inf":
        guarded(load_case, res, case)
        return
    if case.get("kind") == "partly-observed":
        guarded(partly_observed_case, res, case)
        return
    with G.vctx(case.get("verbose") and case.get("kind") not in ("temporaries", "instalments", "int-width")):
        replay_inner(ctx, case, res)


def replay_inner(ctx, case, res):
    if case.get("kind") == "select_unique":
        from batchie.common import select_unique_zipped_numpy_arrays
        cols = case["cols"]
        try:
            got = [bool(b) for b in select_unique_zipped_numpy_arrays([np.array(c, dtype=int) for c in cols])]
            out = "ok " + S.sel_tok(got)
        except Exception as e:      # noqa: BLE001
            got, out = None, S.err_tok(e)
        check_unique_direct(res, case, cols, got, out)
        return
    if case.get("kind") == "temporaries":
        guarded(temporaries_case, res, case)
        return
    if case.get("kind") == "instalments":
        guarded(instalments_case, res, case)
        return
    if case.get("kind") == "int-width":
        guarded(int_width_case, res, case)
        return
    E, v, err = run_tree(case["raw"], case["tree"], res, case, case.get("lseed", 0))
    if v is not None and v.screen is E.screen:
        try:
            check_to_screen(E, v, res, case)
        except Exception as e:      # noqa: BLE001
            res.fail("to_screen() of a view of a valid screen raises", case, "%s: %s" % (type(e).__name__, e), "a screen",
                     signature="C14:to_screen:raises")
        E.check_alias("to_screen")
    extras(E, case["raw"], res, case, None, None, True, True)
