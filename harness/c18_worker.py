"""C18 cross-process worker: runs a list of seeded cases (JSON file given as argv[1]) in THIS interpreter process and prints one
canonical digest per case as a JSON list.  The parent (harness/c18.py) launches it several times with different PYTHONHASHSEED
values: a seeded step whose output depends on the per-process string-hash salt (iteration over a set of names deciding which draw
goes to which item) is not reproducible across processes although it is inside one process.

No instrumentation here: plain numpy generators, no torch / pyro import."""
import gc
import json
import os
import shutil
import sys
import tempfile

sys.path.insert(0, os.path.dirname(os.path.dirname(os.path.abspath(__file__))))
from vlib import common  # noqa: E402

common.use_repo_sources()          # honours BATCHIE_REPO exactly like the harness does

import types  # noqa: E402

# the command-line steps resolve class names by importing every batchie module in turn (introspection.get_class); the pyro/torch
# VI modules are irrelevant here and cost seconds to import: give the import system empty stand-ins for them
for _name in ("batchie.models.grid_combo", "batchie.models.grid_helper"):
    sys.modules.setdefault(_name, types.ModuleType(_name))

import numpy as np  # noqa: E402
from harness import c18 as H  # noqa: E402


class _NoInstr:
    def __init__(self):
        self.events = []
        self.stages = []
        self.wrapper_errors = []


def run_one(case):
    tmp = tempfile.mkdtemp(prefix="verif_c18x_")
    try:
        np.random.seed(case.get("gseed", 0) % (2 ** 32))
        G = np.random.default_rng(case["seed"])
        try:
            if case["op"] == "tight":
                return "|".join(common.short_hash(x) if not x.startswith("err:") else x for x in H.run_tight(case).split("|"))
            if case.get("verbose") and os.environ.get("C18X_VERBOSE") == "1":
                with common.verbose_logging():
                    H._VERBOSE[0] = True
                    try:
                        _, _, out = H.OPS[case["op"]](case, G, _NoInstr(), tmp)
                    finally:
                        H._VERBOSE[0] = False
            else:
                _, _, out = H.OPS[case["op"]](case, G, _NoInstr(), tmp)
            return common.short_hash(out)
        except Exception as e:
            return "err:" + type(e).__name__
    finally:
        shutil.rmtree(tmp, ignore_errors=True)
        # Screen <-> Plate reference cycles keep the inputs of a case alive until the cyclic collector runs; collect now, so that the next
        # case's objects are allocated at the addresses just freed (checklist item 10: identity-keyed caches on temporaries)
        gc.collect()


def main():
    import logging
    logging.disable(logging.CRITICAL)          # verbose_logging() overrides this for the marked cases
    with open(sys.argv[1]) as f:
        cases = json.load(f)
    out = [run_one(c) for c in cases]
    sys.stdout.write("C18X " + json.dumps({"hashseed": os.environ.get("PYTHONHASHSEED"), "digests": out, "torch_imported": "torch" in sys.modules}) + "\n")


if __name__ == "__main__":
    main()
