"""In-process emulation of the nextflow pipeline that `nextflow/scripts/batchie.py` launches (nextflow is not installed).

`NfEmulator.check_call(cmd, cwd)` takes the place of `subprocess.check_call` in the script module.  It reads the command
line the way `nextflow run main.nf` would (`--name value` pipeline parameters, `--excludes=a,b`, `-work-dir`) and runs the
processes of the selected entry workflow by calling the REAL `batchie.cli.<tool>.main()` functions in-process with a
patched `sys.argv` -- exactly the command lines of the `script:` blocks of `nextflow/modules/nf-core/batchie/*/main.nf`,
wired as in `nextflow/workflows/nf-core/batchie/*/main.nf` and `nextflow/subworkflows/nf-core/batchie/*/main.nf`:

  --mode retrospective (RETROSPECTIVE -> RUN_RETROSPECTIVE_STEP)
      [--initialize true: PREPARE_RETROSPECTIVE_SIMULATION(screen) -> training.screen.h5, test.screen.h5]
      TRAIN_MODEL(training, chain c of n_chains)            -> thetas_<c>.h5
      EVALUATE_MODEL(it[1] = TRAINING screen (sic), thetas)  -> model_evaluation.h5    (not upstream of the marker)
      [ANALYZE_MODEL_EVALUATION -> model_evaluation_analysis/   (pdf plots; off by default here: slow)]
      CALCULATE_DISTANCE_MATRIX_CHUNK(training, thetas, k)   -> distance_matrix_chunk_<k>.h5
      CALCULATE_SCORE_CHUNK(training, thetas, dist, [], k)   -> score_chunk_<k>.h5
      SELECT_NEXT_PLATE(training, [], scores)                -> selected_plate
      REVEAL_PLATE(training, [selected])                     -> advanced_screen.h5
      EXTRACT_SCREEN_METADATA(advanced)                      -> screen_metadata.json
      (the test screen, it[2], is not used by any process of RUN_RETROSPECTIVE_STEP)
  --mode next_plate (NEXT_BATCH_PLATE -> SELECT_NEXT_BATCH_PLATE)
      CALCULATE_SCORE_CHUNK(screen, file(thetas glob), file(dist glob), excludes, k), SELECT_NEXT_PLATE(screen, excludes,
      scores), REVEAL_PLATE (params.reveal), EXTRACT_SCREEN_METADATA
  --mode prospective (PROSPECTIVE -> RUN_PROSPECTIVE_STEP): TRAIN_MODEL, EVALUATE_MODEL, CALCULATE_DISTANCE_MATRIX_CHUNK,
      CALCULATE_SCORE_CHUNK, SELECT_NEXT_PLATE; EXTRACT_SCREEN_METADATA(ch_input) has no dependency (marker first possible)

Every process runs in its own task directory `<work-dir>/<launch>_<n>/` writing `<name>/<file>` (prefix = meta.id = --name);
finished outputs are PUBLISHED into `<outdir>/<name>/` as symlinks into the task directory (publishDir = params.outdir,
default mode symlink), one file at a time.  The order in which ready processes run is drawn from a seeded generator (nextflow
runs independent processes concurrently), so e.g. EVALUATE_MODEL may finish after the completion marker is published.
`tick(label)` is called before every process start and before every publication: the harness raises its interruption
from there.  `ext.args` of the processes (nextflow/config/example_retrospective.config and the integration-test config) are
given by `cfg`.
"""
import contextlib
import glob as globmod
import io
import logging
import os
import random
import sys


def _sha(path):
    import hashlib
    if path is None or not os.path.isfile(path):
        return None
    with open(path, "rb") as f:
        return hashlib.sha256(f.read()).hexdigest()


class PipelineError(Exception):
    """the pipeline cannot run (missing input file, bad parameter): nextflow would exit non-zero"""


def _cli(name):
    import importlib
    return importlib.import_module("batchie.cli." + name)


VERBOSE = [False]        # set by the harness for a slice of the simulations: every CLI main gets --verbose, logging stays on
CALLS = {}               # tool -> number of real main() calls (evidence counters class.entry-point.<tool>)


def call_cli(tool, argv):
    """`<tool> <argv>` as the process script would run it: real main() with a patched sys.argv"""
    mod = _cli(tool)
    CALLS[tool] = CALLS.get(tool, 0) + 1
    old = sys.argv
    sys.argv = [tool] + [str(a) for a in argv] + (["--verbose"] if VERBOSE[0] else [])
    prev = logging.root.manager.disable
    lg = logging.getLogger("batchie")
    handlers, level = list(lg.handlers), lg.level
    if not VERBOSE[0]:
        logging.disable(logging.CRITICAL)
    try:
        with contextlib.redirect_stdout(io.StringIO()), contextlib.redirect_stderr(io.StringIO()):
            try:
                mod.main()
            except SystemExit as e:      # argparse error = non-zero exit of the process
                raise PipelineError("%s exited with %s" % (tool, e.code))
    finally:
        sys.argv = old
        logging.disable(prev)
        lg.handlers = handlers          # configure_logging adds a StreamHandler per call: dropped again
        lg.setLevel(level)


DEFAULT_CFG = {
    "n_chains": 2, "n_chunks": 2,
    # ext.args as in nextflow/config/example_retrospective.config (tiny sampler settings)
    "train_args": ["--model", "SparseDrugCombo", "--model-param", "n_embedding_dimensions=2", "--n-burnin", "1",
                   "--n-samples", "3", "--thin", "1"],
    "dist_args": ["--distance-metric", "MSEDistance"],
    "score_args": ["--scorer", "RandomScorer"],
    "prepare_args": ["--plate-generator", "PlatePermutationPlateGenerator"],
    "select_args": [],
    "analyze": False,
    "schedule_seed": 0,
    "late_eval": False,
}


class Task:
    def __init__(self, name, deps, run, outputs):
        self.name, self.deps, self.run, self.outputs = name, deps, run, outputs


class NfEmulator:
    def __init__(self, cfg=None, tick=None, repo=None):
        self.cfg = dict(DEFAULT_CFG)
        self.cfg.update(cfg or {})
        self.tick = tick or (lambda label: None)
        self.repo = repo
        self.launches = []        # one record per call: parameters, published files, selection, completion
        self.n = 0

    # -- command line -------------------------------------------------------------------------------------
    def parse(self, cmd, cwd):
        cmd = [str(c) for c in cmd]
        if cmd[:2] != ["nextflow", "run"] or not cmd[2].endswith("main.nf") or not os.path.isfile(cmd[2]):
            raise PipelineError("not a `nextflow run <repo>/main.nf` command: %r" % cmd[:3])
        if self.repo is not None and (os.path.realpath(cmd[2]) != os.path.realpath(os.path.join(self.repo, "main.nf"))
                                      or os.path.realpath(cwd or "") != os.path.realpath(self.repo)):
            raise PipelineError("main.nf / cwd are not the repository's")
        params, opts = {}, {}
        i = 3
        while i < len(cmd):
            c = cmd[i]
            if c.startswith("--"):
                if "=" in c:
                    k, v = c[2:].split("=", 1)
                    params[k] = v
                    i += 1
                elif i + 1 < len(cmd) and not cmd[i + 1].startswith("-"):
                    params[c[2:]] = cmd[i + 1]
                    i += 2
                else:
                    params[c[2:]] = "true"
                    i += 1
            elif c.startswith("-"):
                if i + 1 < len(cmd) and not cmd[i + 1].startswith("-"):
                    opts[c[1:]] = cmd[i + 1]
                    i += 2
                else:
                    opts[c[1:]] = "true"
                    i += 1
            else:
                raise PipelineError("stray argument %r" % c)
        return params, opts

    @staticmethod
    def need_file(path):
        # file(params.x, checkIfExists: true)
        if path is None or not os.path.isfile(path):
            raise PipelineError("input file does not exist: %s" % path)
        return path

    # -- entry point ----------------------------------------------------------------------------------------
    def check_call(self, cmd, cwd=None):
        params, opts = self.parse(cmd, cwd)
        mode = params.get("mode")
        name = params.get("name") or "batchie"
        outdir = params.get("outdir")
        work = opts.get("work-dir") or os.path.join(os.getcwd(), "work")
        if outdir is None:
            raise PipelineError("no --outdir")
        n_chains = int(params.get("n_chains", self.cfg["n_chains"]))
        n_chunks = int(params.get("n_chunks", self.cfg["n_chunks"]))
        self.n += 1
        rec = {"n": self.n, "mode": mode, "step": None, "params": dict(params), "outdir": outdir, "name": name, "work": work,
               "published": [], "ran": [], "selected": None, "completed": False, "all_done": False, "inputs": {}}
        self.launches.append(rec)
        tasks = self.build(mode, params, name, n_chains, n_chunks, rec)
        self.execute(tasks, rec, outdir, name, work)
        rec["completed"] = True
        rec["all_done"] = True

    # -- workflows --------------------------------------------------------------------------------------------
    def build(self, mode, params, name, n_chains, n_chunks, rec):
        cfg = self.cfg
        T = []
        P = lambda d, f: os.path.join(d, name, f)          # noqa: E731  "${prefix}/<file>" inside a task directory
        out = {}                                            # task name -> its task directory (set when it runs)

        def add(tname, deps, outputs, fn):
            def run(d):
                os.makedirs(os.path.join(d, name), exist_ok=True)      # mkdir -p "${prefix}"
                out[tname] = d
                fn(d)
            T.append(Task(tname, deps, run, outputs))

        def thetas_of():
            return [P(out["TRAIN_MODEL_%d" % c], "thetas_%d.h5" % c) for c in range(n_chains)]

        def dist_of():
            return [P(out["CALCULATE_DISTANCE_MATRIX_CHUNK_%d" % k], "distance_matrix_chunk_%d.h5" % k) for k in range(n_chunks)]

        def scores_of():
            return [P(out["CALCULATE_SCORE_CHUNK_%d" % k], "score_chunk_%d.h5" % k) for k in range(n_chunks)]

        def read_selected():
            with open(P(out["SELECT_NEXT_PLATE"], "selected_plate")) as f:
                return f.read().strip()            # SELECTED_PLATE=$(cat ${prefix}/selected_plate)

        def train_chain(data_fn, deps):
            for c in range(n_chains):
                add("TRAIN_MODEL_%d" % c, deps, ["thetas_%d.h5" % c],
                    lambda d, c=c: call_cli("train_model", ["--data", data_fn(), "--chain-index", c, "--n-chains", n_chains,
                                                            "--output", P(d, "thetas_%d.h5" % c)] + cfg["train_args"]))
            chains = ["TRAIN_MODEL_%d" % c for c in range(n_chains)]
            add("EVALUATE_MODEL", chains, ["model_evaluation.h5"],
                lambda d: call_cli("evaluate_model", ["--screen", data_fn(), "--thetas"] + thetas_of() +
                                   ["--output", P(d, "model_evaluation.h5")]))
            if cfg["analyze"]:
                add("ANALYZE_MODEL_EVALUATION", ["EVALUATE_MODEL"], ["model_evaluation_analysis"],
                    lambda d: call_cli("analyze_model_evaluation", ["--screen", data_fn(), "--thetas"] + thetas_of() +
                                       ["--model-evaluation", P(out["EVALUATE_MODEL"], "model_evaluation.h5"),
                                        "--output-dir", P(d, "model_evaluation_analysis")]))
            for k in range(n_chunks):
                add("CALCULATE_DISTANCE_MATRIX_CHUNK_%d" % k, chains, ["distance_matrix_chunk_%d.h5" % k],
                    lambda d, k=k: call_cli("calculate_distance_matrix", ["--data", data_fn(), "--thetas"] + thetas_of() +
                                            ["--chunk-index", k, "--n-chunks", n_chunks,
                                             "--output", P(d, "distance_matrix_chunk_%d.h5" % k)] + cfg["dist_args"]))
            return chains, ["CALCULATE_DISTANCE_MATRIX_CHUNK_%d" % k for k in range(n_chunks)]

        def score_select(data_fn, thetas_fn, dist_fn, excludes, deps):
            ex_score = ["--batch-plate-ids"] + excludes if " ".join(excludes).strip() != "" else []
            ex_sel = ["--batch-plate-id"] + excludes if " ".join(excludes).strip() != "" else []
            for k in range(n_chunks):
                add("CALCULATE_SCORE_CHUNK_%d" % k, deps, ["score_chunk_%d.h5" % k],
                    lambda d, k=k: call_cli("calculate_scores", ["--data", data_fn(), "--thetas"] + thetas_fn() +
                                            ["--distance-matrix"] + dist_fn() + ["--chunk-index", k, "--n-chunks", n_chunks] +
                                            ex_score + ["--output", P(d, "score_chunk_%d.h5" % k)] + cfg["score_args"]))

            def select(d):
                call_cli("select_next_plate", ["--data", data_fn(), "--scores"] + scores_of() + ex_sel +
                         ["--output", P(d, "selected_plate")] + cfg["select_args"])
                out["SELECT_NEXT_PLATE"] = d
                rec["selected"] = read_selected()
            add("SELECT_NEXT_PLATE", ["CALCULATE_SCORE_CHUNK_%d" % k for k in range(n_chunks)], ["selected_plate"], select)

        def reveal_and_meta(data_fn):
            add("REVEAL_PLATE", ["SELECT_NEXT_PLATE"], ["advanced_screen.h5"],
                lambda d: call_cli("reveal_plate", ["--screen", data_fn(), "--plate-id", read_selected(),
                                                    "--output", P(d, "advanced_screen.h5")]))
            add("EXTRACT_SCREEN_METADATA", ["REVEAL_PLATE"], ["screen_metadata.json"],
                lambda d: call_cli("extract_screen_metadata", ["--screen", P(out["REVEAL_PLATE"], "advanced_screen.h5"),
                                                               "--output", P(d, "screen_metadata.json")]))

        if mode == "retrospective":
            init = str(params.get("initialize", "false")).lower() == "true"
            if init:
                screen = params.get("screen")          # file(params.screen): no existence check in the workflow
                rec["inputs"] = {"screen": screen}
                add("PREPARE_RETROSPECTIVE_SIMULATION", [], ["training.screen.h5", "test.screen.h5"],
                    lambda d: call_cli("prepare_retrospective_simulation",
                                       ["--data", self.need_file(screen), "--training-output", P(d, "training.screen.h5"),
                                        "--test-output", P(d, "test.screen.h5")] + cfg["prepare_args"]))
                data_fn = lambda: P(out["PREPARE_RETROSPECTIVE_SIMULATION"], "training.screen.h5")      # noqa: E731
                deps0 = ["PREPARE_RETROSPECTIVE_SIMULATION"]
            else:
                training, test = params.get("training_screen"), params.get("test_screen")
                rec["inputs"] = {"training_screen": training, "test_screen": test}
                rec["input_sha"] = _sha(training)
                data_fn = lambda: self.need_file(training)      # noqa: E731   (file(params.test_screen) is never staged)
                deps0 = []
            chains, dists = train_chain(data_fn, deps0)
            score_select(data_fn, thetas_of, dist_of, [], chains + dists)
            reveal_and_meta(data_fn)
        elif mode == "next_plate":
            screen = self.need_file(params.get("screen"))
            thetas = sorted(globmod.glob(params.get("thetas") or ""))
            dist = sorted(globmod.glob(params.get("distance_matrix") or ""))
            if not thetas or not dist:
                raise PipelineError("thetas / distance_matrix glob matches nothing")
            excludes = [x for x in str(params.get("excludes")).split(",") if x != ""] if params.get("excludes") is not None else []
            rec["inputs"] = {"screen": screen, "thetas": thetas, "distance_matrix": dist, "excludes": list(excludes)}
            rec["input_sha"] = _sha(screen)
            score_select(lambda: screen, lambda: thetas, lambda: dist, excludes, [])
            if str(params.get("reveal", "false")).lower() == "true":
                reveal_and_meta(lambda: screen)
            else:
                add("EXTRACT_SCREEN_METADATA", ["SELECT_NEXT_PLATE"], ["screen_metadata.json"],
                    lambda d: call_cli("extract_screen_metadata", ["--screen", screen, "--output", P(d, "screen_metadata.json")]))
        elif mode == "prospective":
            screen = self.need_file(params.get("screen"))
            rec["inputs"] = {"screen": screen}
            chains, dists = train_chain(lambda: screen, [])
            score_select(lambda: screen, thetas_of, dist_of, [], chains + dists)
            add("EXTRACT_SCREEN_METADATA", [], ["screen_metadata.json"],
                lambda d: call_cli("extract_screen_metadata", ["--screen", screen, "--output", P(d, "screen_metadata.json")]))
        else:
            raise PipelineError("unknown --mode %r (no workflow runs)" % mode)
        return T

    # -- executor ---------------------------------------------------------------------------------------------
    def execute(self, tasks, rec, outdir, name, work):
        job = "/".join(os.path.normpath(outdir).split(os.sep)[-2:])          # iter_<i>/plate_<j>
        rng = random.Random("%s/%s/%s" % (self.cfg["schedule_seed"], rec["mode"], job))
        done = set()
        pending = list(tasks)
        k = 0
        while pending:
            ready = [t for t in pending if all(d in done for d in t.deps)]
            if not ready:
                raise PipelineError("dependency cycle")
            if self.cfg.get("late_eval"):
                # a legal schedule: model evaluation (not upstream of the marker) finishes after everything else
                others = [t for t in ready if not t.name.startswith(("EVALUATE_MODEL", "ANALYZE_MODEL_EVALUATION"))]
                ready = others or ready
            t = rng.choice(ready)
            pending.remove(t)
            self.tick("%s:start:%s" % (job, t.name))
            k += 1
            d = os.path.join(work, "%02d_%02d" % (rec["n"], k))
            os.makedirs(d, exist_ok=True)
            t.run(d)
            rec["ran"].append(t.name)
            for fn in t.outputs:
                src = os.path.join(d, name, fn)
                if not os.path.exists(src):
                    raise PipelineError("process %s did not produce %s" % (t.name, fn))
                self.tick("%s:publish:%s" % (job, fn))
                os.makedirs(os.path.join(outdir, name), exist_ok=True)
                dst = os.path.join(outdir, name, fn)
                if os.path.lexists(dst):
                    os.unlink(dst)            # publishDir overwrites
                os.symlink(src, dst)
                rec["published"].append((fn, src))
                if fn == "screen_metadata.json" and rec["mode"] != "prospective":
                    # in the retrospective / next_plate workflows the marker is downstream of every file the script reads:
                    # from here on the step IS complete for the script, whatever else (model evaluation) is still running
                    rec["completed"] = True
            with open(os.path.join(outdir, "versions.yml"), "w") as f:      # path "versions.yml" is published to outdir itself
                f.write('"%s":\n    batchie: emulated\n' % t.name)
            done.add(t.name)
