"""C07 -- pairwise-distance chunks partition the work and assemble to the same matrix.

Tie: translated kernels (lower_triangular_indices, number of indices, chunk bounds) and the hand
model of ChunkedDistanceMatrix are executed by the Lean driver on the same inputs as the real
functions.  Oracles (on the implementation alone): partition / balance / assembly / refusal /
metric laws.
"""
import itertools
import os
import shutil
import tempfile

import numpy as np

from vlib import common

common.use_repo_sources()

RULE = ("(n, n_chunks) grids: exhaustive for small n, boundary + random chunk counts for larger n; "
        "assemblies: real calculate/save/load/concat/to_dense with a stub metric encoding (i,j), chunk files "
        "shuffled with repeats. Non-trivial: n>=3 and 2<=n_chunks (partition) / at least 2 non-empty chunks (assembly).")


def stub_metric(z, i, j):
    v = i * 1000 + j + 1
    if z > 0 and v % z == 0:
        return 0
    return v


class StubTheta:
    def __init__(self, i):
        self.i = i

    def predict_viability(self, data):
        return self.i


class StubThetas:
    def __init__(self, n):
        self.n_thetas = n

    def get_theta(self, i):
        return StubTheta(int(i))


class StubMetric:
    def __init__(self, z):
        self.z = z

    def distance(self, a, b):
        return float(stub_metric(self.z, a, b))


def show_pairs(l):
    return "-" if not l else ";".join("%d,%d" % (a, b) for a, b in l)


def show_cdm(m):
    n = m.current_index
    es = [(int(m.row_indices[i]), int(m.col_indices[i]), m.values[i]) for i in range(n)]
    for e in es:
        if float(e[2]) != int(e[2]):
            return "non-integer value %r" % (e[2],)
    body = "-" if not es else ";".join("%d,%d,%d" % (a, b, int(c)) for a, b, c in es)
    return "%d %s" % (int(m.size), body)


def cdm_arg(m):
    n = m.current_index
    es = [(int(m.row_indices[i]), int(m.col_indices[i]), int(m.values[i])) for i in range(n)]
    return "%d|%s" % (int(m.size), "-" if not es else ";".join("%d,%d,%d" % e for e in es))


def grid(ctx):
    nmax_exh = ctx.scale(9, 14, 12)
    nmax = ctx.scale(40, 120, 80)
    rng = ctx.subrng("grid")
    out = []
    for n in range(0, nmax_exh + 1):
        N = n * (n - 1) // 2
        for k in range(1, N + 4):
            out.append((n, k))
    per = ctx.scale(4, 10, 8)
    for n in range(nmax_exh + 1, nmax + 1):
        N = n * (n - 1) // 2
        ks = {1, 2, 3, n, N - 1, N, N + 1, N + 3}
        while len(ks) < 8 + per:
            ks.add(rng.randint(1, N + 3))
        for k in sorted(ks):
            if k >= 1:
                out.append((n, k))
    return out


def run(ctx, res):
    from batchie import distance_calculation as dc
    from batchie.distance.mse import MSEDistance

    res.rule = RULE
    drv = ctx.driver

    # ---------- A. index arithmetic -----------------------------------------------------
    lines, expect, meta = [], [], []
    for n in range(0, ctx.scale(30, 60)):
        lines.append("numlowertri %d" % n)
        expect.append(str(dc.get_number_of_lower_triangular_indices(n)))
        meta.append(("numlowertri", n))
        lines.append("lowertri %d" % n)
        expect.append(show_pairs(list(dc.lower_triangular_indices(n))))
        meta.append(("lowertri", n))
    g = grid(ctx)
    budget_big = ctx.scale(60, 400)
    rng = ctx.subrng("chunks")
    for (n, k) in g:
        N = n * (n - 1) // 2
        full = list(dc.lower_triangular_indices(n))
        # oracle on the implementation: chunks partition `full`, contiguous, balanced
        cs = range(k)
        if k > 40 and n > 14:
            # large chunk counts: all chunks still enumerated for the oracle when cheap, else sampled
            if k * N > 200000:
                cs = sorted(set([0, 1, k - 1, k - 2] + [rng.randrange(k) for _ in range(budget_big // 10)]))
                cs = [c for c in cs if 0 <= c < k]
        chunks = {}
        for c in cs:
            try:
                chunks[c] = dc.get_lower_triangular_indices_chunk(n, c, k)
            except Exception as e:  # noqa
                chunks[c] = "err:" + type(e).__name__
        res.evaluations += 1
        if n >= 3 and k >= 2:
            res.nontrivial.add(("part", n, k))
        res.count("partition.n_le_14" if n <= 14 else "partition.n_gt_14")
        if k > N:
            res.count("partition.more_chunks_than_pairs")
        case = {"kind": "partition", "n": n, "n_chunks": k}
        if any(isinstance(v, str) for v in chunks.values()):
            res.fail("chunk raises on valid input", case, [str(v) for v in chunks.values() if isinstance(v, str)][:1], "no exception")
            continue
        if len(chunks) == k:
            cat = [p for c in range(k) for p in chunks[c]]
            if cat != full:
                res.fail("chunks do not partition the lower-triangular pairs", case,
                         {"concatenated_len": len(cat), "distinct": len(set(cat)), "missing": [list(p) for p in sorted(set(full) - set(cat))][:5],
                          "duplicated": [list(p) for p in sorted(set(p for p in cat if cat.count(p) > 1))][:5]},
                         "concatenation over chunk indices equals every pair i>j exactly once")
            sizes = [len(chunks[c]) for c in range(k)]
            if max(sizes) - min(sizes) > 1:
                res.fail("chunk sizes differ by more than one", case, sizes[:20], "max-min <= 1")
        else:
            for c in chunks:
                for p in chunks[c]:
                    if tuple(p) not in set(full):
                        res.fail("chunk yields a pair outside the lower triangle", case, list(p), "pairs j<i<n")
        # tie: same chunks from the model (sampled chunk indices to bound the line count)
        pick = list(chunks.keys())
        if len(pick) > 6:
            pick = sorted(set([pick[0], pick[-1]] + rng.sample(pick, 4)))
        for c in pick:
            lines.append("chunk %d %d %d" % (n, c, k))
            expect.append(show_pairs(chunks[c]))
            meta.append(("chunk", n, c, k))
    # malformed stream: errors on both sides
    for (n, c, k) in [(3, 0, 0), (3, 3, 3), (3, 5, 2), (4, -1, 0), (0, 0, 1), (1, 0, 1), (2, 0, 5)]:
        try:
            v = show_pairs(dc.get_lower_triangular_indices_chunk(n, c, k))
        except (AssertionError, ZeroDivisionError, ValueError):
            v = "err"
        lines.append("chunk %d %d %d" % (n, c, k))
        expect.append(v)
        meta.append(("chunk-malformed", n, c, k))
        res.count("malformed")

    # ---------- B. assembly through real save/load/concat -------------------------------
    tmp = tempfile.mkdtemp(prefix="c07_", dir=os.environ.get("VERIF_TMP", None))
    try:
        n_asm = ctx.scale(60, 1200, 500)
        rng = ctx.subrng("asm")
        for t in range(n_asm):
            n = rng.choice([0, 1, 2, 3, 3, 4, 4, 5, 5, 6, 7, 8, 9])
            N = n * (n - 1) // 2
            k = rng.choice([1, 2, 3, max(1, N - 1), max(1, N), N + 1, N + 2, rng.randint(1, N + 3)])
            z = rng.choice([0, 0, 2, 3, 7, 1])
            thetas = StubThetas(n)
            case = {"kind": "assembly", "n": n, "n_chunks": k, "zmod": z}
            files = []
            ok = True
            for c in range(k):
                try:
                    m = dc.calculate_pairwise_distance_matrix_on_predictions(thetas, StubMetric(z), None, c, k)
                except Exception as e:
                    res.fail("chunk computation raises", dict(case, chunk=c), type(e).__name__, "no exception")
                    ok = False
                    break
                fn = os.path.join(tmp, "a%d_%d.h5" % (t, c))
                m.save(fn)
                files.append(fn)
                if t < 25 or rng.random() < 0.1:
                    lines.append("calc %d %d %d %d" % (n, c, k, z))
                    expect.append(show_cdm(m))
                    meta.append(("calc", n, c, k, z))
            if not ok:
                continue
            order = list(range(k))
            rng.shuffle(order)
            reps = [rng.randrange(k) for _ in range(rng.choice([0, 0, 1, 2]))]
            order = order + reps
            rng.shuffle(order)
            case["order"] = order
            loaded = [dc.ChunkedDistanceMatrix.load(files[c]) for c in order]
            res.evaluations += 1
            nonempty = sum(1 for c in range(k) if loaded[order.index(c)].current_index > 0)
            if nonempty >= 2:
                res.nontrivial.add(("asm", n, k, z, tuple(order)))
            res.count("assembly.repeats" if reps else "assembly.norepeats")
            try:
                cat = dc.ChunkedDistanceMatrix.concat(loaded)
                dense = cat.to_dense()
                want = np.zeros((n, n))
                for i in range(n):
                    for j in range(i):
                        want[i, j] = want[j, i] = stub_metric(z, i, j)
                if dense.shape != want.shape or not np.array_equal(dense, want):
                    res.fail("assembled matrix differs from the metric matrix", case, dense.tolist(), want.tolist())
                single = dc.calculate_pairwise_distance_matrix_on_predictions(thetas, StubMetric(z), None, 0, 1).to_dense()
                if not np.array_equal(single, dense):
                    res.fail("assembled matrix differs from single-chunk computation", case, dense.tolist(), single.tolist())
                impl = " ".join(",".join(str(int(x)) for x in row) for row in dense) if n else ""
                lines.append("dense " + "/".join(cdm_arg(m) for m in loaded))
                expect.append("-" if n == 0 else ";".join(",".join(str(int(x)) for x in row) for row in dense))
                meta.append(("dense", n, k, z, order))
                res.traces_validated += 1
            except Exception as e:
                res.fail("assembly of all chunks raises", case, "%s: %s" % (type(e).__name__, e), "complete symmetric matrix")
            # refusal: drop one non-empty chunk
            ne = [c for c in range(k) if dc.ChunkedDistanceMatrix.load(files[c]).current_index > 0]
            if ne:
                drop = rng.choice(ne)
                part = [dc.ChunkedDistanceMatrix.load(files[c]) for c in order if c != drop]
                if part:
                    try:
                        cat = dc.ChunkedDistanceMatrix.concat(part)
                        try:
                            cat.to_dense()
                            res.fail("incomplete matrix densified", dict(case, dropped=drop), "to_dense returned", "ValueError")
                        except ValueError:
                            res.count("refusal.ok")
                        lines.append("dense " + "/".join(cdm_arg(m) for m in part))
                        expect.append("err:ValueError")
                        meta.append(("dense-incomplete", n, k, drop))
                    except Exception as e:
                        res.fail("concat of partial chunk set raises", dict(case, dropped=drop), type(e).__name__, "ok")
            for fn in files:
                os.unlink(fn)
            if len(res.samples) < 3:
                res.sample(case)
        # ---------- C. metric laws on the real MSEDistance -----------------------------
        rng = ctx.subrng("mse")
        nprng = np.random.default_rng(rng.randrange(2 ** 32))
        for t in range(ctx.scale(100, 2000)):
            L = rng.choice([1, 2, 3, 10, 50])
            a = nprng.normal(size=L) * rng.choice([0.1, 1, 10])
            b = nprng.normal(size=L) * rng.choice([0.1, 1, 10])
            for sig in (True, False):
                m = MSEDistance(sigmoid=sig)
                dab, dba, daa = m.distance(a, b), m.distance(b, a), m.distance(a, a)
                res.evaluations += 1
                case = {"kind": "metric", "a": a.tolist(), "b": b.tolist(), "sigmoid": sig}
                if dab != dba:
                    res.fail("metric not symmetric", case, [dab, dba], "equal")
                if not (dab >= 0):
                    res.fail("metric negative", case, dab, ">= 0")
                if daa != 0:
                    res.fail("metric non-zero on identical predictions", case, daa, 0)
                from scipy.special import expit
                ref = float(np.mean(((expit(a) - expit(b)) if sig else (a - b)) ** 2))
                if abs(ref - dab) > 1e-12 * max(1.0, abs(ref)):
                    res.fail("metric differs from mean squared difference", case, dab, ref)
        res.count("metric.cases", ctx.scale(100, 2000) * 2)
    finally:
        shutil.rmtree(tmp, ignore_errors=True)

    # ---------- tie: model vs implementation --------------------------------------------
    if drv is not None:
        got = drv.ask(lines)
        for l, e, g_, m in zip(lines, expect, got, meta):
            if e != g_:
                res.disagree("C07:%s" % m[0], {"line": l}, e[:400], g_[:400])
        res.count("tie.lines", len(lines))
    res.sample({"kind": "partition", "n": 7, "n_chunks": 5})


def replay(ctx, case, res):
    from batchie import distance_calculation as dc
    if case.get("kind") == "partition":
        n, k = case["n"], case["n_chunks"]
        full = list(dc.lower_triangular_indices(n))
        cat, sizes = [], []
        for c in range(k):
            ch = dc.get_lower_triangular_indices_chunk(n, c, k)
            cat += ch
            sizes.append(len(ch))
        if cat != full:
            res.fail("chunks do not partition the lower-triangular pairs", case, {"len": len(cat)}, "every pair once")
        if sizes and max(sizes) - min(sizes) > 1:
            res.fail("chunk sizes differ by more than one", case, sizes[:20], "max-min <= 1")
        return
    # assemblies and metrics are regenerated by the seed; rerun the whole stream
    run(ctx, res)
