"""C07 -- pairwise-distance chunks partition the work and assemble to the same matrix.

Tie: translated kernels (lower_triangular_indices, number of indices, chunk bounds) and the hand
model of ChunkedDistanceMatrix are executed by the Lean driver on the same inputs as the real
functions, including the real CLI `batchie.cli.calculate_distance_matrix.main()` end to end.
Oracles (on the implementation alone): partition / balance / assembly / refusal / metric laws /
CLI-assembled matrix = direct numpy MSE on predict_viability.

Every oracle failure carries a case dict from which `replay` re-executes exactly that case.
"""
import contextlib
import io
import logging
import os
import shutil
import struct
import sys
import tempfile

import numpy as np

from vlib import common
from harness.wrapguard import fail_or_tie

common.use_repo_sources()

RULE = ("(n, n_chunks) grids: exhaustive for small n, boundary + random chunk counts for larger n; "
        "assemblies: real calculate/save/load/concat/to_dense with a stub metric encoding (i,j), chunk files "
        "shuffled with repeats, one non-empty chunk dropped for the refusal; hand-built matrices with repeated/missing pairs; "
        "a few larger matrices (n 12-30, chunks starting mid-row) and one single-chunk matrix with n=300 (indices > 255 through save/load); "
        "matrix sizes straddling the integer-width boundaries (n in 127,128,129,200,255,256,257): single chunk save->file values == memory->load->to_dense "
        "== in-memory dense, three sparse files with entries at the highest indices concatenated, n=129 in two chunks; "
        "repeated chunk indices are loaded either as separate objects or as ONE shared object; "
        "real CLI main() per chunk on a real (partly unobserved) Screen + SparseDrugComboMCMCSample holder files -- some samples identical so that "
        "real distances are exactly 0.0 -- assembled in shuffled order with repeats; "
        "MSEDistance on random and structured vectors (equal, equal first entry, one differing entry, integers; contiguous, strided and read-only "
        "arrays; arguments must stay unchanged). Non-trivial: n>=3 and 2<=n_chunks (partition) / at least 2 non-empty chunks (assembly, CLI).")


def stub_metric(z, i, j):
    v = i * 1000 + j + 1
    if z > 0 and v % z == 0:
        return 0
    return v


WRAP_ERRORS = []        # checklist item 21: calls our stubs / recording wrappers could not interpret (tie, never a violation)


def first_args(args, kwargs, count):
    """the first `count` arguments of a call, whatever mix of positional / keyword form the caller used (keyword order = call order)"""
    vals = list(args) + list(kwargs.values())
    if len(vals) < count:
        raise TypeError("stub called with %d arguments, needs %d" % (len(vals), count))
    return vals[:count]


def drain_wrapper_errors(res, case=None):
    if WRAP_ERRORS:
        res.count("wrapper.unexpected-call", len(WRAP_ERRORS))
        res.disagree("C07:wrapper-unexpected-call", {"case": case}, WRAP_ERRORS[0], "a call form the harness's wrapper understands")
        del WRAP_ERRORS[:]


class StubTheta:
    def __init__(self, i):
        self.i = i

    def predict_viability(self, *args, **kwargs):
        return self.i


class StubThetas:
    def __init__(self, n):
        self.n_thetas = n

    def get_theta(self, *args, **kwargs):
        return StubTheta(int(first_args(args, kwargs, 1)[0]))


class StubMetric:
    def __init__(self, z):
        self.z = z

    def distance(self, *args, **kwargs):
        a, b = first_args(args, kwargs, 2)
        return float(stub_metric(self.z, a, b))


def show_pairs(l):
    return "-" if not l else ";".join("%d,%d" % (a, b) for a, b in l)


def show_cdm(m):
    n = m.current_index
    es = [(int(m.row_indices[i]), int(m.col_indices[i]), m.values[i]) for i in range(n)]
    for e in es:
        if float(e[2]) != int(e[2]):
            return "non-integer value %r" % (e[2],)
    body = "-" if not es else ";".join("%d,%d,%d" % (a, b, int(c)) for a, b, c in es)
    return "%d %s" % (int(m.size), body)


def cdm_arg(m):
    n = m.current_index
    es = [(int(m.row_indices[i]), int(m.col_indices[i]), int(m.values[i])) for i in range(n)]
    return "%d|%s" % (int(m.size), "-" if not es else ";".join("%d,%d,%d" % e for e in es))


def show_dense_int(dense, n):
    return "-" if n == 0 else ";".join(",".join(str(int(x)) for x in row) for row in dense)


def int_list(l):
    return "-" if not l else ",".join(str(int(x)) for x in l)


def f2bits(x):
    return struct.unpack("<Q", struct.pack("<d", float(x)))[0]


def bits2f(b):
    return struct.unpack("<d", struct.pack("<Q", int(b)))[0]


CONTENT_ATTRS = ("size", "current_index", "row_indices", "col_indices", "values")


def cdm_snapshot(m):
    """every attribute of the object by introspection: arrays as (dtype-agnostic) filled-prefix bytes, scalars as ints"""
    out = {}
    cur = int(m.current_index)
    for key, v in sorted(vars(m).items()):
        if isinstance(v, np.ndarray):
            out[key] = np.asarray(v[:cur], dtype=float).tobytes()
        else:
            out[key] = int(v)
    return out


class Tie:
    """driver lines queued during the run, compared at the end"""

    def __init__(self):
        self.lines, self.expect, self.meta, self.cmp = [], [], [], []

    def add(self, line, expect, meta, cmp=None):
        self.lines.append(line)
        self.expect.append(expect)
        self.meta.append(meta)
        self.cmp.append(cmp)


def grid(ctx):
    nmax_exh = ctx.scale(9, 14, 12)
    nmax = ctx.scale(40, 120, 80)
    rng = ctx.subrng("grid")
    out = []
    for n in range(0, nmax_exh + 1):
        N = n * (n - 1) // 2
        for k in range(1, N + 4):
            out.append((n, k))
    per = ctx.scale(4, 10, 8)
    for n in range(nmax_exh + 1, nmax + 1):
        N = n * (n - 1) // 2
        ks = {1, 2, 3, n, N - 1, N, N + 1, N + 3}
        while len(ks) < 8 + per:
            ks.add(rng.randint(1, N + 3))
        for k in sorted(ks):
            if k >= 1:
                out.append((n, k))
    return out


# ------------------------------------------------------------------------------------------------
# one case of each kind (used by run and by replay)
# ------------------------------------------------------------------------------------------------

def case_partition(dc, case, res, tie=None, rng=None, budget_big=60):
    n, k = case["n"], case["n_chunks"]
    N = n * (n - 1) // 2
    full = list(dc.lower_triangular_indices(n))
    # the property asks for every pair exactly once; the ORDER of the enumeration is the model's business (tie), not the property's
    if len(full) != N or dc.get_number_of_lower_triangular_indices(n) != N or \
            sorted(tuple(p) for p in full) != [(i, j) for i in range(n) for j in range(i)]:
        res.fail("enumeration is not every pair j<i<n exactly once", case, {"len": len(full)}, "n(n-1)/2 pairs j<i<n, each once")
    cs = range(k)
    if rng is not None and k > 40 and n > 14 and k * N > 200000:
        cs = sorted(set([0, 1, k - 1, k - 2] + [rng.randrange(k) for _ in range(budget_big // 10)]))
        cs = [c for c in cs if 0 <= c < k]
    chunks = {}
    npi = bool(case.get("np_int"))
    for c in cs:
        try:
            chunks[c] = dc.get_lower_triangular_indices_chunk(np.int64(n), np.int64(c), np.int64(k)) if npi else \
                dc.get_lower_triangular_indices_chunk(n, c, k)
            chunks[c] = [(int(a_), int(b_)) for a_, b_ in chunks[c]]
        except Exception as e:  # noqa
            chunks[c] = "err:" + type(e).__name__
    if any(isinstance(v, str) for v in chunks.values()):
        res.fail("chunk raises on valid input", case, [str(v) for v in chunks.values() if isinstance(v, str)][:1], "no exception")
        return
    if len(chunks) == k:
        cat = [p for c in range(k) for p in chunks[c]]
        if sorted(tuple(p) for p in cat) != sorted(tuple(p) for p in full):
            seen = {}
            for p in cat:
                seen[p] = seen.get(p, 0) + 1
            res.fail("chunks do not partition the lower-triangular pairs", case,
                     {"concatenated_len": len(cat), "distinct": len(seen), "missing": [list(p) for p in sorted(set(full) - set(cat))][:5],
                      "duplicated": [list(p) for p in sorted(p for p, m in seen.items() if m > 1)][:5]},
                     "the chunks together hold every pair i>j exactly once")
        sizes = [len(chunks[c]) for c in range(k)]
        if max(sizes) - min(sizes) > 1:
            res.fail("chunk sizes differ by more than one", case, sizes[:20], "max-min <= 1")
    else:
        fs = set(full)
        for c in chunks:
            for p in chunks[c]:
                if tuple(p) not in fs:
                    res.fail("chunk yields a pair outside the lower triangle", case, list(p), "pairs j<i<n")
        sizes = [len(v) for v in chunks.values()]
        if sizes and (max(sizes) - min(sizes) > 1 or min(sizes) < N // k or max(sizes) > N // k + 1):
            res.fail("chunk sizes differ by more than one", case, sizes[:20], "floor(N/k) or floor(N/k)+1")
    if tie is not None:
        pick = list(chunks.keys())
        if len(pick) > 6:
            pick = sorted(set([pick[0], pick[-1]] + rng.sample(pick, 4)))
        for c in pick:
            tie.add("chunk %d %d %d" % (n, c, k), show_pairs(chunks[c]), ("chunk", n, c, k))


def case_assembly(dc, case, res, tmp, tie=None, tie_calc=False):
    """case: n, n_chunks, zmod, order (chunk indices, every index at least once), dropped (index or None)"""
    n, k, z, order = case["n"], case["n_chunks"], case["zmod"], case["order"]
    thetas = StubThetas(n)
    metric = StubMetric(z)           # class object-reuse: ONE metric object and ONE holder serve every chunk and the single-chunk run
    npi = bool(case.get("np_int"))   # class layout/dtype: chunk_index / n_chunks arrive as np.int64 (argparse gives int, a workflow driver may not)
    files = {}
    for c in range(k):
        try:
            m = dc.calculate_pairwise_distance_matrix_on_predictions(thetas, metric, None, np.int64(c) if npi else c, np.int64(k) if npi else k)
        except Exception as e:
            fail_or_tie(res, "C07:harness-exception", "chunk computation raises", dict(case, chunk=c), e, "no exception")
            return
        fn = os.path.join(tmp, "a_%d.h5" % c)
        m.save(fn)
        files[c] = fn
        # class attribute-completeness: whatever attributes the object has (introspection), load(save(m)) has the same ones with the
        # same filled prefix; chunk_size is storage capacity, not content
        back = dc.ChunkedDistanceMatrix.load(fn)
        sa, sb = cdm_snapshot(m), cdm_snapshot(back)
        sa.pop("chunk_size", None), sb.pop("chunk_size", None)
        diff = sorted(k_ for k_ in set(sa) | set(sb) if sa.get(k_) != sb.get(k_))
        if any(k_ in CONTENT_ATTRS for k_ in diff):
            res.fail("load(save(m)) is another matrix than m (size / stored pairs / values)", dict(case, chunk=c), diff, "same content")
        elif diff:      # attributes that are not the matrix content: the model's business
            res.disagree("C07:attributes-after-load", {"case": dict(case, chunk=c)}, diff, "every attribute equal")
        if tie is not None and tie_calc:
            tie.add("calc %d %d %d %d" % (n, c, k, z), show_cdm(m), ("calc", n, c, k, z))
    if case.get("share"):          # the SAME loaded object for every repetition of a chunk index (object reuse inside concat)
        objs = {c: dc.ChunkedDistanceMatrix.load(files[c]) for c in set(order)}
        loaded = [objs[c] for c in order]
    else:
        loaded = [dc.ChunkedDistanceMatrix.load(files[c]) for c in order]
    nonempty = [c for c in range(k) if dc.ChunkedDistanceMatrix.load(files[c]).current_index > 0]
    try:
        before = [cdm_snapshot(m) for m in loaded] if len(loaded) > 1 else None
        cat = dc.ChunkedDistanceMatrix.concat(loaded)
        if not cat.is_complete():
            res.fail("assembly of all chunks is not complete", case, {"entries": int(cat.current_index)}, "is_complete() is True")
        keys = [(int(cat.row_indices[i]), int(cat.col_indices[i])) for i in range(cat.current_index)]
        if sorted(keys) != [(i, j) for i in range(n) for j in range(i)]:
            res.fail("assembled matrix does not hold every pair exactly once", case, {"entries": len(keys), "distinct": len(set(keys))},
                     "each pair j<i<n exactly once")
        dense = cat.to_dense()
        want = np.zeros((n, n))
        for i in range(n):
            for j in range(i):
                want[i, j] = want[j, i] = stub_metric(z, i, j)
        if dense.shape != want.shape or not np.array_equal(dense, want):
            res.fail("assembled matrix differs from the metric matrix", case, dense.tolist(), want.tolist())
        elif not np.array_equal(dense, dense.T) or np.any(np.diag(dense) != 0):
            res.fail("assembled matrix not symmetric / zero-diagonal", case, dense.tolist(), "symmetric, zero diagonal")
        single = dc.calculate_pairwise_distance_matrix_on_predictions(thetas, metric, None, 0, 1).to_dense()
        if not np.array_equal(single, dense):
            res.fail("assembled matrix differs from single-chunk computation", case, dense.tolist(), single.tolist())
        if before is not None and not case.get("big"):
            # class input-mutation / aliasing: concat leaves the matrices it was given as they were; a second concat of the same objects
            # in reverse order neither raises nor disturbs the first result
            if [cdm_snapshot(m) for m in loaded] != before:     # purity is not a clause of the property: tie
                res.disagree("C07:concat-mutates-inputs", {"case": case}, "an input matrix changed", "inputs unchanged")
            dense_copy = dense.copy()
            again = dc.ChunkedDistanceMatrix.concat(loaded[::-1]).to_dense()
            if not np.array_equal(again, dense_copy):           # "in any order": the same files combined the other way round
                res.fail("combining the same loaded chunks in reverse order gives another matrix", case, again.tolist(), dense_copy.tolist())
            if not (np.array_equal(cat.to_dense(), dense_copy) and np.array_equal(dense, dense_copy)):
                res.disagree("C07:result-aliased", {"case": case}, "first result changed by a later concat", "unchanged")
        if len(loaded) > 1 and not case.get("big"):
            # class instalments: the combined matrix saved (to a path that held ANOTHER matrix before) and loaded again is the same matrix
            fn2 = os.path.join(tmp, "merged.h5")
            loaded[0].save(fn2)
            cat.save(fn2)
            again2 = dc.ChunkedDistanceMatrix.load(fn2)
            os.unlink(fn2)
            sa, sb = cdm_snapshot(cat), cdm_snapshot(again2)
            if any(sa.get(k_) != sb.get(k_) for k_ in CONTENT_ATTRS) or not np.array_equal(again2.to_dense(), dense):
                res.fail("the combined matrix, saved over an older file and loaded, is another matrix", case,
                         sorted(k_ for k_ in CONTENT_ATTRS if sa.get(k_) != sb.get(k_)), "same content")
        if tie is not None:
            tie.add("dense " + "/".join(cdm_arg(m) for m in loaded), show_dense_int(dense, n), ("dense", n, k, z, order))
            tie.add("assemble %d %d %d %s" % (n, k, z, int_list(order)), show_dense_int(dense, n), ("assemble", n, k, z, order))
        res.traces_validated += 1
    except Exception as e:
        fail_or_tie(res, "C07:harness-exception", "assembly of all chunks raises", case, e, "complete symmetric matrix")
    # refusal: drop one non-empty chunk
    drop = case.get("dropped")
    if drop is not None and drop in nonempty:
        rest = [c for c in order if c != drop]
        part = [dc.ChunkedDistanceMatrix.load(files[c]) for c in rest]
        if part:
            try:
                cat = dc.ChunkedDistanceMatrix.concat(part)
                if cat.is_complete():
                    res.fail("matrix missing a chunk reports complete", dict(case), "is_complete() True", "False")
                try:
                    cat.to_dense()
                    res.fail("incomplete matrix densified", dict(case), "to_dense returned", "ValueError")
                except ValueError:
                    res.count("refusal.ok")
                if tie is not None:
                    tie.add("dense " + "/".join(cdm_arg(m) for m in part), "err:ValueError", ("dense-incomplete", n, k, drop))
                    tie.add("assemble %d %d %d %s" % (n, k, z, int_list(rest)), "err:ValueError", ("assemble-incomplete", n, k, drop))
            except Exception as e:
                # the property only says that a matrix lacking a pair is not densified; WHERE the refusal happens is the model's business
                res.disagree("C07:partial-concat-raises", {"case": dict(case)}, type(e).__name__, "concat succeeds, to_dense raises ValueError")
    for fn in files.values():
        os.unlink(fn)
    return len(nonempty)


class TempTheta:
    def __init__(self, i, L, seed):
        self.i, self.L, self.seed = i, L, seed

    def predict_viability(self, *args, **kwargs):
        # a NEW array of the same size on every call (a temporary for the caller)
        return np.random.default_rng([self.seed, self.i]).normal(size=self.L)


class TempThetas:
    """every get_theta builds a new sample object; every prediction is a new array of equal size"""

    def __init__(self, n, L, seed):
        self.n_thetas, self.L, self.seed = n, L, seed

    def get_theta(self, *args, **kwargs):
        return TempTheta(int(first_args(args, kwargs, 1)[0]), self.L, self.seed)


def case_temps(dc, case, res):
    """class identity-cache / object lifetime: ONE real MSEDistance object and the real calculate loop are fed temporaries of equal size
    (sample objects and prediction arrays that die after each pair, so CPython hands their addresses to the next ones); every entry must be
    the metric -- a fresh object on fresh arrays -- of the two samples' predictions.  Then the same metric object is called on temporaries
    directly, keeping only the results."""
    from batchie.distance.mse import MSEDistance
    n, k, L, seed, sig = case["n"], case["n_chunks"], case["L"], case["seed"], case["sigmoid"]
    th = TempThetas(n, L, seed)
    metric = MSEDistance(sigmoid=sig)
    try:
        parts = [dc.calculate_pairwise_distance_matrix_on_predictions(th, metric, None, c, k) for c in case["order"]]
        dense = dc.ChunkedDistanceMatrix.concat(parts).to_dense()
        direct = [metric.distance(th.get_theta(i).predict_viability(None), th.get_theta(j).predict_viability(None))
                  for i in range(n) for j in range(i)]
    except Exception as e:  # noqa
        fail_or_tie(res, "C07:harness-exception", "distance computation on temporaries raises", case, e, "matrix")
        return
    want = np.zeros((n, n))
    wd = []
    with plain_logging():
        for i in range(n):
            for j in range(i):
                want[i, j] = want[j, i] = MSEDistance(sigmoid=sig).distance(th.get_theta(i).predict_viability(None), th.get_theta(j).predict_viability(None))
                wd.append(want[i, j])
    if not np.array_equal(dense, want):
        res.fail("matrix entry is not the metric applied to the two samples' predictions (predictions are temporaries of equal size)", case,
                 {"differing_cells": int(np.sum(dense != want))}, "equal to a fresh metric object on fresh arrays")
    elif [float(x) for x in direct] != [float(x) for x in wd]:
        res.fail("a reused metric object called on temporaries gives another distance than a fresh one", case,
                 {"differing": sum(1 for a_, b_ in zip(direct, wd) if a_ != b_)}, "equal")


def file_matches_memory(m, fn):
    """TIE KNOWLEDGE (checklist item 20): the harness's own raw look into the file, relying on the layout the model documents
    (datasets row_indices / col_indices / values / size).  Returns a description of a mismatch, {"layout": ...} when the file is not laid
    out like that (any exception of the raw access ends here, it is never the implementation's), or None."""
    try:
        return _file_matches_memory(m, fn)
    except Exception as e:  # noqa
        return {"layout": "%s: %s" % (type(e).__name__, e)}


def _file_matches_memory(m, fn):
    import h5py
    cur = int(m.current_index)
    with h5py.File(fn, "r") as f:
        for key, arr in (("row_indices", m.row_indices), ("col_indices", m.col_indices)):
            got = [int(x) for x in f[key][:]]
            if got != [int(x) for x in arr[:cur]]:
                bad = [i for i, (a_, b_) in enumerate(zip(got, arr[:cur])) if a_ != int(b_)]
                return {"dataset": key, "dtype": str(f[key].dtype), "first_bad": bad[:1], "file": got[bad[0]] if bad else len(got),
                        "memory": int(arr[bad[0]]) if bad else cur}
        vals = f["values"][:]
        if vals.shape != (cur,) or not np.array_equal(np.asarray(vals, dtype=float), m.values[:cur]):
            return {"dataset": "values", "dtype": str(f["values"].dtype)}
        if int(f["size"][0]) != int(m.size):
            return {"dataset": "size", "file": int(f["size"][0]), "memory": int(m.size)}
    return None


def case_boundary(dc, case, res, tmp):
    """class size-boundaries x dtype: matrix sizes straddling the integer-width boundaries 127/128, 255/256 (n(n-1)/2 <= 33k pairs).
    mode full  : calculate each of k chunks (stub metric), save, check the file against memory, load, concat, to_dense == the dense matrix
                 of the single in-memory computation, symmetric, zero diagonal.
    mode sparse: three hand-filled partial matrices whose entries sit at the largest row / column indices (and at 0, 126..129, 254..257
                 where they exist), one file given twice: save, check, load, concat -> exactly the union of the entries, each once, with its
                 value; the incomplete result refuses to_dense.  (A complete multi-chunk concat costs O(pairs^2) in the real combine.)"""
    n, k, mode = case["n"], case["n_chunks"], case["mode"]
    N = n * (n - 1) // 2
    try:
        if mode == "full":
            thetas, metric = StubThetas(n), StubMetric(7)
            mem = [dc.calculate_pairwise_distance_matrix_on_predictions(thetas, metric, None, c, k) for c in range(k)]
            order = case.get("order") or list(range(k))[::-1]
        else:
            hot = sorted(set(x for x in (0, 1, 126, 127, 128, 129, 130, 199, 200, 254, 255, 256, 257, n - 2, n - 1) if 0 <= x < n))
            pairs = [(i, j) for i in hot for j in hot if j < i]
            mem = []
            for c in range(3):
                m = dc.ChunkedDistanceMatrix(n)
                for (i, j) in pairs[c::3]:
                    m.add_value(i, j, float(stub_metric(7, i, j)))
                mem.append(m)
            order = [2, 0, 1, 2]
        files = []
        for c, m in enumerate(mem):
            fn = os.path.join(tmp, "b_%d.h5" % c)
            m.save(fn)
            files.append(fn)
            bad = file_matches_memory(m, fn)
            if bad:     # how a file encodes the matrix is not a clause of the property (tie); what load() makes of it is checked next
                if "layout" in bad:
                    res.count("layout.unexpected")
                res.disagree("C07:file-encoding", {"case": dict(case, chunk=c)}, bad, "file values == memory values")
            back = dc.ChunkedDistanceMatrix.load(fn)
            cur = int(m.current_index)
            if int(back.current_index) != cur or [int(x) for x in back.row_indices[:cur]] != [int(x) for x in m.row_indices[:cur]] or \
                    [int(x) for x in back.col_indices[:cur]] != [int(x) for x in m.col_indices[:cur]] or not np.array_equal(back.values[:cur], m.values[:cur]):
                res.fail("loaded chunk differs from the saved one", dict(case, chunk=c), {"entries": int(back.current_index)}, "identical indices and values")
                return
        cat = dc.ChunkedDistanceMatrix.concat([dc.ChunkedDistanceMatrix.load(files[c]) for c in order])
        got = sorted((int(cat.row_indices[i]), int(cat.col_indices[i]), float(cat.values[i])) for i in range(cat.current_index))
        if mode == "full":
            want_e = [(i, j, float(stub_metric(7, i, j))) for i in range(n) for j in range(i)]
        else:
            want_e = sorted((i, j, float(stub_metric(7, i, j))) for (i, j) in pairs)
        if got != want_e:
            res.fail("matrix assembled from loaded chunk files does not hold every supplied pair exactly once with its value", case,
                     {"entries": len(got), "first_difference": next(([list(a_), list(b_)] for a_, b_ in zip(got, want_e) if a_ != b_), None)},
                     {"entries": len(want_e)})
            return
        if mode == "full":
            dense = cat.to_dense()
            single = dc.calculate_pairwise_distance_matrix_on_predictions(StubThetas(n), StubMetric(7), None, 0, 1).to_dense()   # never saved
            ii, jj = np.tril_indices(n, -1)
            want = np.zeros((n, n))
            want[ii, jj] = want[jj, ii] = [stub_metric(7, int(a_), int(b_)) for a_, b_ in zip(ii, jj)]
            if dense.shape != (n, n) or not np.array_equal(dense, single) or not np.array_equal(dense, want):
                res.fail("matrix assembled from loaded chunk files differs from the single in-memory computation", case,
                         {"differing_cells": int(np.sum(dense != single)) if dense.shape == single.shape else str(dense.shape)}, "equal")
            elif not np.array_equal(dense, dense.T) or np.any(np.diag(dense) != 0):
                res.fail("assembled matrix not symmetric / zero-diagonal", case, {"diag_nonzero": int(np.sum(np.diag(dense) != 0))}, "symmetric, zero diagonal")
        elif len(want_e) < N:
            try:
                cat.to_dense()
                res.fail("incomplete matrix densified", case, "to_dense returned", "ValueError")
            except ValueError:
                pass
        res.traces_validated += 1
    except Exception as e:  # noqa
        fail_or_tie(res, "C07:harness-exception", "save / load / concat / to_dense raises at this matrix size", case, e, "no exception")
    finally:
        for c in range(max(k, 3)):
            fn = os.path.join(tmp, "b_%d.h5" % c)
            if os.path.exists(fn):
                os.unlink(fn)


def case_handbuilt(dc, case, res, tmp, tie=None):
    """a matrix built by hand through add_value (repeats allowed), saved and loaded.  Requirement used as oracle:
    a matrix lacking a pair must refuse to_dense.  `is_complete` only counts entries, so on the unchanged code a matrix
    with a repeated pair AND a missing pair whose count happens to equal N densifies -- recorded as an observation
    (C07_count_only_witness; not reachable through calculate/save/load/concat), not as a failure."""
    n, entries = case["n"], case["entries"]
    N = n * (n - 1) // 2
    m = dc.ChunkedDistanceMatrix(n)
    for (i, j) in entries:
        m.add_value(i, j, float(stub_metric(0, i, j)))
    fn = os.path.join(tmp, "h.h5")
    m.save(fn)
    m = dc.ChunkedDistanceMatrix.load(fn)
    os.unlink(fn)
    missing = set((i, j) for i in range(n) for j in range(i)) - set(map(tuple, entries))
    try:
        d = m.to_dense()
        out = show_dense_int(d, n)
        if missing:
            if len(entries) == N:
                res.count("handbuilt.count_only_complete(observation)")
            else:
                res.fail("matrix lacking a pair densified", case, {"entries": len(entries), "N": N, "missing": [list(p) for p in sorted(missing)][:3]},
                         "ValueError from to_dense", signature="c07-missing-pair-densified")
    except ValueError:
        out = "err:ValueError"
        if not missing and len(entries) == N:
            res.fail("complete matrix refuses to densify", case, "ValueError", "dense matrix")
    if tie is not None:
        tie.add("dense " + cdm_arg(m), out, ("dense-handbuilt", n, len(entries)))
        # the model's save/load (CDM.load (CDM.save m)) against the matrix that came back from the real file
        tie.add("roundtrip " + cdm_arg(m), show_cdm(m), ("roundtrip", n, len(entries)))


@contextlib.contextmanager
def quiet_cli(argv):
    """run a batchie CLI main() in-process: sys.argv patched, its logging handler and stderr output discarded"""
    lg = logging.getLogger("batchie")
    old_handlers, old_level = list(lg.handlers), lg.level
    old_argv, old_err = sys.argv, sys.stderr
    sys.argv = argv
    sys.stderr = io.StringIO()
    try:
        yield
    finally:
        sys.argv, sys.stderr = old_argv, old_err
        lg.handlers[:] = old_handlers
        lg.setLevel(old_level)


def make_cli_inputs(case, tmp):
    """deterministic real Screen + ThetaHolder files from the case's seed"""
    from batchie.core import ThetaHolder
    from batchie.data import Screen
    from batchie.models.sparse_combo import SparseDrugComboMCMCSample
    rs = np.random.default_rng(case["seed"])
    n, arity, rows, D = case["n"], case["arity"], case["rows"], case["D"]
    drugs = ["d%d" % i for i in range(case["n_drugs"])] + ["control"]
    samples = ["s%d" % i for i in range(case["n_samples"])]
    tn = np.array([[drugs[rs.integers(len(drugs))] for _ in range(arity)] for _ in range(rows)], dtype=str)
    # every real drug occurs at least once when there is room (a screen made of controls only has no treatment
    # ids and the sparse-combo predictor cannot index its empty V arrays -- C09's business, not this property's)
    for r in range(min(rows, len(drugs) - 1)):
        tn[r, 0] = drugs[r]
    td = np.where(tn == "control", 0.0, rs.choice([0.5, 1.0, 2.0], size=tn.shape))
    sn = np.array([samples[i % len(samples)] for i in range(rows)], dtype=str)
    obs = rs.random(rows)
    mask = None
    if case.get("partial"):
        # plate p1 is not observed yet (the usual situation when distances are computed): the reference below predicts on
        # the WHOLE screen, as calculate_pairwise_distance_matrix_on_predictions does
        mask = np.array([i % 2 == 0 for i in range(rows)], dtype=bool)
        obs = np.where(mask, obs, 0.0)
    screen = Screen(observations=obs, observation_mask=mask, sample_names=sn, plate_names=np.array(["p%d" % (i % 2) for i in range(rows)], dtype=str),
                    treatment_names=tn, treatment_doses=td, control_treatment_name="control")
    data_fn = os.path.join(tmp, "data.h5")
    screen.save_h5(data_fn)
    nt, ns = screen.n_unique_treatments, screen.n_unique_samples
    thetas = []
    for _ in range(n):
        thetas.append(SparseDrugComboMCMCSample(W=rs.normal(size=(ns, D)), W0=rs.normal(size=(ns,)), V2=rs.normal(size=(nt, D)),
                                                V1=rs.normal(size=(nt, D)), V0=rs.normal(size=(nt,)), alpha=float(rs.normal()),
                                                precision=float(rs.random() + 0.5)))
    # identical posterior samples (a chain that did not move): their distance is EXACTLY 0.0 through the real metric
    if case.get("dup") == "all":
        thetas = [thetas[0]] * n
    elif case.get("dup") == "pair" and n >= 2:
        thetas[n - 1] = thetas[0]
        if n >= 4:
            thetas[2] = thetas[1]
    split = case["split"]
    parts = [thetas[:split], thetas[split:]] if 0 < split < n else [thetas]
    theta_fns = []
    for pi, part in enumerate(parts):
        h = ThetaHolder(n_thetas=len(part))
        for t in part:
            h.add_theta(t)
        fn = os.path.join(tmp, "thetas%d.h5" % (len(parts) - 1 - pi))    # given order is NOT the lexicographic order of the names
        h.save_h5(fn)
        theta_fns.append(fn)
    return data_fn, theta_fns


REC = {"metric_calls": [], "scorer_dense": None, "broken": False}


def install_plugins():
    """plug-in classes the CLIs find by introspection (an attribute on a batchie module): a metric that records what it is handed,
    a scorer that records the distance matrix `calculate_scores.main()` hands to the scorer after combining the chunk files"""
    import batchie.distance.mse as mse_mod
    import batchie.scoring.size as size_mod
    from batchie.core import Scorer
    if getattr(mse_mod, "VerifRecMSE", None) is None:
        class VerifRecMSE(mse_mod.MSEDistance):
            def distance(self, *args, **kwargs):
                try:
                    import inspect
                    ba = inspect.signature(mse_mod.MSEDistance.distance).bind(self, *args, **kwargs)
                    vals = list(ba.arguments.values())[1:3]
                    REC["metric_calls"].append((np.asarray(vals[0]).tobytes(), np.asarray(vals[1]).tobytes()))
                except Exception as e:  # noqa  (recording is the harness's business: never the implementation's failure)
                    REC["broken"] = True
                    WRAP_ERRORS.append("VerifRecMSE.distance: %s: %s" % (type(e).__name__, e))
                return super().distance(*args, **kwargs)
        mse_mod.VerifRecMSE = VerifRecMSE
    if getattr(size_mod, "VerifRecScorer", None) is None:
        class VerifRecScorer(Scorer):
            def score(self, *args, **kwargs):
                plates, dm = {}, None
                try:
                    import inspect
                    ba = inspect.signature(Scorer.score).bind(self, *args, **kwargs)
                    plates = ba.arguments.get("plates", {})
                    dm = ba.arguments.get("distance_matrix")
                    if dm is None:
                        raise TypeError("no distance_matrix argument")
                except Exception as e:  # noqa
                    vals = list(args) + list(kwargs.values())
                    plates = next((v for v in vals if isinstance(v, dict)), {})
                    dm = next((v for v in vals if hasattr(v, "to_dense")), None)
                    if dm is None:
                        REC["broken"] = True
                        WRAP_ERRORS.append("VerifRecScorer.score: %s: %s" % (type(e).__name__, e))
                if dm is not None:
                    try:
                        REC["scorer_dense"] = np.array(dm.to_dense())
                    except Exception as e:  # noqa
                        REC["scorer_dense"] = "err:" + type(e).__name__
                return {k_: 0.0 for k_ in plates}
        size_mod.VerifRecScorer = VerifRecScorer


@contextlib.contextmanager
def maybe_verbose(case):
    """class verbose-logging: cases that carry "verbose" run with the `batchie` logger at DEBUG and a formatting sink"""
    if case.get("verbose"):
        with common.verbose_logging():
            yield
    else:
        yield


@contextlib.contextmanager
def plain_logging():
    """REFERENCE values are computed with debug logging off, whatever the case runs under (otherwise code that only runs under
    debug logging would change the reference together with the result)"""
    lg = logging.getLogger("batchie")
    old_level, old_handlers, old_disable = lg.level, list(lg.handlers), logging.root.manager.disable
    lg.setLevel(logging.WARNING)
    lg.handlers = []
    try:
        yield
    finally:
        lg.handlers = old_handlers
        lg.setLevel(old_level)
        logging.disable(old_disable)


def case_cli(dc, case, res, tmp, tie=None):
    with maybe_verbose(case):
        return _case_cli(dc, case, res, tmp, tie)


def _case_cli(dc, case, res, tmp, tie=None):
    """case: seed, n (thetas >= 1), n_chunks, order, arity, rows, D, n_drugs, n_samples, split, sigmoid (None = default)"""
    from scipy.special import expit
    from batchie.cli import calculate_distance_matrix as cli
    from batchie.core import ThetaHolder
    from batchie.data import Screen
    n, k, order = case["n"], case["n_chunks"], case["order"]
    data_fn, theta_fns = make_cli_inputs(case, tmp)
    install_plugins()
    REC["broken"] = False
    received = {}
    def run_chunk(c, kk, out):
        """the CLI for the default metric parameters; the CLI cannot pass optional constructor arguments such as
        sigmoid (cast_dict_to_type only knows required ones -> KeyError), so sigmoid=False goes through main()'s body by hand"""
        if case.get("sigmoid") is None:
            argv = ["calculate_distance_matrix", "--distance-metric", "VerifRecMSE" if case.get("rec") else "MSEDistance",
                    "--n-chunks", str(kk), "--chunk-index", str(c),
                    "--data", data_fn, "--thetas"] + theta_fns + ["--output", out] + (["--verbose"] if case.get("verbose") else [])
            del REC["metric_calls"][:]
            with quiet_cli(argv), contextlib.redirect_stdout(io.StringIO()):
                cli.main()
            if case.get("rec"):
                received[(c, kk)] = list(REC["metric_calls"])
        else:
            from batchie.distance.mse import MSEDistance
            with contextlib.redirect_stdout(io.StringIO()):
                data = Screen.load_h5(data_fn)
                th = ThetaHolder(n_thetas=1)
                th = th.concat([th.load_h5(x) for x in theta_fns])
            r = dc.calculate_pairwise_distance_matrix_on_predictions(thetas=th, distance_metric=MSEDistance(sigmoid=case["sigmoid"]),
                                                                      data=data, chunk_index=c, n_chunks=kk)
            r.save(out)

    outs = {}
    for c in range(k):
        out = os.path.join(tmp, "m%d.h5" % c)
        try:
            run_chunk(c, k, out)
        except BaseException as e:  # argparse exits with SystemExit
            fail_or_tie(res, "C07:harness-exception", "CLI calculate_distance_matrix raises", dict(case, chunk=c), e, "chunk file written")
            return
        outs[c] = out
    # class cross-process determinism: the same chunks computed by the CLI in OTHER interpreter processes with different PYTHONHASHSEEDs
    # (every chunk is its own process in the workflow) must be the files computed here, bit for bit
    if case.get("xproc") and case.get("sigmoid") is None:
        import subprocess
        for c in range(k):
            out2 = os.path.join(tmp, "x%d.h5" % c)
            argv = ["calculate_distance_matrix", "--distance-metric", "MSEDistance", "--n-chunks", str(k), "--chunk-index", str(c),
                    "--data", data_fn, "--thetas"] + theta_fns + ["--output", out2]
            code = ("import sys; sys.path.insert(0, %r); sys.argv = %r; "
                    "from batchie.cli import calculate_distance_matrix as m; m.main()") % (os.path.join(common.REPO, "src"), argv)
            p = subprocess.run([sys.executable, "-c", code], env=dict(os.environ, PYTHONHASHSEED=str(101 + 7 * c)),
                               stdout=subprocess.PIPE, stderr=subprocess.PIPE, text=True, timeout=300)
            if p.returncode != 0:
                res.fail("CLI calculate_distance_matrix fails in a separate process", dict(case, chunk=c), p.stderr[-300:], "chunk file written")
                return
            ma, mb = dc.ChunkedDistanceMatrix.load(outs[c]), dc.ChunkedDistanceMatrix.load(out2)
            sa, sb = cdm_snapshot(ma), cdm_snapshot(mb)
            if any(sa.get(k_) != sb.get(k_) for k_ in CONTENT_ATTRS):
                res.fail("a chunk computed in another process (other PYTHONHASHSEED) differs from the one computed here", dict(case, chunk=c),
                         sorted(k_ for k_ in CONTENT_ATTRS if sa.get(k_) != sb.get(k_)), "same pairs and values")
            os.unlink(out2)
    # direct reference: MSE on predict_viability of the reloaded inputs
    with contextlib.redirect_stdout(io.StringIO()):
        screen = Screen.load_h5(data_fn)
        hs = [ThetaHolder.load_h5(f) for f in theta_fns]
    from batchie.distance.mse import MSEDistance
    all_thetas = [t for h in hs for t in h.thetas]
    preds = [t.predict_viability(screen) for t in all_thetas]
    sig = True if case.get("sigmoid") is None else case["sigmoid"]
    # what the property states: entry (i,j) is THE CONFIGURED METRIC applied to the two samples' predictions (a fresh metric object and
    # fresh prediction arrays per pair, so that no state of the code under test leaks into the reference), zero on the diagonal.
    # That the metric is the mean squared difference is the model's business: compared below as a tie, not as a violation.
    want = np.zeros((n, n))
    formula = np.zeros((n, n))
    with plain_logging():
        preds = [t.predict_viability(screen) for t in all_thetas]
        for i in range(n):
            for j in range(i):
                mo = MSEDistance() if case.get("sigmoid") is None else MSEDistance(sigmoid=case["sigmoid"])
                want[i, j] = want[j, i] = mo.distance(all_thetas[i].predict_viability(screen), all_thetas[j].predict_viability(screen))
                a, b = (expit(preds[i]), expit(preds[j])) if sig else (preds[i], preds[j])
                formula[i, j] = formula[j, i] = np.mean((a - b) ** 2)
    if not np.allclose(want, formula, rtol=1e-12, atol=1e-15):
        res.disagree("C07:cli-metric-formula", {"case": case}, "metric(pred_i, pred_j)", "mean squared difference of (expit of) the predictions")
    # class entry-point: what the metric RECEIVED from calculate_distance_matrix.main(): for every pair of this chunk, in the chunk's
    # order, the prediction of sample i and the prediction of sample j (on the whole screen)
    for (c, kk), calls in received.items():
        mc = dc.ChunkedDistanceMatrix.load(outs[c]) if kk == k else None
        if mc is None or REC["broken"]:
            continue
        pairs_c = [(int(mc.row_indices[i]), int(mc.col_indices[i])) for i in range(mc.current_index)]
        want_calls = [(np.asarray(preds[i]).tobytes(), np.asarray(preds[j]).tobytes()) for (i, j) in pairs_c]
        if len(calls) != len(pairs_c) or sorted(calls) != sorted(want_calls):
            res.fail("the metric did not receive exactly the predictions of the pairs of its chunk (CLI calculate_distance_matrix)", dict(case, chunk=c),
                     {"calls": len(calls), "matching": sum(1 for a_ in calls if a_ in want_calls)}, {"calls": len(pairs_c)})
        elif calls != want_calls:
            res.disagree("C07:cli-metric-call-order", {"case": dict(case, chunk=c)}, "other order", "chunk order, (pred_i, pred_j)")
    # class entry-point: calculate_scores.main() combines the chunk files it is given (in the given order, repeats included) and
    # hands ONE matrix to the scorer: that matrix must be the complete matrix
    if case.get("scores_cli"):
        from batchie.cli import calculate_scores as cs_cli
        sc_out = os.path.join(tmp, "scores.h5")
        argv = ["calculate_scores", "--data", data_fn, "--thetas"] + theta_fns + ["--distance-matrix"] + [outs[c] for c in order] + \
               ["--scorer", "VerifRecScorer", "--output", sc_out, "--seed", "0"] + (["--verbose"] if case.get("verbose") else [])
        REC["scorer_dense"] = None
        try:
            with quiet_cli(argv), contextlib.redirect_stdout(io.StringIO()):
                cs_cli.main()
            got = REC["scorer_dense"]
            if REC["broken"]:
                pass
            elif got is None or isinstance(got, str) or got.shape != want.shape or not np.array_equal(got, want):
                res.fail("the scorer did not receive the complete distance matrix from calculate_scores.main() (chunk files combined there)", case,
                         got if (got is None or isinstance(got, str)) else {"max_abs_diff": float(np.max(np.abs(got - want))) if got.shape == want.shape else str(got.shape)},
                         "the matrix of the metric applied to the samples' predictions")
        except BaseException as e:  # noqa
            fail_or_tie(res, "C07:harness-exception", "CLI calculate_scores raises on the chunk files", case, e, "scores written")
        if os.path.exists(sc_out):
            os.unlink(sc_out)
    loaded = {c: dc.ChunkedDistanceMatrix.load(outs[c]) for c in range(k)}
    nonempty = sum(1 for c in range(k) if loaded[c].current_index > 0)
    for c in range(k):
        m = loaded[c]
        pairs = [(int(m.row_indices[i]), int(m.col_indices[i])) for i in range(m.current_index)]
        if tie is not None:
            tie.add("chunk %d %d %d" % (n, c, k), show_pairs(pairs), ("cli-chunk", n, c, k))
    # the chunk files the CLI wrote partition the work: pairwise disjoint, together every pair once, sizes differing by at most one
    cpairs = {c: [(int(loaded[c].row_indices[i]), int(loaded[c].col_indices[i])) for i in range(loaded[c].current_index)] for c in range(k)}
    flat = [p_ for c in range(k) for p_ in cpairs[c]]
    sizes = [len(cpairs[c]) for c in range(k)]
    if sorted(flat) != [(i, j) for i in range(n) for j in range(i)] or max(sizes) - min(sizes) > 1:
        res.fail("the chunk files written by calculate_distance_matrix.main() do not partition the pairs into chunks of nearly equal size", case,
                 {"sizes": sizes, "entries": len(flat), "distinct": len(set(flat))}, "every pair in exactly one chunk file, sizes differ by at most one")
    try:
        if case.get("share"):      # the SAME loaded object for every repetition of a chunk index
            objs = {c: dc.ChunkedDistanceMatrix.load(outs[c]) for c in set(order)}
            cat = dc.ChunkedDistanceMatrix.concat([objs[c] for c in order])
        else:
            cat = dc.ChunkedDistanceMatrix.concat([dc.ChunkedDistanceMatrix.load(outs[c]) for c in order])
        dense = cat.to_dense()
    except Exception as e:
        fail_or_tie(res, "C07:harness-exception", "assembly of CLI chunk files raises", case, e, "complete matrix")
        return nonempty
    if dense.shape != want.shape or not np.allclose(dense, want, rtol=1e-12, atol=1e-15):
        res.fail("CLI-assembled matrix differs from the metric applied to the samples' predict_viability", case,
                 {"max_abs_diff": float(np.max(np.abs(dense - want))) if dense.shape == want.shape else str(dense.shape)}, "equal (rtol 1e-12)")
    if not np.array_equal(dense, dense.T) or np.any(np.diag(dense) != 0) or np.any(dense < 0):
        res.fail("CLI-assembled matrix not symmetric / zero-diagonal / non-negative", case, dense.tolist(), "symmetric, zero diagonal, >= 0")
    # single-chunk CLI run
    out1 = os.path.join(tmp, "single.h5")
    run_chunk(0, 1, out1)
    single = dc.ChunkedDistanceMatrix.load(out1).to_dense()
    if not np.array_equal(single, dense):
        res.fail("CLI-assembled matrix differs from the single-chunk CLI run", case,
                 {"max_abs_diff": float(np.max(np.abs(dense - single)))}, "bit-equal")
    res.traces_validated += 1
    for f in list(outs.values()) + [out1, data_fn] + theta_fns:
        if os.path.exists(f):
            os.unlink(f)
    return nonempty


_SHARED_METRIC = {}


def case_metric(case, res, tie=None):
    from scipy.special import expit
    from batchie.distance.mse import MSEDistance
    a, b, sig = np.array(case["a"], dtype=float), np.array(case["b"], dtype=float), case["sigmoid"]
    layout = case.get("layout")
    if layout == "strided":        # non-contiguous views of one buffer (a slice of a prediction matrix)
        base = np.empty(2 * len(a), dtype=float)
        base[0::2], base[1::2] = a, b
        a, b = base[0::2], base[1::2]
    elif layout == "negstride":    # reversed views (negative stride)
        a, b = a[::-1].copy()[::-1], b[::-1].copy()[::-1]
    elif layout == "readonly":
        a.flags.writeable = False
        b.flags.writeable = False
    a0, b0 = a.copy(), b.copy()

    def view(x):
        """a fresh array with the case's layout holding the values x (so that one call cannot disturb the next)"""
        if layout == "strided":
            base_ = np.empty(2 * len(x), dtype=float)
            base_[0::2] = x
            return base_[0::2]
        if layout == "negstride":
            return x[::-1].copy()[::-1]
        y = x.copy()
        if layout == "readonly":
            y.flags.writeable = False
        return y

    # class object-reuse: ONE metric object per sigmoid setting serves every case of the run (vectors of different lengths);
    # its answers must be those of a fresh object
    m = _SHARED_METRIC.setdefault(bool(sig), MSEDistance(sigmoid=sig))
    try:
        with plain_logging():
            fresh = MSEDistance(sigmoid=sig).distance(a0.copy(), b0.copy())
        # the metric laws, every call on fresh arrays
        dab, dba, daa = m.distance(view(a0), view(b0)), m.distance(view(b0), view(a0)), m.distance(*(lambda v: (v, v))(view(a0)))
        dac = m.distance(view(a0), view(a0))        # identical predictions held in two different arrays
    except Exception as e:  # noqa
        if layout == "readonly":     # the property does not promise that read-only arrays are accepted: tie only
            res.disagree("C07:metric-readonly", {"case": case}, "%s" % type(e).__name__, "a distance")
        else:
            fail_or_tie(res, "C07:harness-exception", "metric raises", case, e, "a distance")
        return
    if dab != fresh:
        res.fail("a metric object that was used before gives another distance than a fresh one", case, float(dab), float(fresh))
    # purity is not a clause of the property (tie only): d(a,b) then d(b,a) on the SAME arrays
    if layout != "readonly":
        try:
            m.distance(a, b), m.distance(b, a)
            if not (np.array_equal(a, a0) and np.array_equal(b, b0)):
                res.disagree("C07:metric-mutates-arguments", {"case": case}, "arguments changed", "arguments unchanged")
        except Exception as e:  # noqa
            res.disagree("C07:metric-mutates-arguments", {"case": case}, type(e).__name__, "arguments unchanged")
    a, b = a0, b0
    if dac != 0:
        res.fail("metric non-zero on identical predictions", case, dac, 0)
    if dab != dba:
        res.fail("metric not symmetric", case, [dab, dba], "equal")
    if not (dab >= 0):
        res.fail("metric negative", case, dab, ">= 0")
    if daa != 0:
        res.fail("metric non-zero on identical predictions", case, daa, 0)
    # the formula itself (mean squared difference) is the model's: tie
    ref = float(np.mean(((expit(a0) - expit(b0)) if sig else (a0 - b0)) ** 2))
    if abs(ref - dab) > 1e-12 * max(1.0, abs(ref)):
        res.disagree("C07:metric-formula", {"case": case}, float(dab), ref)
    if tie is not None:
        def close(expect, got, ref=float(dab)):
            try:
                g = bits2f(got)
            except Exception:
                return False
            return abs(g - ref) <= 1e-12 * max(1.0, abs(ref))
        tie.add("mse %d %s %s" % (1 if sig else 0, int_list([f2bits(x) for x in a]), int_list([f2bits(x) for x in b])),
                repr(float(dab)), ("mse", len(a), sig), cmp=close)


# ------------------------------------------------------------------------------------------------

def verbose_aware(fn, pos):
    def wrapped(*a, **kw):
        with maybe_verbose(a[pos]):
            return fn(*a, **kw)
    wrapped.__name__ = fn.__name__
    return wrapped


def case_loadvalues(dc, case, res, tmp):
    """LOAD path (item 19): a file whose entries are NOT in enumeration order and whose values include -0.0 / huge / tiny finite numbers
    (fail: the loaded matrix must hold the same pairs with the same values) and NaN / +-inf (outside "distance values": tie only)."""
    n, entries = case["n"], case["entries"]
    m = dc.ChunkedDistanceMatrix(n)
    for (i, j, v) in entries:
        m.add_value(i, j, float(v))
    fn = os.path.join(tmp, "lv.h5")
    m.save(fn)
    back = dc.ChunkedDistanceMatrix.load(fn)
    os.unlink(fn)
    cur = int(m.current_index)
    a = [(int(m.row_indices[i]), int(m.col_indices[i]), f2bits(m.values[i])) for i in range(cur)]
    b = [(int(back.row_indices[i]), int(back.col_indices[i]), f2bits(back.values[i])) for i in range(int(back.current_index))]
    finite = lambda l: sorted(e for e in l if np.isfinite(bits2f(e[2])))      # noqa: E731
    if finite(a) != finite(b) or len(a) != len(b):
        res.fail("a loaded matrix does not hold the pairs and values that were saved (unsorted entries, signed zero, extreme magnitudes)", case,
                 {"saved": len(a), "loaded": len(b)}, "same pairs, same values")
    elif a != b:      # order of the entries, NaN / inf payloads: the model's business
        res.disagree("C07:load-rewrites-values", {"case": case}, "order or non-finite values changed by load", "identical")


case_partition = verbose_aware(case_partition, 1)
case_assembly = verbose_aware(case_assembly, 1)
case_temps = verbose_aware(case_temps, 1)
case_boundary = verbose_aware(case_boundary, 1)
case_handbuilt = verbose_aware(case_handbuilt, 1)
case_metric = verbose_aware(case_metric, 0)
case_loadvalues = verbose_aware(case_loadvalues, 1)


SMALL_ASSEMBLIES = [
    {"n": 2, "n_chunks": 1, "zmod": 0, "order": [0], "dropped": 0},
    {"n": 3, "n_chunks": 2, "zmod": 0, "order": [1, 0], "dropped": 1},
    {"n": 3, "n_chunks": 2, "zmod": 0, "order": [1, 0, 1], "dropped": 0},
    {"n": 3, "n_chunks": 5, "zmod": 1, "order": [4, 3, 2, 1, 0, 0], "dropped": 2},
    {"n": 4, "n_chunks": 3, "zmod": 2, "order": [2, 0, 1, 2], "dropped": 1},
    {"n": 4, "n_chunks": 6, "zmod": 0, "order": [5, 4, 3, 2, 1, 0], "dropped": 5},
]
SMALL_HANDBUILT = [
    {"n": 2, "entries": [[1, 0], [1, 0]], "mode": "overfull"},
    {"n": 3, "entries": [[1, 0], [1, 0], [2, 0], [2, 0]], "mode": "overfull"},
    {"n": 3, "entries": [[1, 0], [2, 1]], "mode": "short"},
    {"n": 3, "entries": [[2, 1], [1, 0], [2, 0]], "mode": "perm"},
    {"n": 3, "entries": [[1, 0], [1, 0], [2, 0]], "mode": "exact-dup"},
]


def count_assembly_classes(res, case):
    n, k, order = case["n"], case["n_chunks"], case["order"]
    if len(order) > 1:
        res.count("class.instalments")                        # chunk files are instalments; the merged matrix is saved over an older file
    N = n * (n - 1) // 2
    size = lambda c: (N // k) + (1 if c < N % k else 0)      # noqa: E731
    res.count("class.object-reuse")                           # one metric + holder object for all chunks
    if len(order) > 1:
        res.count("class.input-mutation")                     # snapshots of the loaded matrices around concat + second concat
    res.count("class.attribute-completeness")
    if case.get("np_int"):
        res.count("class.layout-dtype")
    if k > N:
        res.count("class.size-boundaries")                    # more chunks than pairs
        if N > 0 and size(order[0]) == 0:
            res.count("class.falsy-boundaries")               # empty chunk first: it is the accumulator when the first entries arrive
            res.count("assembly.empty_chunk_first")
    if n >= 11:
        res.count("class.size-boundaries")
    if case["zmod"] == 1 or n <= 1:
        res.count("class.falsy-boundaries")                   # all distances exactly 0 / n in {0, 1}
    # class row-orderings: some chunk starts in the middle of a row of the lower triangle
    start, mid = 0, False
    for c in range(k):
        if size(c) > 0:
            i = 0
            while (i + 1) * i // 2 <= start:
                i += 1
            if start != i * (i - 1) // 2:
                mid = True
        start += size(c)
    if mid:
        res.count("class.row-orderings")


def gen_assembly(rng):
    n = rng.choice([0, 1, 2, 3, 3, 4, 4, 5, 5, 6, 7, 8, 9])
    N = n * (n - 1) // 2
    k = rng.choice([1, 2, 3, max(1, N - 1), max(1, N), N + 1, N + 2, rng.randint(1, N + 3)])
    if rng.random() < 0.04:        # a larger matrix cut into a few chunks (chunks start and end in the middle of rows)
        n = rng.randint(12, 30)
        N = n * (n - 1) // 2
        k = rng.choice([2, 3, 4, 5, 7])
    z = rng.choice([0, 0, 2, 3, 7, 1])
    order = list(range(k))
    rng.shuffle(order)
    reps = [rng.randrange(k) for _ in range(rng.choice([0, 0, 1, 2]))]
    order = order + reps
    rng.shuffle(order)
    # which non-empty chunk to drop for the refusal part (chunk c is non-empty iff c < N when k > N, always when k <= N and N > 0)
    ne = [c for c in range(k) if (N // k) + (1 if c < N % k else 0) > 0]
    drop = rng.choice(ne) if ne else None
    return {"kind": "assembly", "n": n, "n_chunks": k, "zmod": z, "order": order, "dropped": drop,
            "share": bool(reps) and rng.random() < 0.5, "np_int": rng.random() < 0.3}, bool(reps)


def gen_handbuilt(rng):
    n = rng.choice([2, 3, 3, 4, 4, 5])
    N = n * (n - 1) // 2
    allp = [(i, j) for i in range(n) for j in range(i)]
    mode = rng.choice(["overfull", "exact-dup", "short", "perm"])
    if mode == "perm":
        es = list(allp)
        rng.shuffle(es)
    elif mode == "short":
        es = rng.sample(allp, rng.randint(0, N - 1))
    elif mode == "exact-dup":
        es = [rng.choice(allp[:-1]) for _ in range(N)] if N > 1 else list(allp)
    else:
        base = [p for p in allp if rng.random() < 0.7] or allp[:1]
        es = [rng.choice(base) for _ in range(N + rng.randint(1, 3))]
    return {"kind": "handbuilt", "n": n, "entries": [list(p) for p in es], "mode": mode}


def gen_cli(rng):
    n = rng.choice([1, 2, 3, 4, 5, 6])
    N = n * (n - 1) // 2
    k = rng.choice([1, 2, 3, max(1, N), N + 2])
    order = list(range(k))
    rng.shuffle(order)
    order += [rng.randrange(k) for _ in range(rng.choice([0, 1, 2]))]
    rng.shuffle(order)
    return {"kind": "cli", "seed": rng.randrange(2 ** 31), "n": n, "n_chunks": k, "order": order, "arity": rng.choice([1, 2, 2]),
            "rows": rng.randint(3, 9), "D": rng.choice([1, 2, 3]), "n_drugs": rng.randint(2, 4), "n_samples": rng.randint(1, 3),
            "split": rng.randint(0, n), "sigmoid": rng.choice([None, None, None, False]),
            "partial": rng.random() < 0.6, "dup": rng.choice([None, None, "pair", "pair", "all"]), "share": rng.random() < 0.3,
            "rec": rng.random() < 0.5, "scores_cli": rng.random() < 0.4, "verbose": rng.random() < 0.25}


def run(ctx, res):
    from batchie import distance_calculation as dc

    res.rule = RULE
    drv = ctx.driver
    tie = Tie()

    # ---------- A. index arithmetic -----------------------------------------------------
    for n in range(0, ctx.scale(30, 60)):
        tie.add("numlowertri %d" % n, str(dc.get_number_of_lower_triangular_indices(n)), ("numlowertri", n))
        tie.add("lowertri %d" % n, show_pairs(list(dc.lower_triangular_indices(n))), ("lowertri", n))
    budget_big = ctx.scale(60, 400)
    rng = ctx.subrng("chunks")
    for (n, k) in grid(ctx):
        N = n * (n - 1) // 2
        res.evaluations += 1
        if n >= 3 and k >= 2:
            res.nontrivial.add(("part", n, k))
        res.count("partition.n_le_14" if n <= 14 else "partition.n_gt_14")
        if k > N:
            res.count("partition.more_chunks_than_pairs")
        npi = (n + k) % 3 == 0
        if npi:
            res.count("class.layout-dtype")
        if k > N:
            res.count("class.size-boundaries")
        vb = (n * 7 + k) % 9 == 0 or (n, k) in ((0, 1), (1, 1), (3, 5))
        if vb:
            res.count("class.verbose-logging")
        case_partition(dc, {"kind": "partition", "n": n, "n_chunks": k, "np_int": npi, "verbose": vb}, res, tie, rng, budget_big)
    # malformed stream: errors on both sides
    # (.., -1, 2), (.., -2, 3): negative start -> islice ValueError; (3, -3, -2): start 3, end 2 -> negative islice count
    for (n, c, k) in [(3, 0, 0), (3, 3, 3), (3, 5, 2), (4, -1, 0), (0, 0, 1), (1, 0, 1), (2, 0, 5), (3, -1, 2), (5, -2, 3), (3, -3, -2),
                      (4, -5, -2), (6, -1, 4)]:
        try:
            v = show_pairs(dc.get_lower_triangular_indices_chunk(n, c, k))
        except (AssertionError, ZeroDivisionError, ValueError):
            v = "err"
        tie.add("chunk %d %d %d" % (n, c, k), v, ("chunk-malformed", n, c, k))
        res.count("malformed")

    tmp = tempfile.mkdtemp(prefix="c07_", dir=os.environ.get("VERIF_TMP", None))
    try:
        # ---------- B. assembly through real save/load/concat ---------------------------
        rng = ctx.subrng("asm")
        n_asm = ctx.scale(110, 1500, 600)
        for t in range(n_asm):
            if t < len(SMALL_ASSEMBLIES):     # small fixed cases first so that a replay is small when these already fail
                case, has_reps = dict(SMALL_ASSEMBLIES[t], kind="assembly"), len(SMALL_ASSEMBLIES[t]["order"]) > SMALL_ASSEMBLIES[t]["n_chunks"]
            else:
                case, has_reps = gen_assembly(rng)
            res.evaluations += 1
            if t % 6 == 3:
                case["verbose"] = True
                res.count("class.verbose-logging")
            nonempty = case_assembly(dc, case, res, tmp, tie, tie_calc=(t < 25 or rng.random() < 0.1))
            if nonempty is not None and nonempty >= 2:
                res.nontrivial.add(("asm", case["n"], case["n_chunks"], case["zmod"], tuple(case["order"])))
            res.count("assembly.repeats" if has_reps else "assembly.norepeats")
            count_assembly_classes(res, case)
            if len(res.samples) < 3:
                res.sample(case)
        # ---------- B1a. class falsy-boundaries: more chunks than pairs, EVERY order of the chunk files (so also every order in which
        #             an empty chunk is the accumulator when the first non-empty one arrives), exactly-zero distances ---------------
        import itertools
        prng = ctx.subrng("perm")
        perm_cases = [(2, 3, list(o)) for o in itertools.permutations(range(3))] + [(3, 4, list(o)) for o in itertools.permutations(range(4))]
        allp5 = [list(o) for o in itertools.permutations(range(5)) if o[0] >= 3]          # n=3, k=5: chunks 3 and 4 are empty
        perm_cases += [(3, 5, o) for o in prng.sample(allp5, min(len(allp5), ctx.scale(12, 48)))]
        perm_cases += [(1, 2, [1, 0]), (0, 3, [2, 0, 1]), (2, 2, [1, 0]), (2, 2, [1, 1, 0])]
        for (n_, k_, order_) in perm_cases:
            case = {"kind": "assembly", "n": n_, "n_chunks": k_, "zmod": prng.choice([0, 1, 2]), "order": order_ + ([order_[0]] if prng.random() < 0.3 else []),
                    "dropped": None, "share": prng.random() < 0.3, "np_int": prng.random() < 0.3}
            res.evaluations += 1
            if (n_ + k_ + order_[0]) % 4 == 0:
                case["verbose"] = True
                res.count("class.verbose-logging")
            case_assembly(dc, case, res, tmp, tie)
            res.count("assembly.all_orders")
            count_assembly_classes(res, case)
        # ---------- B1b. many samples, one chunk: indices above 255 survive save/load (oracle only: the model's
        #             list-based to_dense is quadratic in the number of pairs) ------------------------------------------
        for n_big in ctx.scale([300], [300, 520], [300]):
            case = {"kind": "assembly", "n": n_big, "n_chunks": 1, "zmod": 7, "order": [0], "dropped": None, "big": True}
            res.evaluations += 1
            case_assembly(dc, case, res, tmp, None)
            res.count("assembly.big_single_chunk")
        # ---------- B1bb. class identity-cache: temporaries of equal size through the real metric and the real loop -------------------
        trng = ctx.subrng("temps")
        for t in range(ctx.scale(8, 60)):
            n_ = trng.choice([3, 4, 6, 9])
            N_ = n_ * (n_ - 1) // 2
            k_ = trng.choice([1, 2, 3, N_ + 1])
            order_ = list(range(k_))
            trng.shuffle(order_)
            case = {"kind": "temps", "n": n_, "n_chunks": k_, "order": order_, "L": trng.choice([1, 5, 40]), "seed": trng.randrange(10 ** 6),
                    "sigmoid": trng.choice([True, False])}
            res.evaluations += 1
            if t % 3 == 0:
                case["verbose"] = True
                res.count("class.verbose-logging")
            case_temps(dc, case, res)
            res.count("class.identity-cache")
        # ---------- B1c. class size-boundaries x dtype: sizes straddling 127/128 and 255/256 -----------------------------------
        bcases = [{"kind": "boundary", "n": n_, "n_chunks": 1, "mode": "full"} for n_ in (127, 128, 129, 200, 255, 256, 257)]
        bcases += [{"kind": "boundary", "n": n_, "n_chunks": 3, "mode": "sparse"} for n_ in (127, 128, 129, 200, 255, 256, 257)]
        bcases += [{"kind": "boundary", "n": 129, "n_chunks": 2, "mode": "full", "order": [1, 0]}]
        bcases += ctx.scale([], [{"kind": "boundary", "n": 129, "n_chunks": 3, "mode": "full", "order": [2, 0, 1, 2]},
                                 {"kind": "boundary", "n": 200, "n_chunks": 2, "mode": "full", "order": [1, 0]}], [])
        for case in bcases:
            res.evaluations += 1
            if case["n"] in (129, 256):
                case["verbose"] = True
                res.count("class.verbose-logging")
            case_boundary(dc, case, res, tmp)
            res.count("class.size-boundaries")
            res.count("class.layout-dtype")
            res.count("class.int-width")
            res.count("boundary.%s.n%d" % (case["mode"], case["n"]))
        # ---------- B2. hand-built matrices (repeats / missing pairs) ---------------------
        rng = ctx.subrng("hand")
        for t in range(ctx.scale(100, 800, 400)):
            case = dict(SMALL_HANDBUILT[t], kind="handbuilt") if t < len(SMALL_HANDBUILT) else gen_handbuilt(rng)
            res.evaluations += 1
            res.count("handbuilt." + case["mode"])
            if t % 8 == 0:
                case["verbose"] = True
                res.count("class.verbose-logging")
            case_handbuilt(dc, case, res, tmp, tie)
        # ---------- B2c. LOAD path: unsorted entries, signed zero, extreme and non-finite values ---------------------------------
        lrng = ctx.subrng("loadvalues")
        for t in range(ctx.scale(12, 60)):
            n_ = lrng.choice([3, 4, 6])
            allp = [(i, j) for i in range(n_) for j in range(i)]
            lrng.shuffle(allp)
            vals = [0.0, -0.0, 1e-310, 1.7e308, 5e-324, 3.5, float("nan"), float("inf"), float("-inf"), 2.0 ** -1074]
            ents = [[i, j, lrng.choice(vals)] for (i, j) in allp[:lrng.randint(1, len(allp))]]
            case = {"kind": "loadvalues", "n": n_, "entries": ents, "verbose": t % 2 == 0}
            res.evaluations += 1
            res.count("load.values")
            if case["verbose"]:
                res.count("class.verbose-logging")
            case_loadvalues(dc, case, res, tmp)
        # ---------- B2a. concat's refusals: no matrix at all, matrices of different sizes (tie only) ------------------------
        rng = ctx.subrng("mismatch")
        try:
            dc.ChunkedDistanceMatrix.concat([])
            out = "no error"
        except Exception as e:  # noqa
            out = "err:" + type(e).__name__
        tie.add("dense -", out, ("concat-empty",))
        for t in range(ctx.scale(20, 100)):
            sizes = [rng.choice([2, 3, 4]) for _ in range(rng.choice([1, 2, 3]))]
            ms = []
            for n in sizes:
                kk = rng.choice([1, 2])
                ms.append(dc.calculate_pairwise_distance_matrix_on_predictions(StubThetas(n), StubMetric(0), None, rng.randrange(kk), kk))
            try:
                d = dc.ChunkedDistanceMatrix.concat(ms).to_dense()
                out = show_dense_int(d, sizes[0])
            except Exception as e:  # noqa
                out = "err:" + type(e).__name__
            res.count("concat.mixed_sizes" if len(set(sizes)) > 1 else "concat.same_size")
            tie.add("dense " + "/".join(cdm_arg(m) for m in ms), out, ("concat-sizes", tuple(sizes)))
        # ---------- B2b. add_value's refusals and boundary entries (tie only: exercises the model's addValue branches) --------
        rng = ctx.subrng("build")
        for t in range(ctx.scale(60, 400)):
            n = rng.choice([2, 3, 4, 5])
            es = []
            for _ in range(rng.randint(1, n * (n - 1) // 2 + 3)):
                kind = rng.choice(["low"] * 14 + ["diag", "diag", "upper", "row-out", "col-out", "neg-col", "neg-col"])
                i = rng.randrange(1, n)
                j = rng.randrange(0, i)
                if kind == "diag":
                    j = i
                elif kind == "upper":
                    i, j = j, i
                elif kind == "row-out":
                    i = n + rng.randrange(0, 2)
                elif kind == "col-out":
                    i, j = n - 1, n          # refused by the bounds test (j >= size) before the triangularity test
                elif kind == "neg-col":
                    j = -1 - rng.randrange(0, 2)
                es.append((i, j, rng.choice([0, 1, 5, 7])))
            m = dc.ChunkedDistanceMatrix(n)
            try:
                for (i, j, v) in es:
                    m.add_value(i, j, float(v))
                out = show_cdm(m)
            except Exception as e:  # noqa
                out = "err:" + type(e).__name__
            res.count("build.refused" if out.startswith("err") else "build.accepted")
            tie.add("build %d %s" % (n, ";".join("%d,%d,%d" % e for e in es)), out, ("build", n, len(es)))
        # ---------- B3. the real CLI end to end -------------------------------------------
        rng = ctx.subrng("cli")
        for t in range(ctx.scale(20, 200, 80)):
            case = gen_cli(rng)
            if t < 2:       # in every run: both entry points with recording plug-ins, once verbose and once not
                case.update(sigmoid=None, rec=True, scores_cli=True, verbose=(t == 0), n=max(case["n"], 3))
            res.evaluations += 1
            ne = case_cli(dc, case, res, tmp, tie)
            res.count("cli.arity%d" % case["arity"])
            res.count("cli.sigmoid_%s" % case["sigmoid"])
            res.count("cli.dup_%s" % case["dup"])
            if case["sigmoid"] is None:
                res.count("class.entry-point.calculate_distance_matrix")
            if case["scores_cli"]:
                res.count("class.entry-point.calculate_scores")
            if case["verbose"]:
                res.count("class.verbose-logging")
            res.count("cli.partially_observed" if case["partial"] else "cli.fully_observed")
            if len(case["order"]) > case["n_chunks"]:
                res.count("cli.repeated_chunk_files")
                if case["dup"]:
                    res.count("cli.repeated_chunk_files_with_zero_distances")
            if ne is not None and ne >= 2:
                res.nontrivial.add(("cli", case["seed"]))
            if t == 0:
                res.sample(case)
            if case["partial"]:
                res.count("class.row-orderings")       # observed rows between unobserved rows, plates interleaved
            if case["dup"]:
                res.count("class.falsy-boundaries")    # real distances exactly 0.0
            if case["share"]:
                res.count("class.object-reuse")
        for t in range(ctx.scale(1, 3, 1)):
            case = dict(gen_cli(rng), n=4, n_chunks=2, order=[1, 0, 1], split=1 + t, sigmoid=None, xproc=True)
            res.evaluations += 1
            case_cli(dc, case, res, tmp, tie)
            res.count("class.cross-process")
        # ---------- C. metric laws on the real MSEDistance -------------------------------
        rng = ctx.subrng("mse")
        nprng = np.random.default_rng(rng.randrange(2 ** 32))
        nm = ctx.scale(100, 2000)
        for t in range(nm):
            L = rng.choice([1, 2, 3, 10, 50])
            a = nprng.normal(size=L) * rng.choice([0.1, 1, 10])
            b = nprng.normal(size=L) * rng.choice([0.1, 1, 10])
            # structured pairs: predictions that agree on a prefix / in the first entry / everywhere but one entry / everywhere
            shape = rng.choice(["random", "random", "last-differs", "first-equal", "one-differs", "equal", "integers"])
            if shape == "last-differs":
                b = a.copy(); b[-1] += rng.choice([0.25, -1.0, 3.0])
            elif shape == "first-equal":
                b[0] = a[0]
            elif shape == "one-differs":
                b = a.copy(); b[rng.randrange(L)] -= 0.5
            elif shape == "equal":
                b = a.copy()
            elif shape == "integers":
                a, b = np.round(a), np.round(b)
            layout = rng.choice([None, None, "strided", "readonly", "negstride"])
            res.count("metric.shape.%s" % shape)
            res.count("metric.layout.%s" % layout)
            res.count("class.object-reuse", 2)
            res.count("class.input-mutation", 2)
            if layout:
                res.count("class.layout-dtype", 2)
            if shape == "equal":
                res.count("class.falsy-boundaries", 2)      # distance exactly 0.0
            for sig in (True, False):
                res.evaluations += 1
                if t % 5 == 0:
                    res.count("class.verbose-logging")
                case_metric({"kind": "metric", "a": a.tolist(), "b": b.tolist(), "sigmoid": sig, "layout": layout, "verbose": t % 5 == 0}, res,
                            tie if t < 200 else None)
        res.count("metric.cases", nm * 2)
    finally:
        shutil.rmtree(tmp, ignore_errors=True)

    drain_wrapper_errors(res)
    # ---------- tie: model vs implementation --------------------------------------------
    if drv is not None:
        got = drv.ask(tie.lines)
        for l, e, g_, m, cmp in zip(tie.lines, tie.expect, got, tie.meta, tie.cmp):
            same = cmp(e, g_) if cmp is not None else (e == g_)
            if not same:
                res.disagree("C07:%s" % m[0], {"line": l[:2000]}, e[:400], g_[:400])
        res.count("tie.lines", len(tie.lines))
    res.sample({"kind": "partition", "n": 7, "n_chunks": 5})


def replay(ctx, case, res):
    try:
        _replay(ctx, case, res)
    finally:
        drain_wrapper_errors(res, case)


def _replay(ctx, case, res):
    from batchie import distance_calculation as dc
    kind = case.get("kind")
    tmp = tempfile.mkdtemp(prefix="c07r_", dir=os.environ.get("VERIF_TMP", None))
    try:
        if kind == "partition":
            case_partition(dc, case, res)
        elif kind == "assembly":
            case_assembly(dc, case, res, tmp)
        elif kind == "handbuilt":
            case_handbuilt(dc, case, res, tmp)
        elif kind == "boundary":
            case_boundary(dc, case, res, tmp)
        elif kind == "temps":
            case_temps(dc, case, res)
        elif kind == "loadvalues":
            case_loadvalues(dc, case, res, tmp)
        elif kind == "cli":
            case_cli(dc, case, res, tmp)
        elif kind == "metric":
            case_metric(case, res)
        else:
            run(ctx, res)
    finally:
        shutil.rmtree(tmp, ignore_errors=True)
