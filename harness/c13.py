"""C13 -- generated, smoothed and initial plates satisfy their documented shape guarantees.

Same tie as C11 (shared module `prep_common`); oracles (implementation only): the per-operation post-conditions --
single-sample generated plates and size limit, sparse cover, combination filter reference, one common size and
optimality, per-sample minimum, merges within a sample, min-merging stops exactly, top-bottom halving.
"""
from harness import prep_common as P

RULE = ("per operation (3 generators, 6 smoothers, initial plate, combination filter, 2 hold-outs): random screens with several "
        "samples of few experiments each, samples with exactly the size limit, single-agent rows, one or many plates, "
        "one-sample-per-plate designs with assorted plate sizes, random parameters incl. boundary/invalid ones; numpy seed "
        "recorded per case. Non-trivial: operation returned, >=4 rows, >=2 unobserved plates.")


def run(ctx, res):
    P.run_property(ctx, res, "C13", P.oracles_c13, RULE)


def replay(ctx, case, res):
    P.replay_property(ctx, case, res, P.oracles_c13)
