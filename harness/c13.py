"""C13 -- generated, smoothed and initial plates satisfy their documented shape guarantees.

Same tie as C11 (shared module `prep_common`); oracles (implementation only): the per-operation post-conditions --
single-sample generated plates and size limit, sparse cover, combination filter reference, one common size and
optimality, per-sample minimum, merges within a sample, min-merging stops exactly, top-bottom halving.
"""
from harness import prep_common as P
from harness import prep_pipeline as PP

RULE = ("per operation (3 generators, 6 smoothers, initial plate, combination filter, 2 hold-outs): random screens with several "
        "samples of few experiments each, samples with exactly the size limit, single-agent and vehicle-only rows, arity 1-3, one or many "
        "plates, one-sample-per-plate designs with assorted plate sizes, random parameters incl. boundary/invalid ones; PLUS directed "
        "families (evidence distribution `directed.*`, clause hit counts `clause.*`): >= 11 generated plates in one call for the "
        "segregating / pairwise / permutation generators (a fixed-width `<U17` name buffer turns generated_plate_10 into generated_plate_1; "
        "pairwise screens give the first sample < 10 tuples so plates 1 and 10 belong to different samples), samples exactly at / one above / "
        "below max_plate_size and 11-14 samples at once, top-bottom merging with plate counts 3,5,6,7,11 (also 1,2,4,9) per sample and 1-4 "
        "iterations (ceil-halving per iteration), min-merging where the two smallest plates sum to exactly the limit or limit+1 (at the "
        "start or after one merge), fixed size with plates exactly at the size, optimal size on size lists whose retained count ties, "
        "per-sample minimum with >= 2 samples to drop interleaved in id order with samples that stay (also through the ensemble), plate "
        "names mostly `generated_plate_<n>` with one- and two-digit n; numpy seed recorded per case. The oracles read the INPUT from the "
        "raw case description. Non-trivial: operation returned, >=4 rows, >=2 unobserved plates."
        " HARDENING_CHECKLIST classes (evidence `class.*`): every case checks the input screen byte-for-byte after the call; 3 cases per "
        "operation (+ directed ones) run a history on ONE operation object (op(relative of the input with an extra plate/sample); op(input) "
        "judged; op(input) again) and compare with a fresh object and re-read the judged result; inputs as Fortran / strided / negative-stride / "
        "read-only / <U48 arrays and names >= 27 characters; supplied mappings with shuffled rows and permuted ids, screens without any "
        "control, pairwise single-agent samples that are not a sorted prefix of the combination samples; array attributes of results "
        "enumerated by introspection (+ ids one-to-one with names); 5 cases per operation repeated in another interpreter with another "
        "PYTHONHASHSEED; generator seed 0, one-row screens, parameters 0/1, sample id 0 dropped; rows shuffled (observed rows before / between "
        "unobserved ones, plates and samples interleaved); >= 11 and >= 101 generated plates."
        " PIPELINE stream (op `pipeline`, evidence `pipeline.*`): the real cli/prepare_retrospective_simulation.main() on small saved screens, "
        "36 option combinations per quick run (all generator x smoother pairs, 8 targeted initial-generator combinations; all 3x4x7 in the thorough "
        "tier), one recording generator injected through get_prng_from_seed_argument, stage markers around the initial generator / generator / "
        "smoother / hold-out, outputs read with h5py by dataset name (tie knowledge: on any raw-access error `layout.unexpected` + tie and fall back to Screen.load_h5) and compared with Model/PrepPipeline.lean; end-to-end oracles on the files (conservation vs a "
        "reference combination filter, test fully observed + per-plate counts, shared mappings, initial plate covers, single-sample unobserved plates)."
        " CHECKLIST items 10-14: every operation also runs on 5 same-size TEMPORARY screens built so that the next screen gets the freed "
        "address (id() collision observed and counted), then on the input; history cases call op(x, other seed) before op(x, seed) and compare "
        "output, draw trace, heap trace and generator state with a fresh object; pipeline output paths pre-filled with another screen; 128/129 and "
        ">= 257 generated plates, hold-out from a plate of 255-257 rows, a 257-260 row / >= 128 treatment-id screen through load -> main -> save; "
        "--holdout-fraction omitted / 0.05 / 0.25. Oracles fire only for clauses of the property text; everything else the harness pins down (row order, "
        "plate labels of the input relabelled in place, reused-vs-fresh differences, id bookkeeping, PYTHONHASHSEED dependence, mappings, which plates a "
        "size smoother retains) is a tie with the model (no replay)."
        " CHECKLIST items 18-19: the pipeline stream IS the real entry point of every stage of this property (prepare_retrospective_simulation.main()); its "
        "oracles also look at what each stage RECEIVED from the glue (loaded screen, filtered screen = reference combination filter incl. multi-dose single "
        "agents, the screen / generator / fraction / plugin parameters reaching the initial generator, generator, smoother and hold-out) and the files; "
        "~15 % of the cases of both streams (and the boundary families) run under vlib.common.verbose_logging() (+ --verbose for main()) with \"verbose\": true in the "
        "case, same oracles, and are compared with the quiet run (difference alone = tie); input files with NaN / +-inf / -0.0 observation values.")


def run(ctx, res):
    P.run_property(ctx, res, "C13", P.oracles_c13, RULE, extra_stream=PP.run_stream)


def replay(ctx, case, res):
    if case.get("op") == "pipeline":
        return PP.replay(ctx, case, res, "C13")
    P.replay_property(ctx, case, res, P.oracles_c13, "C13")
