"""C19: the pipeline launcher is replaced at the lowest level the script can reach it -- `subprocess.Popen` -- so that every way
of starting `nextflow` (`check_call`, `run(check=True)`, `call`, `Popen` directly; positional or keyword arguments; `import
subprocess` or `from subprocess import ...`) ends in the harness's emulated pipeline.  Nothing inside the script module is
touched.  The replacement accepts any call form (checklist item 21); a form it cannot interpret is reported through
`on_unexpected` (a broken tie), never as a property violation."""
import contextlib
import shlex
import subprocess


@contextlib.contextmanager
def popen_patch(launcher, is_active, pipeline_failures, on_unexpected):
    real = subprocess.Popen

    class FakePopen:
        def __new__(cls, *a, **kw):
            if not is_active():
                return real(*a, **kw)
            return object.__new__(cls)

        def __init__(self, *a, **kw):
            self.returncode = None
            self.stdin = self.stdout = self.stderr = None
            self.pid = 0
            args = a[0] if a else kw.get("args")
            self.args = args
            cwd = kw.get("cwd")
            try:
                if isinstance(args, (str, bytes)):
                    args = shlex.split(args.decode() if isinstance(args, bytes) else args)
                cmd = [str(c) for c in args]
            except Exception as e:  # noqa
                on_unexpected("pipeline launched in a form the harness cannot read: %r (%s)" % (args, e))
                self.returncode = 1
                return
            self._pipes = kw.get("stdout") is not None or kw.get("capture_output")
            try:
                launcher(cmd, cwd)
                self.returncode = 0
            except pipeline_failures as e:
                self.failure = e
                self.returncode = 1       # nextflow exits non-zero

        def wait(self, *a, **kw):
            return self.returncode

        def poll(self):
            return self.returncode

        def communicate(self, *a, **kw):
            return (b"" if self._pipes else None, None)

        def kill(self):
            pass

        terminate = send_signal = kill

        def __enter__(self):
            return self

        def __exit__(self, *exc):
            return False

    subprocess.Popen = FakePopen
    try:
        yield
    finally:
        subprocess.Popen = real


def in_harness(exc, harness_dir):
    """the innermost frame of the exception's traceback is harness code (a wrapper / parser of ours failed)"""
    tb = exc.__traceback__
    last = None
    while tb is not None:
        last = tb
        tb = tb.tb_next
    return last is not None and last.tb_frame.f_code.co_filename.startswith(harness_dir)
