"""C16 -- the k-per-sample policy yields batches with zero or exactly k plates per sample.

Tie: the real `KPerSamplePlatePolicy.filter_eligible_plates` (called directly on arbitrary, also unreachable, batch states and
list orders) and the real `select_next_plate` (driven along selection histories on real Screens with prescribed scores, the
eligible list captured by a recording subclass of the real policy) against the Lean model `Batchie.Policy`
(driver ops `elig`, `select`).

Oracles (implementation only, evaluated in every state of every history, histories start from the empty batch and every
step is a plate that the real `select_next_plate` returned): eligible ⊆ unobserved plates not in the batch; a sample with
1..k-1 plates in the batch => eligible = exactly its remaining plates, non-empty; otherwise every eligible plate's sample has
0 plates in the batch and >= k remaining; at most one sample in progress; no sample above k; |batch| = m*k => every sample has
0 or k; multi-sample plates refused (ValueError).
"""
import itertools

import numpy as np

from vlib import common

common.use_repo_sources()

RULE = ("screens of single-sample plates: 1-6 samples x 0-6 plates (plate ids interleaved across samples, some plates observed), "
        "k 1-4; 1-3 rounds per screen (a finished batch is marked observed with the real Screen.set_observed, the next batch starts empty on the "
        "same Screen object), in half of the histories ONE policy object serves every call of every round; histories from the empty batch along random and adversarial orders (switch sample whenever allowed / starve the "
        "smallest sample / lowest id), every pick made by the real select_next_plate with scores that make the intended plate the "
        "best eligible one while every non-eligible plate scores lower; exhaustive part: every reachable batch state of every "
        "screen with <= S samples x <= P plates (quick S=3,P=3,total<=6; thorough S=4,P=4,total<=8), k 1-3; direct policy calls on "
        "arbitrary (unreachable) states and orders for the tie; screens with a multi-sample plate for the refusal. "
        "Non-trivial: a state with a non-empty batch, >= 2 samples and k >= 2.")


# ----------------------------------------------------------------------------------------------
# screens
# ----------------------------------------------------------------------------------------------
def gen_opts(rng, plates):
    """input classes of the hardening checklist, stored in the case so that a replay rebuilds the same screen / call"""
    ns = 1 + max([x for p in plates for x in p["rows"]] or [0])
    smap = None
    if rng.random() < 0.4:
        smap = list(range(ns)) + [90 + i for i in range(rng.choice([0, 1, 2]))]     # absent names -> gaps in the used sample ids
        rng.shuffle(smap)
    return {"interleave": rng.random() < 0.5, "long_names": rng.random() < 0.3, "perm_names": rng.randrange(1, 10 ** 6) if rng.random() < 0.5 else None,
            "sample_map": smap, "np_ids": rng.random() < 0.4, "warm": rng.random() < 0.5, "obs_instalments": rng.random() < 0.5,
            "ties": ({"mode": rng.choice(TIE_MODES), "store": rng.choice(["first", "last", None])} if rng.random() < 0.25 else None)}


def build_screen(plates, opts=None):
    """plates: list of {"rows": [sample index per row], "observed": bool}.  Default: plate i is named p<i> (so its id is i), rows plate by plate.
    opts (all optional): perm_names -> plate names (hence ids) are a permutation of the construction order; long_names -> names of >= 30
    characters; interleave -> the rows of a plate are NOT contiguous (round robin over the plates); sample_map -> a supplied sample mapping
    with permuted ids and names that do not occur (id gaps)."""
    import random as _random
    from batchie.data import Screen
    opts = opts or {}
    num = list(range(len(plates)))
    if opts.get("perm_names"):
        _random.Random(opts["perm_names"]).shuffle(num)
    ppre, spre = ("plate_with_a_rather_long_name_", "sample_with_a_rather_long_name_") if opts.get("long_names") else ("p", "s")
    rows = []
    for i, p in enumerate(plates):
        for r, s in enumerate(p["rows"]):
            rows.append((r if opts.get("interleave") else 0, i, s, bool(p["observed"])))
    if opts.get("interleave"):
        rows.sort(key=lambda x: (x[0], x[1]))
    sn = [spre + "%02d" % x[2] for x in rows]
    pn = [ppre + "%03d" % num[x[1]] for x in rows]
    mask = [x[3] for x in rows]
    n = len(sn)
    kw = {}
    if opts.get("sample_map"):
        names = np.array([spre + "%02d" % x for x in opts["sample_map"]], dtype=str)
        kw["sample_mapping"] = (names, np.arange(len(names)))
    return Screen(
        treatment_names=np.array([["a", "b"]] * n, dtype=str).reshape(n, 2),
        treatment_doses=np.array([[1.0, 2.0]] * n, dtype=float).reshape(n, 2),
        sample_names=np.array(sn, dtype=str),
        plate_names=np.array(pn, dtype=str),
        observations=np.array([0.5 if m else 0.0 for m in mask], dtype=float),
        observation_mask=np.array(mask, dtype=bool),
        **kw
    )


def screen_snapshot(screen):
    """every array attribute of the screen, by introspection"""
    out = {}
    for key, v in sorted(vars(screen).items()):
        if isinstance(v, np.ndarray):
            out[key] = (str(v.dtype), v.shape, v.tobytes())
    return out


def describe(screen):
    """what the model needs: (plate id, unique sample ids, observed) per plate in screen.plates order"""
    out = []
    for p in screen.plates:
        out.append((int(p.plate_id), [int(x) for x in np.unique(p.sample_ids)], bool(p.is_observed)))
    return out


def plate_tok(d):
    return "%d:%s:%d" % (d[0], ".".join(str(s) for s in d[1]) if d[1] else "_", 1 if d[2] else 0)


def plates_tok(ds):
    return "-" if not ds else ";".join(plate_tok(d) for d in ds)


def ids_tok(l):
    return "-" if not l else ",".join(str(int(x)) for x in l)


WRAP_ERRORS = []


def bound_plate_lists(original, self_, args, kwargs):
    """(batch_plates, unobserved_plates) of a call of the policy, whatever positional / keyword form was used"""
    import inspect
    ba = inspect.signature(original).bind(self_, *args, **kwargs)
    a = ba.arguments
    if "batch_plates" in a and "unobserved_plates" in a:
        return a["batch_plates"], a["unobserved_plates"]
    lists = [v for v in list(a.values())[1:] if isinstance(v, list)]
    return lists[0], lists[1]


def drain_wrapper_errors(res, case=None):
    if WRAP_ERRORS:
        res.count("wrapper.unexpected-call", len(WRAP_ERRORS))
        res.disagree("C16:wrapper-unexpected-call", {"case": case}, WRAP_ERRORS[0], "a call form the harness's wrapper understands")
        del WRAP_ERRORS[:]


def make_policy(k, log):
    from batchie.policies.k_per_sample import KPerSamplePlatePolicy

    class Recording(KPerSamplePlatePolicy):
        def filter_eligible_plates(self, *args, **kwargs):
            # any positional / keyword form is accepted and forwarded unchanged (checklist item 21); what the harness wants to look at
            # (the two plate lists) is bound against the real signature, and failing to do so is the harness's problem (tie)
            entry = {}
            log.append(entry)
            batch_plates = unobserved_plates = None
            try:
                batch_plates, unobserved_plates = bound_plate_lists(KPerSamplePlatePolicy.filter_eligible_plates, self, args, kwargs)
                entry["batch"] = [int(p.plate_id) for p in batch_plates]
                entry["unobs"] = [int(p.plate_id) for p in unobserved_plates]
                b0, u0 = list(batch_plates), list(unobserved_plates)
            except Exception as e:  # noqa
                WRAP_ERRORS.append("Recording.filter_eligible_plates: %s: %s" % (type(e).__name__, e))
                batch_plates = None
            try:
                r = super().filter_eligible_plates(*args, **kwargs)
            except Exception as e:  # noqa
                entry["error"] = type(e).__name__
                raise
            entry["eligible"] = [int(p.plate_id) for p in r]
            if batch_plates is not None:
                entry["args_changed"] = (len(b0) != len(batch_plates) or any(x is not y for x, y in zip(b0, batch_plates)) or
                                         len(u0) != len(unobserved_plates) or any(x is not y for x, y in zip(u0, unobserved_plates)))
            return r

    return Recording(k)


TIE_MODES = ["all-equal", "signed-zero", "tie-target", "size"]


def make_scores(desc, eligible, target, ties=None, screen=None, batch=()):
    """default: the target is the best ELIGIBLE plate; every non-eligible plate scores lower still, all scores distinct.
    ties (checklist item 22: EXACT ties between allowed and non-allowed plates), {"mode": ..., "store": "first" | "last" | None}:
      all-equal   every plate scores 0.0
      signed-zero allowed plates 0.0, non-allowed plates -0.0 (equal as numbers)
      tie-target  the target and every non-allowed plate score 1.5, the other allowed plates more
      size        the table the real score_chunk builds with the real SizeScorer (score = plate size: equal-size plates tie)
    store: the non-allowed plates are stored first / last in the table (default: plate order)."""
    from batchie.scoring.main import ChunkedScoresHolder
    mode = (ties or {}).get("mode")
    if mode == "size" and screen is not None:
        from batchie.scoring.main import score_chunk
        from batchie.scoring.size import SizeScorer
        return score_chunk(scorer=SizeScorer(), thetas=None, screen=screen, distance_matrix=None, rng=np.random.default_rng(0),
                           batch_plate_ids=[int(x) for x in batch] or None)
    rows = []
    for i, d in enumerate(desc):
        pid = d[0]
        if mode in ("all-equal", "size") or (mode == "tie-target" and target is None):
            sc = 0.0
        elif mode == "signed-zero":
            sc = 0.0 if (pid in eligible or not eligible) else -0.0
        elif mode == "tie-target":
            sc = 1.5 if (pid == target or pid not in eligible) else 2.5 + i
        elif pid == target:
            sc = 0.0
        elif pid in eligible:
            sc = 1.0 + i
        else:
            sc = -5.0 - i
        rows.append((pid, sc))
    store = (ties or {}).get("store")
    if store in ("first", "last") and eligible:
        non = [r for r in rows if r[0] not in eligible]
        yes = [r for r in rows if r[0] in eligible]
        rows = non + yes if store == "first" else yes + non
    h = ChunkedScoresHolder(size=len(rows))
    for pid, sc in rows:
        h.add_score(pid, sc)
    return h


MUTATIONS = []
CALLS = [0]
LAST_RAW = [None]
LAST_TABLE = [None]


def check_mutations(res, case):
    if MUTATIONS:       # purity is not a clause of the property: a broken tie, never a concrete violation
        res.disagree("C16:input-mutation", {"case": case}, MUTATIONS[0], "arguments unchanged")
        del MUTATIONS[:]
    return True


DECOY = [{"rows": [0], "observed": False}, {"rows": [1, 1], "observed": False}, {"rows": [0], "observed": False}, {"rows": [1], "observed": False},
         {"rows": [0], "observed": True}, {"rows": [1], "observed": False}, {"rows": [0], "observed": False}]


def warm_policy(shared, k):
    """class object-reuse: before it serves a history, the policy object answers calls about ANOTHER screen (other samples, other counts)"""
    scr = build_screen(DECOY)
    d = describe(scr)
    el, err, _ = call_select(scr, d, k, [], shared=shared)
    if el:
        call_select(scr, d, k, [el[-1]], shared=shared)


CLI_LOG = []


def install_cli_policy():
    """the policy class `select_next_plate.main()` finds by introspection: the real policy, recording what it is handed"""
    import batchie.policies.k_per_sample as mod
    if getattr(mod, "VerifRecKPerSample", None) is None:
        class VerifRecKPerSample(mod.KPerSamplePlatePolicy):
            def __init__(self, k: int, *args, **kwargs):
                super().__init__(k, *args, **kwargs)

            def filter_eligible_plates(self, *args, **kwargs):
                entry = {"k": self.k}
                CLI_LOG.append(entry)
                try:
                    bp, up = bound_plate_lists(mod.KPerSamplePlatePolicy.filter_eligible_plates, self, args, kwargs)
                    entry["batch"] = [int(p.plate_id) for p in bp]
                    entry["unobs"] = [int(p.plate_id) for p in up]
                except Exception as e:  # noqa
                    WRAP_ERRORS.append("VerifRecKPerSample.filter_eligible_plates: %s: %s" % (type(e).__name__, e))
                r = super().filter_eligible_plates(*args, **kwargs)
                entry["eligible"] = [int(p.plate_id) for p in r]
                return r
        mod.VerifRecKPerSample = VerifRecKPerSample


def call_select_cli(screen, desc, k, batch, eligible_hint, target, cli, ties=None):
    """class entry-point: the same call through `batchie.cli.select_next_plate.main()`: screen and scores are real files (the scores in
    two files), the batch goes in as --batch-plate-id, the policy as --policy/--policy-param, the answer comes back in the output file.
    Returns (eligible ids the POLICY computed from what it RECEIVED, error class, plate id in the output file | None)."""
    import contextlib
    import io
    import os
    from batchie.cli import select_next_plate as cli_mod
    from batchie.scoring.main import ChunkedScoresHolder
    from harness.c07 import quiet_cli
    install_cli_policy()
    d = cli["dir"]
    data_fn, out_fn = os.path.join(d, "screen.h5"), os.path.join(d, "next.txt")
    screen.save_h5(data_fn)
    full = make_scores(desc, set(eligible_hint), target, ties, screen, batch)
    stored = [int(x) for x in full.plate_ids[:full.current_index]]      # the table's own storage order, split over two files
    half = max(1, len(stored) // 2)
    files = []
    for part, sl in enumerate((slice(0, half), slice(half, None))):
        ids_ = stored[sl]
        if not ids_:
            continue
        h = ChunkedScoresHolder(size=len(ids_))
        for pid in ids_:
            h.add_score(pid, full.get_score(pid))
        fn = os.path.join(d, "scores%d.h5" % part)
        h.save_h5(fn)
        files.append(fn)
    if not files:
        # nothing was scored (every plate is observed or already in the batch; the SizeScorer table of the `size` tie mode is then empty):
        # `--scores` needs at least one file, so the command cannot be invoked at all -- the library call answers this step
        return _call_select(screen, desc, k, batch, eligible_hint, target, None, False, ties)
    CALLS[0] += 1
    argv = ["select_next_plate", "--data", data_fn, "--scores"] + files + ["--policy", "VerifRecKPerSample", "--policy-param", "k=%d" % k,
                                                                            "--output", out_fn, "--seed", str(CALLS[0] % 3)]
    if batch:
        argv += ["--batch-plate-id"] + [str(int(x)) for x in batch]
    if cli.get("verbose"):
        argv.append("--verbose")
    del CLI_LOG[:]
    if os.path.exists(out_fn):
        os.unlink(out_fn)
    try:
        with quiet_cli(argv), contextlib.redirect_stdout(io.StringIO()):
            cli_mod.main()
    except BaseException as e:  # noqa  (argparse: SystemExit)
        from harness.wrapguard import raised_in_harness
        return (CLI_LOG[-1].get("eligible") if CLI_LOG else None), ("harness:" if raised_in_harness(e) else "") + type(e).__name__, None
    el = CLI_LOG[-1].get("eligible") if CLI_LOG else None
    if CLI_LOG and "batch" in CLI_LOG[-1] and sorted(CLI_LOG[-1]["batch"]) != sorted(int(x) for x in batch):
        # what the policy RECEIVED as the batch is not the batch given on the command line: reported through the property's own clause
        # (oracle_state judges `el` against the true batch), and recorded here for the message
        cli["received_batch"] = CLI_LOG[-1]["batch"]
    try:
        with open(out_fn) as f:
            ret = int(f.read().strip())
    except Exception:  # noqa
        ret = None
    return el, None, (None if ret is None or ret < 0 else ret)


def call_select(screen, desc, k, batch, eligible_hint=(), target=None, shared=None, np_ids=False, cli=None, ties=None):
    if cli is not None:
        return call_select_cli(screen, desc, k, batch, eligible_hint, target, cli, ties)
    return _call_select(screen, desc, k, batch, eligible_hint, target, shared, np_ids, ties)


def _call_select(screen, desc, k, batch, eligible_hint=(), target=None, shared=None, np_ids=False, ties=None):
    """real select_next_plate; returns (eligible ids | None, error class | None, returned plate id | None).
    `shared` = (policy, log): ONE policy object used for every call of a history (and of its later rounds); default a new one per call."""
    from batchie.scoring.main import select_next_plate
    if shared is not None:
        pol, log = shared
        del log[:]
    else:
        log = []
        pol = make_policy(k, log)
    scores = make_scores(desc, set(eligible_hint), target, ties, screen, batch)
    # the table in storage order with the scores as integers (every score the harness makes is a multiple of 0.5; -0.0 = 0.0 = 0)
    LAST_TABLE[0] = [(int(scores.plate_ids[i]), int(round(float(scores.scores[i]) * 2))) for i in range(scores.current_index)]
    ids = [np.int64(x) for x in batch] if np_ids else list(batch)
    LAST_RAW[0] = None
    if CALLS[0] % 4 == 1:          # the "-1 = no plate" placeholders of earlier select_next_plate outputs fed back in as batch ids
        ids = [-1] + ids + ([-1] if len(ids) > 1 else [])
        LAST_RAW[0] = [int(x) for x in ids]
    ids0 = list(ids)
    snap = screen_snapshot(screen)
    CALLS[0] += 1
    try:
        # class reuse-other-generator: every call hands the (possibly reused) policy a generator with ANOTHER seed;
        # the empty batch is sometimes passed as the default None
        r = select_next_plate(scores=scores, screen=screen, policy=pol, batch_plate_ids=(None if (not ids and CALLS[0] % 2) else ids),
                              rng=np.random.default_rng(CALLS[0]))
    except Exception as e:  # noqa
        from harness.wrapguard import raised_in_harness
        return (log[-1].get("eligible") if log else None), ("harness:" if raised_in_harness(e) else "") + type(e).__name__, None
    if screen_snapshot(screen) != snap or ids != ids0 or (log and log[-1].get("args_changed")):
        MUTATIONS.append({"screen_changed": screen_snapshot(screen) != snap, "batch_ids_changed": ids != ids0,
                          "policy_argument_lists_changed": bool(log and log[-1].get("args_changed"))})
    el = log[-1]["eligible"] if log else None
    return el, None, (None if r is None else int(r.plate_id))


# ----------------------------------------------------------------------------------------------
# oracle
# ----------------------------------------------------------------------------------------------
def oracle_state(res, case, desc, k, batch, el, err, returned):
    """the property clauses in one state; returns False when a clause failed"""
    drain_wrapper_errors(res, case)
    if err is not None and str(err).startswith("harness:"):      # raised by the harness's own wrapper / stub code: tie, not a finding
        res.count("wrapper.unexpected-call")
        res.disagree("C16:harness-exception", {"case": case}, err, "no exception in harness code")
        return False
    byid = {d[0]: d for d in desc}
    bset = set(batch)
    involved = [d for d in desc if d[0] in bset or not d[2]]
    if any(len(d[1]) != 1 for d in involved):
        if err is None:
            res.fail("multi-sample plate not refused", case, {"error": err, "eligible": el}, "an exception", signature="C16:multi-not-refused")
            return False
        if err != "ValueError":     # the property says "refused"; the exception class is the model's business
            res.disagree("C16:refusal-class", {"case": case}, err, "ValueError")
        return True
    if err is not None:
        res.fail("policy raises on single-sample plates", case, err, "no exception", signature="C16:raises")
        return False
    remaining = [d for d in desc if not d[2] and d[0] not in bset]
    rem_ids = [d[0] for d in remaining]
    cntb, cntu = {}, {}
    for pid in bset:
        s = byid[pid][1][0]
        cntb[s] = cntb.get(s, 0) + 1
    for d in remaining:
        cntu[d[1][0]] = cntu.get(d[1][0], 0) + 1
    st = dict(case, state={"batch": sorted(bset), "eligible": el})
    if len(set(el)) != len(el) or not set(el) <= set(rem_ids):
        res.fail("eligible plates are not a subset of the unobserved plates outside the batch", st, el, rem_ids, signature="C16:subset")
        return False
    over = {s: c for s, c in cntb.items() if c > k}
    if over:
        res.fail("a sample has more than k plates in the batch", st, over, "<= %d" % k, signature="C16:over-k")
        return False
    open_ = sorted(s for s, c in cntb.items() if 0 < c < k)
    if len(open_) > 1:
        res.fail("more than one incomplete sample in a batch prefix", st, open_, "at most one", signature="C16:two-open")
        return False
    if open_:
        want = [d[0] for d in remaining if d[1][0] == open_[0]]
        # the property: ONLY that sample's plates, and at least one (that it is all of them is the model's business -> tie)
        if not set(el) <= set(want) or not el:
            res.fail("sample in progress: eligible plates are not a non-empty set of its remaining plates", st, el, want, signature="C16:in-progress")
            return False
    else:
        for pid in el:
            s = byid[pid][1][0]
            if cntb.get(s, 0) != 0 or cntu.get(s, 0) < k:
                res.fail("a sample is opened although it is already in the batch or has fewer than k plates left", st,
                         {"plate": pid, "sample": s, "in_batch": cntb.get(s, 0), "remaining": cntu.get(s, 0)}, "in_batch = 0 and remaining >= %d" % k,
                         signature="C16:open-needs-k")
                return False
    if len(bset) % k == 0:
        bad = {s: c for s, c in cntb.items() if c not in (0, k)}
        if bad:
            res.fail("batch of m*k plates with a sample that has neither 0 nor k plates", st, bad, "0 or %d" % k, signature="C16:full-batch")
            return False
    if returned is None and el:     # giving up although plates are allowed breaks no clause of the property: tie
        res.disagree("C16:returned-none", {"case": st}, None, el)
    if returned is not None and returned not in el:
        res.fail("select_next_plate returned a plate that is not eligible", st, returned, el, signature="C16:returned")
        return False
    return True


# ----------------------------------------------------------------------------------------------
# generators
# ----------------------------------------------------------------------------------------------
def gen_plates(rng, counts, observed_frac=0.0, shuffle=True, multi=0):
    """counts[s] = number of single-sample plates of sample s"""
    pl = []
    for s, c in enumerate(counts):
        for _ in range(c):
            pl.append({"rows": [s] * rng.choice([1, 1, 2]), "observed": rng.random() < observed_frac})
    for _ in range(multi):
        a = rng.randrange(max(1, len(counts)))
        b = a + 1 + rng.randrange(3)
        pl.append({"rows": [a, b], "observed": False})
    if shuffle:
        rng.shuffle(pl)
    return pl


STRATEGIES = ["random", "switch", "starve", "lowest", "highest"]


def pick(rng, strat, desc, batch, el):
    byid = {d[0]: d for d in desc}
    if strat == "lowest":
        return min(el)
    if strat == "highest":
        return max(el)
    if strat == "switch" and batch:
        last = byid[batch[-1]][1][0]
        other = [p for p in el if byid[p][1][0] != last]
        if other:
            return rng.choice(other)
    if strat == "starve":
        rem = {}
        for d in desc:
            if not d[2] and d[0] not in batch:
                rem[d[1][0]] = rem.get(d[1][0], 0) + 1
        return min(el, key=lambda p: (rem.get(byid[p][1][0], 0), p))
    return rng.choice(el)


def count_state_classes(res, desc, k, batch, el):
    """class falsy-boundaries: id 0 where a truthiness test would go wrong"""
    byid = {d[0]: d for d in desc}
    cnt = {}
    for pid in batch:
        if len(byid[pid][1]) == 1:
            cnt[byid[pid][1][0]] = cnt.get(byid[pid][1][0], 0) + 1
    if k >= 2 and 0 < cnt.get(0, 0) < k:
        res.count("class.falsy-boundaries")
        res.count("falsy.sample_id_0_in_progress")
    if 0 in batch or (el and 0 in el):
        res.count("falsy.plate_id_0_in_batch_or_eligible")
    if k == 1 and batch:
        res.count("falsy.k1_nonempty_batch")
    if len(batch) >= 3:
        res.count("class.size-boundaries")          # third and later selections of a batch
    if len(desc) >= 11 and batch and max(batch) >= 10:
        res.count("class.size-boundaries")          # two-digit plate ids in the batch


def count_opts_classes(res, opts, reuse):
    opts = opts or {}
    if reuse:
        res.count("class.object-reuse")
        res.count("class.identity-cache")            # every call builds new Plate temporaries for the same policy object
        res.count("class.reuse-other-generator")     # ... and hands it a generator with another seed
    res.count("class.input-mutation")
    if opts.get("np_ids") or opts.get("long_names"):
        res.count("class.layout-dtype")
    if opts.get("sample_map") or opts.get("perm_names"):
        res.count("class.non-default-ids")
    if opts.get("interleave"):
        res.count("class.row-orderings")


def run_history(ctx, res, plates, k, strat, rng, lines, expect, meta, max_len=40, picks=None, rounds=1, reuse=False, prior=None, opts=None):
    """see _run_history; opts["verbose"]: the whole history under verbose logging; opts["cli"]: every call through select_next_plate.main()"""
    import shutil
    import tempfile
    from vlib import common as _common
    opts = dict(opts or {})
    cli = None
    tmpd = None
    if opts.get("cli"):
        tmpd = tempfile.mkdtemp(prefix="c16_")
        cli = {"dir": tmpd, "verbose": bool(opts.get("verbose"))}
    try:
        if opts.get("verbose"):
            with _common.verbose_logging():
                return _run_history(ctx, res, plates, k, strat, rng, lines, expect, meta, max_len, picks, rounds, reuse, prior, opts, cli)
        return _run_history(ctx, res, plates, k, strat, rng, lines, expect, meta, max_len, picks, rounds, reuse, prior, opts, cli)
    finally:
        if tmpd:
            shutil.rmtree(tmpd, ignore_errors=True)


def _run_history(ctx, res, plates, k, strat, rng, lines, expect, meta, max_len=40, picks=None, rounds=1, reuse=False, prior=None, opts=None, cli=None):
    """drive the real select_next_plate from the empty batch; returns number of states visited.
    rounds > 1: when a batch is finished its plates are marked observed with the real Screen.set_observed and the next batch starts
    from the empty batch on the SAME Screen object.  reuse: one policy object serves every call of every round.
    Replay: `prior` = the batches of the earlier rounds (followed pick by pick), `picks` = the picks of the last round."""
    opts = opts or {}
    screen = build_screen(plates, opts)
    if cli is not None:
        # the CLI works on the screen FILE: continue with the screen as it comes back from the file (ids as the CLI sees them)
        import os as _os
        from batchie.data import Screen as _Screen
        screen.save_h5(_os.path.join(cli["dir"], "screen0.h5"))
        screen = _Screen.load_h5(_os.path.join(cli["dir"], "screen0.h5"))
        reuse = False          # every CLI call builds its own policy object
        res.count("class.entry-point.select_next_plate")
    if opts.get("verbose"):
        res.count("class.verbose-logging")
    npi = bool(opts.get("np_ids"))
    shared = None
    if reuse:
        log = []
        shared = (make_policy(k, log), log)
        if opts.get("warm"):
            warm_policy(shared, k)
    count_opts_classes(res, opts, reuse)
    states = 0
    done = []                     # batches of the finished rounds
    forced_rounds = None
    if picks is not None:
        forced_rounds = [list(b) for b in (prior or [])] + [list(picks)]
        rounds = len(forced_rounds)
    for rnd in range(rounds):
        desc = describe(screen)   # observed flags change between rounds
        if rnd == 0:
            desc0 = desc
        n_samples = len(set(s for d in desc for s in d[1]))
        forced = forced_rounds[rnd] if forced_rounds is not None else None
        batch = []
        case = {"kind": "history", "plates": plates, "k": k, "picks": [], "prior": [list(b) for b in done], "reuse": reuse, "opts": opts}
        stop = False
        while len(batch) <= max_len:
            ties = opts.get("ties")
            el, err, ret0 = call_select(screen, desc, k, batch, shared=shared, np_ids=npi, cli=cli, ties=ties)
            states += 1
            res.evaluations += 1
            c = dict(case, picks=list(batch))
            ok = oracle_state(res, c, desc, k, batch, el, err, ret0) and check_mutations(res, c)
            count_state_classes(res, desc, k, batch, el)
            if cli is not None and 0 in batch:
                res.count("entry.select_next_plate.plate_id_0_in_batch")
            if lines is not None:
                lines.append("select %d %s %s" % (k, plates_tok(desc), ids_tok(batch)))
                expect.append("err:%s" % err if err else ids_tok(el))
                meta.append(c)
                if LAST_RAW[0] is not None and cli is None:
                    lines.append("selectraw %d %s %s" % (k, plates_tok(desc), ",".join(str(x) for x in LAST_RAW[0])))
                    expect.append("err:%s" % err if err else ids_tok(el))
                    meta.append(dict(c, kind="selectraw"))
                    res.count("glue.placeholder_ids_in_batch")
                if rnd > 0:
                    # the model's OWN account of the rounds: the screen as it was at the start + the finished batches (markObserved)
                    lines.append("rounds %d %s %s %s" % (k, plates_tok(desc0), "/".join(ids_tok(b) for b in done), ids_tok(batch)))
                    expect.append("err:%s" % err if err else ids_tok(el))
                    meta.append(dict(c, kind="rounds"))
            if batch and n_samples >= 2 and k >= 2:
                res.nontrivial.add(("state", k, tuple(sorted(batch)), plates_tok(desc)))
            if not ok or err:
                stop = True
                break
            if not el:
                break
            if forced is not None and shared is not None:
                # replay of a finding made with ONE policy object (possibly during the exhaustive exploration, which visits sibling states in
                # between): visit the siblings here too, results ignored, so that state kept inside the policy object has the same chance to show
                for q in el:
                    call_select(screen, desc, k, batch + [q], shared=shared, np_ids=npi)
                el_again, err_again, ret_again = call_select(screen, desc, k, batch, shared=shared, np_ids=npi)
                oracle_state(res, c, desc, k, batch, el_again, err_again, ret_again)
            if forced is not None:
                if len(batch) >= len(forced):
                    break
                if forced[len(batch)] not in el and not opts.get("ties"):
                    stop = True
                    break
                target = forced[len(batch)]
            else:
                target = pick(rng, strat, desc, batch, el)
            el2, err2, ret = call_select(screen, desc, k, batch, eligible_hint=el, target=target, shared=shared, np_ids=npi, cli=cli, ties=ties)
            if lines is not None and cli is None and err2 is None and el2 is not None and LAST_TABLE[0] is not None:
                # the model's argmin over the ALLOWED plates (first minimal in storage order) against the plate that came back
                lines.append("argmin %s %s" % (";".join("%d:%d" % e for e in LAST_TABLE[0]) or "-", ids_tok(el2)))
                expect.append("none" if ret is None else str(ret))
                meta.append(dict(c, kind="argmin"))
            if ties:
                # EXACT ties between allowed and non-allowed plates: whichever plate comes back must be one the policy allowed
                # (which of the tied allowed plates is C06's business); the history goes on with the plate that came back
                if err2 is not None or ret is None or ret not in (el2 if el2 is not None else el):
                    if err2 is not None and str(err2).startswith("harness:"):
                        res.disagree("C16:harness-exception", {"case": dict(c, target=target)}, err2, "no exception in harness code")
                    else:
                        res.fail("select_next_plate returned a plate that is not eligible", dict(c, target=target, state={"batch": list(batch), "eligible": el}),
                                 ret if err2 is None else err2, el, signature="C16:returned")
                    stop = True
                    break
                res.count("class.score-ties")
                target = ret
            elif ret != target:       # which allowed plate wins is the scores' business (C06): tie, and this history cannot go on as planned
                res.disagree("C16:best-eligible", {"case": dict(c, target=target)}, ret, target)
                stop = True
                break
            batch.append(target)
            # a batch is usually closed after a whole number of samples (m*k plates); sometimes it simply runs until nothing is eligible
            if forced is None and rounds > 1 and rnd + 1 < rounds and len(batch) % k == 0 and rng.random() < 0.35:
                break
        res.count("history.len.%s" % ("0" if not batch else "1-3" if len(batch) <= 3 else "4-9" if len(batch) <= 9 else "10+"))
        if rnd > 0:
            res.count("history.later_round")
            if opts.get("obs_instalments"):
                res.count("class.instalments")
        if stop or rnd + 1 >= rounds:
            break
        if batch and opts.get("obs_instalments"):      # class instalments: the batch is reported plate by plate
            for pid in batch:
                sel = screen.plate_ids == pid
                screen.set_observed(sel, np.full(int(sel.sum()), 0.5))
        elif batch:
            sel = np.isin(screen.plate_ids, np.array(batch, dtype=int))
            screen.set_observed(sel, np.full(int(sel.sum()), 0.5))
        done.append(list(batch))
    return states


def explore_all(ctx, res, plates, k, lines, expect, meta, rng, line_rate, opts=None):
    """every reachable batch state (as a set) of one screen"""
    opts = opts or {}
    npi = bool(opts.get("np_ids"))
    screen = build_screen(plates, opts)
    desc = describe(screen)
    n_samples = len(set(s for d in desc for s in d[1]))
    seen = set()
    stack = [()]
    shared = None
    if rng.random() < 0.5:       # one policy object for the whole exploration (states are visited in a non-monotone order)
        plog = []
        shared = (make_policy(k, plog), plog)
    count_opts_classes(res, opts, shared is not None)
    case0 = {"kind": "history", "plates": plates, "k": k, "opts": opts, "reuse": shared is not None}
    while stack:
        batch = stack.pop()
        key = frozenset(batch)
        if key in seen:
            continue
        seen.add(key)
        el, err, ret0 = call_select(screen, desc, k, list(batch), shared=shared, np_ids=npi)
        res.evaluations += 1
        c = dict(case0, picks=list(batch))
        ok = oracle_state(res, c, desc, k, list(batch), el, err, ret0) and check_mutations(res, c)
        count_state_classes(res, desc, k, list(batch), el)
        if rng.random() < line_rate:
            lines.append("select %d %s %s" % (k, plates_tok(desc), ids_tok(batch)))
            expect.append("err:%s" % err if err else ids_tok(el))
            meta.append(c)
        if batch and n_samples >= 2 and k >= 2:
            res.nontrivial.add(("state", k, tuple(sorted(batch)), plates_tok(desc)))
        if not ok or err or not el:
            continue
        # spot-check that the prescribed-score pick is honoured, then branch on EVERY eligible plate
        t = rng.choice(el)
        _, _, ret = call_select(screen, desc, k, list(batch), eligible_hint=el, target=t, shared=shared, np_ids=npi)
        if ret != t:
            res.disagree("C16:best-eligible", {"case": dict(c, target=t)}, ret, t)
            continue
        for p in el:
            stack.append(batch + (p,))
    res.count("exhaustive.states", len(seen))
    return len(seen)


def count_vectors(S, P, total):
    out = []
    for s in range(1, S + 1):
        for v in itertools.combinations_with_replacement(range(P, -1, -1), s):
            if sum(v) <= total and sum(v) > 0:
                out.append(list(v))
    return out


# ----------------------------------------------------------------------------------------------
def run(ctx, res):
    from batchie.policies.k_per_sample import KPerSamplePlatePolicy
    _quiet()
    res.rule = RULE
    drv = ctx.driver
    lines, expect, meta = [], [], []

    # ---------- A. random / adversarial histories -------------------------------------------
    rng = ctx.subrng("hist")
    n_hist = ctx.scale(200, 3000, 1500)
    for t in range(n_hist):
        S = rng.randint(1, 6)
        k = rng.randint(1, 4)
        counts = [rng.choice([0, 1, 2, 3, 4, 5, 6, k, k, 2 * k, max(0, k - 1)]) for _ in range(S)]
        counts = [min(c, 6) for c in counts]
        plates = gen_plates(rng, counts, observed_frac=rng.choice([0.0, 0.0, 0.2]))
        if not plates:
            plates = gen_plates(rng, [1])
        strat = STRATEGIES[t % len(STRATEGIES)]
        res.count("history.strategy.%s" % strat)
        res.count("history.k%d" % k)
        rounds = rng.choice([1, 1, 2, 3])
        reuse = rng.random() < 0.5
        res.count("history.rounds%d" % rounds)
        res.count("history.policy_object_%s" % ("reused" if reuse else "fresh_per_call"))
        opts = gen_opts(rng, plates)
        if t % 7 == 3:
            opts["verbose"] = True
        run_history(ctx, res, plates, k, strat, rng, lines if t < ctx.scale(200, 600, 300) else None, expect, meta, rounds=rounds, reuse=reuse, opts=opts)
        res.traces_validated += 1
        if t < 2:
            res.sample({"kind": "history", "k": k, "counts": counts, "strategy": strat})

    # ---------- A1. class entry-point: histories driven through batchie.cli.select_next_plate.main() (files, --batch-plate-id, --policy) ---
    rng = ctx.subrng("cli")
    for t in range(ctx.scale(14, 90, 40)):
        S = rng.randint(2, 4)
        k = [2, 2, 1, 3][t % 4]
        counts = [rng.choice([k, k + 1, 2 * k, 1, 3]) for _ in range(S)]
        plates = gen_plates(rng, counts, observed_frac=rng.choice([0.0, 0.2]), shuffle=(t % 2 == 1))
        opts = gen_opts(rng, plates)
        opts.update(cli=True, verbose=(t % 3 == 0), np_ids=False)
        strat = ["lowest", "switch", "random", "lowest", "highest"][t % 5]     # "lowest": plate id 0 is picked first whenever it is allowed
        run_history(ctx, res, plates, k, strat, rng, lines, expect, meta, max_len=6, rounds=rng.choice([1, 2]), reuse=False, opts=opts)
    # ---------- A1b. class score-ties (item 22): exact ties between allowed and non-allowed plates, library call and CLI, k = 1..3 -----
    rng = ctx.subrng("ties")
    witness = [{"rows": [1], "observed": False}, {"rows": [0], "observed": False}, {"rows": [0], "observed": False}, {"rows": [1], "observed": False}]
    ti = 0
    for k in (1, 2, 3):
        for mode in TIE_MODES:
            for store in ("first", "last", None):
                for use_cli in ((False, True) if (store != None or mode == "size") else (False,)):      # noqa: E711
                    ti += 1
                    if ti % 2 == 0 or k != 2:
                        counts = [rng.choice([k, k + 1, 2 * k]) for _ in range(rng.randint(2, 4))]
                        plates = gen_plates(rng, counts, shuffle=True)
                        for p_ in plates:
                            p_["rows"] = p_["rows"][:1]       # equal-size plates: SizeScorer ties
                    else:
                        plates = [dict(p_) for p_ in witness]      # samples b,a,a,b (k = 2): plate 0 first, then only plate 3 is allowed
                    opts = {"ties": {"mode": mode, "store": store}, "cli": use_cli, "verbose": ti % 5 == 0}
                    run_history(ctx, res, plates, k, "lowest", rng, lines if not use_cli else None, expect, meta, max_len=2 * k + 2, rounds=1, reuse=False, opts=opts)
                    res.count("ties.%s.%s" % (mode, "cli" if use_cli else "library"))
    # ---------- A2. class int-width: plate ids above 127 / 255 / 256 (264 plates, 6 samples x 44), two rounds --------------------
    rng = ctx.subrng("wide")
    for k in (2, 3):
        plates = gen_plates(rng, [44] * 6, observed_frac=0.1)
        run_history(ctx, res, plates, k, "highest", rng, None, None, None, max_len=2 * k + 1, rounds=2, reuse=True,
                    opts={"np_ids": k == 3, "perm_names": 7, "obs_instalments": True, "warm": False})
        run_history(ctx, res, plates, k, "random", rng, None, None, None, max_len=2 * k, rounds=1, reuse=False, opts={})
        res.count("class.int-width", 2)
    # ---------- B. every reachable state of small screens ------------------------------------
    rng = ctx.subrng("exh")
    S, P, total = ctx.scale((3, 3, 6), (4, 4, 8), (3, 4, 7))
    vecs = count_vectors(S, P, total)
    for v in vecs:
        for k in (1, 2, 3):
            plates = gen_plates(rng, v, shuffle=True)
            eopts = gen_opts(rng, plates)
            if (sum(v) + k) % 5 == 0:
                eopts["verbose"] = True
                res.count("class.verbose-logging")
                with common.verbose_logging():
                    explore_all(ctx, res, plates, k, lines, expect, meta, rng, line_rate=ctx.scale(0.05, 0.02, 0.02), opts=eopts)
            else:
                explore_all(ctx, res, plates, k, lines, expect, meta, rng, line_rate=ctx.scale(0.05, 0.02, 0.02), opts=eopts)
            res.count("exhaustive.screens")

    # ---------- C. multi-sample plates -----------------------------------------------------------
    rng = ctx.subrng("multi")
    for t in range(ctx.scale(30, 300)):
        S = rng.randint(1, 4)
        k = rng.randint(1, 3)
        plates = gen_plates(rng, [rng.randint(0, 4) for _ in range(S)], multi=rng.choice([1, 1, 2]))
        if rng.random() < 0.3:
            # an observed multi-sample plate outside the batch is never shown to the policy (tie only)
            for p in plates:
                if len(set(p["rows"])) > 1:
                    p["observed"] = True
        screen = build_screen(plates)
        desc = describe(screen)
        multi_ids = [d[0] for d in desc if len(d[1]) != 1]
        batch = []
        if rng.random() < 0.4 and multi_ids:
            batch = [rng.choice(multi_ids)]
        elif rng.random() < 0.3:
            batch = [rng.choice([d[0] for d in desc])]
        el, err, ret = call_select(screen, desc, k, batch)
        res.evaluations += 1
        res.count("multi.refused" if err else "multi.not_shown_to_policy")
        c = {"kind": "history", "plates": plates, "k": k, "picks": batch}
        check_mutations(res, c)
        involved = [d for d in desc if d[0] in batch or not d[2]]
        if any(len(d[1]) != 1 for d in involved):
            oracle_state(res, c, desc, k, batch, el, err, ret)
            res.nontrivial.add(("multi", plates_tok(desc), k, tuple(batch)))
        lines.append("select %d %s %s" % (k, plates_tok(desc), ids_tok(batch)))
        expect.append("err:%s" % err if err else ids_tok(el))
        meta.append(c)

    # ---------- D. direct policy calls on arbitrary states and orders (tie only) -----------------
    rng = ctx.subrng("direct")
    for t in range(ctx.scale(150, 2500)):
        S = rng.randint(1, 5)
        k = rng.choice([0, 1, 1, 2, 2, 3, 4])
        plates = gen_plates(rng, [rng.randint(0, 5) for _ in range(S)], multi=rng.choice([0, 0, 0, 0, 1]))
        if not plates:
            continue
        screen = build_screen(plates)
        desc = describe(screen)
        allp = {int(p.plate_id): p for p in screen.plates}
        ids = list(allp.keys())
        rng.shuffle(ids)
        nb = rng.randint(0, len(ids))
        b_ids, u_ids = ids[:nb], ids[nb:]
        if rng.random() < 0.5:
            u_ids = u_ids[:rng.randint(0, len(u_ids))]
        byid = {d[0]: d for d in desc}
        pol = KPerSamplePlatePolicy(k)
        try:
            r = pol.filter_eligible_plates([allp[i] for i in b_ids], [allp[i] for i in u_ids], np.random.default_rng(0))
            out = ids_tok([int(p.plate_id) for p in r])
        except Exception as e:  # noqa
            out = "err:%s" % type(e).__name__
        res.count("direct")
        lines.append("elig %d %s %s" % (k, plates_tok([byid[i] for i in b_ids]), plates_tok([byid[i] for i in u_ids])))
        expect.append(out)
        meta.append({"kind": "direct", "plates": plates, "k": k, "batch": b_ids, "unobs": u_ids})

    # ---------- tie ----------------------------------------------------------------------------
    if drv is not None:
        got = drv.ask(lines)
        for l, e, g_, m in zip(lines, expect, got, meta):
            if e != g_:
                res.disagree("C16:%s" % m["kind"], {"line": l, "case": m}, e[:400], g_[:400])
        res.count("tie.lines", len(lines))
    res.sample({"kind": "history", "k": 2, "plates": "samples 0,0,0,1,1,2", "picks": [3], "eligible_then": [4]})


def _quiet():
    import logging
    # silence the "no eligible plates" warnings at the PACKAGE logger: a level set on the child logger would survive
    # vlib.common.verbose_logging() and the CLI's --verbose, and hide code that only runs under debug logging
    logging.getLogger("batchie.scoring.main").setLevel(logging.NOTSET)
    logging.getLogger("batchie").setLevel(logging.CRITICAL)


def replay(ctx, case, res):
    _quiet()
    if case.get("kind") == "history":
        run_history(ctx, res, case["plates"], case["k"], "random", ctx.subrng("replay"), None, None, None, picks=case.get("picks", []),
                    prior=case.get("prior"), reuse=bool(case.get("reuse")), opts=case.get("opts"))
    else:
        run(ctx, res)
