"""C01 -- Screen identifiers are a faithful, dense encoding of names and doses."""
import numpy as np

from vlib import common
from harness import screens as S

common.use_repo_sources()

import logging

logging.getLogger("batchie").setLevel(logging.ERROR)     # "Could not create single treatment effects array." on every None

import itertools
import os

from harness import c01c14_common as G
import random
import shutil
import tempfile

RULE = ("random raw screens (arity 1-3, 0..n_max rows, colliding/empty/non-ASCII/astral names, doses incl. 0, -0.0, negative, "
        "subnormal, repeated), with/without a mapping batchie produced for a superset; malformed stream: mixed plate masks, "
        "non-dense / non-covering mappings; directed stream: every screen gets a zero-dose non-control cell, a -0.0 cell, a control-name cell "
        "with positive dose, a name that is a proper prefix/extension of the control name, a duplicated row and the same (name, dose) in two "
        "columns; exhaustive stream: all arity-1 screens over {ctrl, 'a', 'ab'} x {0.0, -0.0, 1.0, 2.0} with <= 2 (quick) / 3 (thorough) rows. "
        "Every screen is built from arrays in a random memory layout / dtype (C, Fortran, strided, negative strides, wider <U, read-only, zero-stride "
        "broadcast plate names; the inputs must be left unchanged), supplied mappings include ones built for data in which whole drug / sample names "
        "(longer than every name of the screen) are absent from the screen; ExperimentSpace.from_screen / save_h5 / load_h5 must carry the mapping "
        "verbatim (names, dose bit patterns, ids) and its sizes are tied to the model (`espace`). Outside the quantifier, observed only: object-dtype names, "
        "supplied mappings with duplicate keys. Non-trivial: >=2 rows, >=1 control cell and >=2 distinct non-control treatments.")

VARIANTS = ["c", "c", "f", "strided", "neg", "wide", "readonly", "mixed", "mixed"]
ABSENT_NAMES = ["A_absent_drug_with_a_long_name", "m-absent-drug", "zzzz_absent", "\U0001F600absent", "", "control", "dmso", "ctl"]


# ---------------------------------------------------------------- memory layouts / dtypes of the constructor's inputs

def _layout(a, how, rng):
    """the same values in another memory layout / dtype"""
    a = np.array(a)          # private copy
    if how == "f":
        return np.asfortranarray(a)
    if how == "strided":
        big = np.empty(tuple(2 * k + 1 for k in a.shape), dtype=a.dtype)
        big[...] = a.dtype.type("#") if a.dtype.kind == "U" else (True if a.dtype.kind == "b" else 7)
        sl = tuple(slice(1, None, 2) for _ in a.shape)
        big[sl] = a
        return big[sl]
    if how == "neg":
        sl = tuple(slice(None, None, -1) for _ in a.shape)
        return np.ascontiguousarray(a[sl])[sl]
    if how == "wide" and a.dtype.kind == "U":
        return a.astype("<U%d" % (a.dtype.itemsize // 4 + rng.randint(1, 9)))
    if how == "readonly":
        a.setflags(write=False)
        return a
    return a


def _sig(a):
    """value signature of an input array (floats by bit pattern, so that -0.0 -> 0.0 is a change)"""
    a = np.asarray(a)
    if a.dtype.kind == "f":
        return [S.bits(x) for x in a.ravel()]
    return [x for x in a.ravel().tolist()]


def build_variant(raw, variant, vseed):
    """Screen(...) from `raw` with the arrays in the given layout; returns (screen, inputs, signatures before the call)"""
    from batchie.data import Screen
    rng = random.Random(vseed)
    n, a = len(raw["snames"]), raw["arity"]
    arrs = dict(
        treatment_names=np.array(raw["tnames"], dtype=str).reshape(n, a),
        treatment_doses=np.array(raw["tdoses"], dtype=float).reshape(n, a),
        sample_names=np.array(raw["snames"], dtype=str),
        plate_names=np.array(raw["pnames"], dtype=str),
    )
    if raw["obs"] is not None:
        arrs["observations"] = np.array(raw["obs"], dtype=float)
    if raw["mask"] is not None:
        arrs["observation_mask"] = np.array(raw["mask"], dtype=bool)
    if raw.get("tmap") is not None:
        arrs["tm0"] = np.array([str(x) for x in raw["tmap"][0]], dtype=str)
        arrs["tm1"] = np.array([float(x) for x in raw["tmap"][1]], dtype=float)
        arrs["tm2"] = np.array([int(x) for x in raw["tmap"][2]], dtype=int)
    if raw.get("smap") is not None:
        arrs["sm0"] = np.array([str(x) for x in raw["smap"][0]], dtype=str)
        arrs["sm1"] = np.array([int(x) for x in raw["smap"][1]], dtype=int)
    for k in list(arrs):
        how = variant if variant != "mixed" else rng.choice(["c", "f", "strided", "neg", "wide", "readonly"])
        arrs[k] = _layout(arrs[k], how, rng)
    if variant == "mixed" and n >= 1 and len(raw["pnames"]) == n and len(set(raw["pnames"])) == 1 and rng.random() < 0.5:
        arrs["plate_names"] = np.broadcast_to(np.array(raw["pnames"][0], dtype=str), (n,))      # zero strides, read-only
    before = {k: (_sig(v), v.shape, v.dtype.str) for k, v in arrs.items()}
    kw = {k: v for k, v in arrs.items() if k[:2] not in ("tm", "sm")}
    kw["control_treatment_name"] = raw["ctrl"]
    if "tm0" in arrs:
        kw["treatment_mapping"] = (arrs["tm0"], arrs["tm1"], arrs["tm2"])
    if "sm0" in arrs:
        kw["sample_mapping"] = (arrs["sm0"], arrs["sm1"])
    s = Screen(**kw)
    return s, arrs, before


def check_inputs_unchanged(res, case, arrs, before):
    for k, v in arrs.items():
        if (_sig(v), v.shape, v.dtype.str) != before[k]:
            res.fail("Screen(...) changed one of its input arrays in place", case, {"array": k, "now": _sig(v)[:40]}, before[k][0][:40],
                     signature="C01:input-mutated")
            return


def soft(res, where, case, impl, ref):
    """Behaviour the property TEXT does not state -- the ExperimentSpace query API, derived scalar properties, Screen.combine / concat beyond
    what C01's clauses imply for the resulting screen, single_treatment_effects, what happens on malformed input, exception classes -- differs
    from the reference: an ADVISORY (res.advise), printed and written into the evidence; it never makes the check fail, because the property as
    stated would still hold."""
    res.advise("outside the text of C01: " + where, case, str(impl)[:600], str(ref)[:600], signature="C01:ext:" + where)


def map_sig(tm):
    return [(str(a), S.bits(b), int(c)) for a, b, c in zip(*tm)]


def smap_sig(sm):
    return [(str(a), int(c)) for a, c in zip(*sm)]


def superset_with_absent_names(rng, raw):
    """mappings batchie produces for data = the screen's rows + rows whose drug / sample names do not occur in the screen at all
    (several doses each, some control by dose, names longer than every name of the screen)"""
    a = raw["arity"]
    present = set(nm for row in raw["tnames"] for nm in row)
    absent = [x for x in ABSENT_NAMES if x not in present]
    rng.shuffle(absent)
    absent = absent[:rng.randint(1, 3)]
    extra_t, extra_d = [], []
    for nm in absent:
        for d in rng.sample([0.0, -0.0, 1.0, 2.5, 1e-310, 10.0, -1.0], rng.randint(1, 3)):
            row_n = [nm] + [rng.choice(absent + list(present)) for _ in range(a - 1)]
            row_d = [d] + [rng.choice([0.0, 1.0, 3.0]) for _ in range(a - 1)]
            rng.shuffle(row_n)
            extra_t.append(row_n)
            extra_d.append(row_d)
    k = len(extra_t)
    spresent = set(raw["snames"])
    sabs = [x for x in ABSENT_NAMES + ["s_absent"] if x not in spresent]
    big = dict(raw)
    big["tnames"] = raw["tnames"] + extra_t
    big["tdoses"] = raw["tdoses"] + extra_d
    big["snames"] = raw["snames"] + [rng.choice(sabs) for _ in range(k)]
    big["pnames"] = raw["pnames"] + ["zzz_extra"] * k
    big["tmap"] = big["smap"] = None
    if raw["obs"] is not None:
        big["obs"] = raw["obs"] + [0.5] * k
        big["mask"] = None if raw["mask"] is None else raw["mask"] + [True] * k
    s = S.build(big)
    tm = ([str(x) for x in s.treatment_mapping[0]], [float(x) for x in s.treatment_mapping[1]], [int(x) for x in s.treatment_mapping[2]])
    sm = ([str(x) for x in s.sample_mapping[0]], [int(x) for x in s.sample_mapping[1]])
    return tm, sm, absent


def directed(rng, raw):
    """inject the boundary features the property text names into a random valid screen (keeps plate-uniform masks)"""
    a = raw["arity"]
    ctrl = raw["ctrl"]
    n = len(raw["snames"])
    if n == 0:
        return raw
    other = [x for x in S.NAME_POOL if x != ctrl]
    pre = ctrl[:-1] if len(ctrl) > 1 else ctrl + "a"     # proper prefix (or extension) of the control name
    ext = ctrl + "b"
    feats = [(rng.choice(other), 0.0), (rng.choice(other), -0.0), (ctrl, rng.choice([1.0, 2.5, 5e-324])),
             (pre, rng.choice([1.0, 0.0])), (ext, 1.0), (rng.choice(other), -1.0)]
    # names that differ from the control name only by case / surrounding blanks are NOT the control
    for v in (ctrl.swapcase(), " " + ctrl, ctrl + " "):
        if v != ctrl and rng.random() < 0.5:
            feats.append((v, rng.choice([1.0, 2.5])))
    for nm, d in feats:
        r, c = rng.randrange(n), rng.randrange(a)
        raw["tnames"][r][c], raw["tdoses"][r][c] = nm, d
    # same (name, dose) in two columns of one row, and one duplicated row (same plate so the mask stays uniform)
    if a >= 2:
        r = rng.randrange(n)
        raw["tnames"][r][1], raw["tdoses"][r][1] = raw["tnames"][r][0], raw["tdoses"][r][0]
    if n >= 2:
        i, j = rng.sample(range(n), 2)
        raw["tnames"][j], raw["tdoses"][j] = list(raw["tnames"][i]), list(raw["tdoses"][i])
        raw["snames"][j] = raw["snames"][i]
    return raw


def exhaustive_raws(max_rows):
    cells = [(nm, d) for nm in ("ctl", "a", "ab") for d in (0.0, -0.0, 1.0, 2.0)]
    for n in range(0, max_rows + 1):
        for combo in itertools.product(cells, repeat=n):
            yield dict(ctrl="ctl", arity=1, tnames=[[c[0]] for c in combo], tdoses=[[c[1]] for c in combo],
                       snames=["s%d" % (i % 2) for i in range(n)], pnames=["p"] * n, obs=None, mask=None, tmap=None, smap=None)


def oracle(res, case, raw, s):
    """the property, evaluated on the implementation's screen"""
    tm = s.treatment_mapping
    table = {}
    for nm, d, i in zip(*tm):
        table.setdefault(int(i), []).append((str(nm), float(d)))
    tids = np.asarray(s.treatment_ids)
    n, a = len(raw["snames"]), raw["arity"]
    if tids.shape != (n, a):
        res.fail("treatment_ids has wrong shape", case, list(tids.shape), [n, a])
        return
    if np.asarray(s.sample_ids).shape != (n,) or np.asarray(s.plate_ids).shape != (n,):
        res.fail("sample_ids / plate_ids have wrong shape", case, [list(np.asarray(s.sample_ids).shape), list(np.asarray(s.plate_ids).shape)], [n])
        return
    ctrl = raw["ctrl"]
    for r in range(n):
        for c in range(a):
            i = int(tids[r, c])
            nm, d = raw["tnames"][r][c], raw["tdoses"][r][c]
            if (nm, float(d)) not in [(x, y) for (x, y) in table.get(i, [])]:
                res.fail("treatment id does not decode to the cell's (name, dose)", case, {"row": r, "col": c, "id": i, "table": table.get(i)}, [nm, d])
                return
            is_ctrl = (nm == ctrl) or (d <= 0)
            if (i == -1) != is_ctrl:
                res.fail("control sentinel iff control name or non-positive dose", case, {"row": r, "col": c, "id": i}, {"is_control": is_ctrl})
                return
    # the table itself (fresh, or supplied by batchie for a superset): non-control ids dense 0..m-1, equal ids iff equal (name, dose)
    nonctrl = sorted(set(int(i) for i in tm[2] if i != -1))
    if nonctrl != list(range(len(nonctrl))):
        res.fail("non-control treatment ids are not dense 0..n-1", case, nonctrl, list(range(len(nonctrl))))
    for i, lst_ in table.items():
        if i != -1 and len(set(lst_)) != 1:
            res.fail("two (name, dose) share a non-control id", case, lst_, "injective")
    keys = [(str(nm), float(d)) for nm, d in zip(tm[0], tm[1])]
    if len(set(keys)) != len(keys):
        res.fail("mapping lists a (name, dose) twice", case, keys, "unique keys")
    for (nm, d), i in zip(keys, tm[2]):
        if (int(i) == -1) != (nm == ctrl or d <= 0):
            res.fail("mapping row: control sentinel iff control name or non-positive dose", case, [nm, d, int(i)], "iff")
            break
    cells = set((nm, float(d)) for rn, rd in zip(raw["tnames"], raw["tdoses"]) for nm, d in zip(rn, rd))
    sm = s.sample_mapping
    if raw.get("tmap") is None:
        if set(keys) != cells:
            res.fail("fresh mapping keys differ from the distinct cells of the data", case, sorted(keys), sorted(cells))
        # ids actually used by the cells are the whole dense range
        used = sorted(set(int(x) for x in tids.ravel()) - {-1})
        if used != list(range(len(nonctrl))):
            res.fail("non-control ids used by the cells are not the dense range", case, used, list(range(len(nonctrl))))
    else:
        if map_sig(tm) != map_sig(raw["tmap"]):
            res.fail("supplied mapping not followed verbatim", case, S.show_tmap(tm), S.show_tmap(raw["tmap"]), signature="C01:verbatim:treatment")
    if raw.get("smap") is None:
        if sorted(int(i) for i in sm[1]) != list(range(len(set(raw["snames"])))):
            res.fail("sample ids not dense", case, [int(i) for i in sm[1]], len(set(raw["snames"])))
        if sorted(set(int(i) for i in s.sample_ids)) != list(range(len(set(raw["snames"])))):
            res.fail("sample ids used by the rows are not the dense range", case, sorted(set(int(i) for i in s.sample_ids)), len(set(raw["snames"])))
    else:
        if smap_sig(sm) != smap_sig(raw["smap"]):
            res.fail("supplied mapping not followed verbatim", case, S.show_smap(sm), S.show_smap(raw["smap"]), signature="C01:verbatim:sample")
    for kind, ids, names, mp in (("sample", s.sample_ids, raw["snames"], s.sample_mapping), ("plate", s.plate_ids, raw["pnames"], s.plate_mapping)):
        d = {str(nm): int(i) for nm, i in zip(*mp)}
        if len(d) != len(mp[0]):
            res.fail("%s mapping lists a name twice" % kind, case, [str(x) for x in mp[0]], "unique names")
        for r in range(n):
            if d.get(names[r]) != int(ids[r]):
                res.fail("%s id does not decode to the row's name" % kind, case, {"row": r, "id": int(ids[r])}, names[r])
                return
        if len(set(d.values())) != len(d):
            res.fail("%s ids not injective" % kind, case, d, "injective")
    pids = sorted(set(int(i) for i in s.plate_ids))
    if pids != list(range(len(pids))) or len(pids) != len(set(raw["pnames"])):
        res.fail("plate ids not dense", case, pids, "0..n-1")
    if sorted(int(i) for i in s.plate_mapping[1]) != pids or set(str(x) for x in s.plate_mapping[0]) != set(raw["pnames"]):
        res.fail("plate mapping is not the fresh table of the plate names", case, S.show_smap(s.plate_mapping), sorted(set(raw["pnames"])))


def space_oracle(res, case, raw, s, tmpdir, roundtrip):
    """experiment space: carries the screen's mappings verbatim (also through save_h5/load_h5), sizes strictly bound every id.
    Returns the token the model's `espace` must reproduce."""
    from batchie.data import ExperimentSpace
    n = len(raw["snames"])
    tids = np.asarray(s.treatment_ids)
    es = ExperimentSpace.from_screen(s)
    spaces = [("from_screen", es)]
    if roundtrip and len(s.treatment_mapping[0]) > 0 and len(s.sample_mapping[0]) > 0:
        path = os.path.join(tmpdir, "es.h5")
        try:
            es.save_h5(path)
            spaces.append(("save_h5/load_h5", ExperimentSpace.load_h5(path)))
        except Exception as e:      # noqa: BLE001
            res.fail("ExperimentSpace save_h5/load_h5 raises", case, "%s: %s" % (type(e).__name__, e), "a round trip", signature="C01:space:raises")
    want_t = map_sig(raw["tmap"]) if raw.get("tmap") is not None else map_sig(s.treatment_mapping)
    want_s = smap_sig(raw["smap"]) if raw.get("smap") is not None else smap_sig(s.sample_mapping)
    for where, e in spaces:
        if map_sig(e.treatment_mapping) != want_t:
            res.fail("experiment space does not carry the treatment mapping verbatim", case, {"where": where, "got": S.show_tmap(e.treatment_mapping)},
                     S.show_tmap(s.treatment_mapping), signature="C01:space:treatment-mapping")
        if smap_sig(e.sample_mapping) != want_s:
            res.fail("experiment space does not carry the sample mapping verbatim", case, {"where": where, "got": S.show_smap(e.sample_mapping)},
                     S.show_smap(s.sample_mapping), signature="C01:space:sample-mapping")
        if str(e.control_treatment_name) != raw["ctrl"]:
            res.fail("experiment space changed the control name", case, {"where": where, "got": str(e.control_treatment_name)}, raw["ctrl"])
        nt, ns = int(e.n_unique_treatments), int(e.n_unique_samples)
        if n:
            if int(tids.max()) >= nt and int(tids.max()) >= 0:
                res.fail("treatment id not bounded by experiment space", case, {"where": where, "max id": int(tids.max())}, nt, signature="C01:space:bound:treatment")
            if int(np.max(s.sample_ids)) >= ns:
                res.fail("sample id not bounded by experiment space", case, {"where": where, "max id": int(np.max(s.sample_ids))}, ns, signature="C01:space:bound:sample")
        if (nt, ns) != (int(es.n_unique_treatments), int(es.n_unique_samples)):
            res.fail("experiment-space sizes change through save_h5/load_h5", case, [nt, ns], [int(es.n_unique_treatments), int(es.n_unique_samples)])
    return "ok nt=%d ns=%d tss=%d sss=%d" % (int(es.n_unique_treatments), int(es.n_unique_samples), int(s.treatment_space_size), int(s.sample_space_size))


def outside_quantifier(ctx, res, rng):
    """observed, never failed and never sent to the model: inputs the property's quantifier excludes"""
    from batchie.data import Screen
    for t in range(ctx.scale(30, 300)):
        raw = S.gen_raw(rng, n_max=8)
        n, a = len(raw["snames"]), raw["arity"]
        if n < 2:
            continue
        # (1) object-dtype names: rejected today; if ever accepted the ids must still be right
        try:
            s = Screen(treatment_names=np.array(raw["tnames"], dtype=object).reshape(n, a), treatment_doses=np.array(raw["tdoses"], dtype=float).reshape(n, a),
                       sample_names=np.array(raw["snames"], dtype=str), plate_names=np.array(raw["pnames"], dtype=str), control_treatment_name=raw["ctrl"])
            res.count("outside.object-dtype.accepted")
            oracle(res, {"kind": "object-dtype", "raw": raw, "variant": "c", "vseed": 0}, raw, s)
        except ValueError:
            res.count("outside.object-dtype.ValueError")
        except Exception:       # noqa: BLE001
            res.count("outside.object-dtype.other-error")
        # (2) a supplied mapping that lists a (name, dose) of the data twice (batchie never produces one): the left merge yields two
        #     rows for such a cell, so the id arrays get more rows than the screen (or np.split raises); the model answers err:Other
        try:
            tm, sm = S.superset_mappings(rng, raw)
            j = next(i for i in range(len(tm[0])) if (str(tm[0][i]), float(tm[1][i])) == (raw["tnames"][0][0], float(raw["tdoses"][0][0])))
            dup = tuple(list(x) + [x[j]] for x in tm)
            r2 = dict(raw, tmap=dup, smap=sm)
            try:
                s = S.build(r2)
                ok_shape = np.asarray(s.treatment_ids).shape == (n, a)
                res.count("outside.dup-key-mapping." + ("accepted-consistent" if ok_shape else "accepted-with-misshapen-ids"))
            except Exception as e:      # noqa: BLE001
                res.count("outside.dup-key-mapping." + type(e).__name__)
        except Exception:       # noqa: BLE001
            pass


# ---------------------------------------------------------------- ExperimentSpace query API, derived properties, combine / concat, single-treatment effects

def support_of_rows(arity, sids, tids):
    """which rows create_single_treatment_effect_array averages for every cell, computed independently of batchie:
    'err:ValueError' (arity < 2), None (some cell has no monotherapy row -> KeyError -> property None), or rows of cells (None = control slot)"""
    if arity < 2:
        return "err:ValueError"
    mono = {}
    for j, (s_, row) in enumerate(zip(sids, tids)):
        if sum(1 for t in row if t == -1) == arity - 1:
            mono.setdefault((s_, max(row)), []).append(j)
    table = []
    for s_, row in zip(sids, tids):
        r = []
        for t in row:
            if t == -1:
                r.append(None)
            elif (s_, t) in mono:
                r.append(mono[(s_, t)])
            else:
                return None
        table.append(r)
    return table


def support_tok(sup):
    if sup is None:
        return "none"
    if isinstance(sup, str):
        return sup
    return "ok " + S.lst((S.lst(("c" if c is None else ".".join(str(j) for j in c)) for c in row) for row in sup), ";")


def ste_oracle(res, case, s):
    """single_treatment_effects of the screen: None exactly when a cell lacks a monotherapy row, else 1.0 on control slots and the mean
    of the supporting observations elsewhere; returns the token the model's `ste` must reproduce"""
    sids = [int(x) for x in s.sample_ids]
    tids = [[int(x) for x in r] for r in np.asarray(s.treatment_ids)]
    obs = [float(x) for x in s.observations]
    sup = support_of_rows(int(s.treatment_arity), sids, tids)
    try:
        got = s.single_treatment_effects
        st = "none" if got is None else "arr"
    except Exception as e:      # noqa: BLE001
        got, st = None, S.err_tok(e)
    want = sup if isinstance(sup, str) else ("none" if sup is None else "arr")
    if st != want:
        soft(res, "ste:status", case, st, want)
    elif st == "arr":
        got = np.asarray(got)
        ok = got.shape == (len(sids), int(s.treatment_arity))
        for i, row in enumerate(sup):
            for c, cell in enumerate(row):
                if not ok:
                    break
                w = 1.0 if cell is None else sum(obs[j] for j in cell) / len(cell)
                ok = abs(float(got[i, c]) - w) <= 1e-9 * max(1.0, abs(w))
        if not ok:
            soft(res, "ste:value", case, got.tolist(), support_tok(sup))
    res.count("ste." + st)
    return support_tok(sup)


def derived_tok(v):
    return ("size=%d|arity=%d|np=%d|up=%s|us=%s|ut=%s|nus=%d|nut=%d|obs=%s|sss=%d|tss=%d" % (
        int(v.size), int(v.treatment_arity), int(v.n_plates), S.show_ids(v.unique_plate_ids), S.show_ids(v.unique_sample_ids),
        S.show_ids(v.unique_treatments), int(v.n_unique_samples), int(v.n_unique_treatments), "1" if bool(v.is_observed) else "0",
        int(v.sample_space_size), int(v.treatment_space_size)))


def derived_oracle(res, case, raw, s):
    """derived ScreenBase properties recomputed from the id arrays"""
    pids = [int(x) for x in s.plate_ids]
    sids = [int(x) for x in s.sample_ids]
    flat = [int(x) for x in np.asarray(s.treatment_ids).ravel()]
    want = ("size=%d|arity=%d|np=%d|up=%s|us=%s|ut=%s|nus=%d|nut=%d|obs=%s|sss=%d|tss=%d" % (
        len(raw["snames"]), raw["arity"], len(set(pids)), S.show_ids(sorted(set(pids))), S.show_ids(sorted(set(sids))),
        S.show_ids(sorted(set(flat) - {-1})), len(set(sids)), len(set(flat) - {-1}), "1" if all(bool(b) for b in s.observation_mask) else "0",
        len(s.sample_mapping[0]), len(s.treatment_mapping[0])))
    got = derived_tok(s)
    if got != want:
        soft(res, "derived", case, got, want)
    return "ok " + got


def gen_mappings(rng):
    """(kind, ctrl, tmap, smap, batchie_produced): mappings for the ExperimentSpace API stream"""
    raw = S.gen_raw(rng, n_max=10)
    kind = rng.choice(["fresh", "superset", "absent-names", "permuted", "dup-sample-id", "dup-sample-name", "empty", "dup-treatment-rows"])
    if kind == "empty":
        return kind, raw["ctrl"], ([], [], []), ([], []), False
    try:
        if kind == "superset":
            tm, sm = S.superset_mappings(rng, raw)
        elif kind == "absent-names":
            tm, sm, _ = superset_with_absent_names(rng, raw)
        else:
            b = S.build(dict(raw, tmap=None, smap=None))
            tm, sm = b.treatment_mapping, b.sample_mapping
    except Exception:       # noqa: BLE001
        return "empty", raw["ctrl"], ([], [], []), ([], []), False
    tm = ([str(x) for x in tm[0]], [float(x) for x in tm[1]], [int(x) for x in tm[2]])
    sm = ([str(x) for x in sm[0]], [int(x) for x in sm[1]])
    produced = kind in ("fresh", "superset", "absent-names")
    if kind == "permuted":
        # rows shuffled, non-control ids permuted among themselves (still dense, still a bijection; not sorted any more)
        nc = sorted(set(i for i in tm[2] if i != -1))
        perm = dict(zip(nc, rng.sample(nc, len(nc))))
        order = list(range(len(tm[0])))
        rng.shuffle(order)
        tm = ([tm[0][i] for i in order], [tm[1][i] for i in order], [perm.get(tm[2][i], -1) for i in order])
        so = list(range(len(sm[0])))
        rng.shuffle(so)
        sp = dict(zip(sorted(sm[1]), rng.sample(sorted(sm[1]), len(sm[1]))))
        sm = ([sm[0][i] for i in so], [sp[sm[1][i]] for i in so])
    elif kind == "dup-sample-id" and len(sm[0]) >= 1:
        sm = (sm[0] + ["dup_of_id"], sm[1] + [rng.choice(sm[1])])            # .item() on 2 matches
    elif kind == "dup-sample-name" and len(sm[0]) >= 1:
        sm = (sm[0] + [rng.choice(sm[0])], sm[1] + [max(sm[1]) + 1])
    elif kind == "dup-treatment-rows" and len(tm[0]) >= 1:
        j = rng.randrange(len(tm[0]))
        tm = (tm[0] + [tm[0][j]], tm[1] + [tm[1][j]], tm[2] + [tm[2][j]])
    return kind, raw["ctrl"], tm, sm, produced


def api_stream(ctx, res, rng, queue):
    from batchie.data import ExperimentSpace
    for t in range(ctx.scale(120, 1500)):
        kind, ctrl, tm, sm, produced = gen_mappings(rng)
        ndt = object if rng.random() < 0.5 else str
        es = ExperimentSpace(treatment_mapping=(np.array(tm[0], dtype=ndt), np.array(tm[1], dtype=float), np.array(tm[2], dtype=int)),
                             sample_mapping=(np.array(sm[0], dtype=ndt), np.array(sm[1], dtype=int)), control_treatment_name=ctrl)
        case = {"kind": "api:" + kind, "ctrl": ctrl, "tmap": tm, "smap": sm, "names_dtype": "object" if ndt is object else "str"}
        if t % 6 == 0:
            case["verbose"] = True
            res.count("class.verbose-logging")
        res.evaluations += 1
        res.count("api." + kind)
        try:
            with G.vctx(case.get("verbose")):
                api_case(res, case, es, ctrl, tm, sm, produced, queue)
        except Exception as e:      # noqa: BLE001
            soft(res, "api:raises", case, "%s: %s" % (type(e).__name__, e), "answers")


def api_case(res, case, es, ctrl, tm, sm, produced, queue=None):
    tnames = sorted(set(tm[0]) | {ctrl, "name-not-in-the-mapping"})
    snames = sorted(set(sm[0]) | {"sample-not-in-the-mapping"})
    sids = sorted(set(sm[1]) | {-1, (max(sm[1]) + 1) if sm[1] else 0})
    out, queries = [], []

    def call(f, *a):
        try:
            return ("ok", f(*a))
        except Exception as e:      # noqa: BLE001
            return ("err", S.err_tok(e))

    def fail(what, observed, required, sig):
        # the property text covers the decode direction of the encoding for mappings batchie produced: ids of a name, name <-> id of
        # PRESENT samples. Everything else (doses / type counts, hand-made mappings, what happens for absent names, exception classes)
        # is compared with the reference and the model only.
        # the query API is an extension of the model beyond the text of C01 (which speaks about the screen's ids, its mappings and the
        # experiment-space SIZES): advisory only
        soft(res, "api:" + sig, case, {"what": what, "observed": observed}, required)

    counts = call(lambda: (int(es.n_unique_treatments), int(es.n_unique_samples), int(es.n_unique_treatment_types), int(es.n_unique_doses)))
    if counts[0] != "ok":
        fail("ExperimentSpace size properties raise", counts[1], "counts", "counts")
        return
    nt, ns, ntt, nd = counts[1]
    want = (len(set(tm[2]) - {-1}), len(set(sm[0])), len(set(tm[0]) - {ctrl}), len(set(d for d in tm[1] if d != 0)))
    if (nt, ns, ntt, nd) != want:
        fail("ExperimentSpace counts differ from the distinct ids / sample names / non-control names / non-zero doses of the mappings", [nt, ns, ntt, nd], list(want), "counts")
    total = 0
    for n in tnames:
        ids = call(lambda: [int(x) for x in es.treatment_ids_from_treatment_name(n)])
        doses = call(lambda: [float(x) for x in es.doses_for_treatment(n)])
        rows = [i for i in range(len(tm[0])) if tm[0][i] == n]
        wi = sorted(set(tm[2][i] for i in rows))
        wd = sorted(set(tm[1][i] for i in rows if tm[1][i] != 0))
        if ids != ("ok", wi):
            fail("treatment_ids_from_treatment_name is not the sorted distinct ids of the mapping rows with that name", {"name": n, "got": ids[1]}, wi, "ids-of-name")
        if doses[0] != "ok" or [S.bits(x) for x in doses[1]] != [S.bits(x) for x in wd]:
            fail("doses_for_treatment is not the sorted distinct non-zero doses of that name", {"name": n, "got": doses[1]}, wd, "doses-of-name")
        total += len(set(wi) - {-1})
        queries.append("t" + S.name_tok(n))
        out.append("ids=" + (S.show_ids(ids[1]) if ids[0] == "ok" else ids[1]) + ";doses=" + (S.lst(S.dose_tok(x) for x in doses[1]) if doses[0] == "ok" else doses[1]))
    if produced and total != nt:
        fail("n_unique_treatments is not the sum over names of the non-control ids of that name (batchie-produced mapping)", nt, total, "sum-over-names")
    for n in snames:
        r = call(lambda: int(es.sample_id_from_sample_name(n)))
        m = [sm[1][i] for i in range(len(sm[0])) if sm[0][i] == n]
        w = ("ok", m[0]) if len(m) == 1 else ("err", "err:ValueError")
        if r != w:
            fail("sample_id_from_sample_name: the id of the single matching row, ValueError for 0 or >= 2 matches", {"name": n, "got": r[1]}, w[1],
                 "id-from-name:present" if w[0] == "ok" else "id-from-name")
        if produced and r[0] == "ok":
            back = call(lambda: str(es.sample_name_from_sample_id(r[1])))
            if back != ("ok", n):
                fail("sample_name_from_sample_id(sample_id_from_sample_name(n)) != n on a batchie-produced mapping", {"name": n, "id": r[1], "back": back[1]}, n, "inverse")
        queries.append("s" + S.name_tok(n))
        out.append(str(r[1]))
    for i in sids:
        r = call(lambda: str(es.sample_name_from_sample_id(i)))
        m = [sm[0][k] for k in range(len(sm[0])) if sm[1][k] == i]
        w = ("ok", m[0]) if len(m) == 1 else ("err", "err:ValueError")
        if r != w:
            fail("sample_name_from_sample_id: the name of the single matching row, ValueError for 0 or >= 2 matches", {"id": i, "got": r[1]}, w[1],
                 "name-from-id:present" if w[0] == "ok" else "name-from-id")
        if produced and r[0] == "ok":
            back = call(lambda: int(es.sample_id_from_sample_name(r[1])))
            if back != ("ok", i):
                fail("sample_id_from_sample_name(sample_name_from_sample_id(i)) != i on a batchie-produced mapping", {"id": i, "name": r[1], "back": back[1]}, i, "inverse")
        queries.append("i%d" % i)
        out.append(S.name_tok(r[1]) if r[0] == "ok" else r[1])
    if queue is not None:
        tmt = S.lst("%s:%s:%d" % (S.name_tok(a), S.dose_tok(b), c) for a, b, c in zip(*tm))
        smt = S.lst("%s:%d" % (S.name_tok(a), c) for a, c in zip(*sm))
        queue("spaceapi %s %s %s %s" % (S.name_tok(case["ctrl"]), tmt, smt, S.lst(queries)),
              "ok nt=%d ns=%d ntt=%d nd=%d" % (nt, ns, ntt, nd) + "".join("|" + o for o in out), case)


def rows_sig(s):
    return (np.asarray(s.treatment_names).tolist(), [[S.bits(x) for x in r] for r in np.asarray(s.treatment_doses)], [str(x) for x in s.sample_names],
            [str(x) for x in s.plate_names], [S.bits(x) for x in s.observations], [bool(b) for b in s.observation_mask])


def combine_case(res, case, raws, queue=None):
    """Screen.combine (2 screens) / Screen.concat (k screens): rows concatenated in order, fresh encoding of the union, parts untouched"""
    from batchie.data import Screen
    parts = []
    for j, r in enumerate(raws):
        same = case.get("mode") == "same-object-twice" and j == len(raws) - 1 and j > 0
        parts.append(parts[0] if same else S.build(r))
    before = [(rows_sig(p), S.show_screen(p)) for p in parts]
    praws = [S.raw_of_screen(p) for p in parts]
    conflict = False
    if parts:
        st = {}
        for pr in praws:
            for pn, mk in zip(pr["pnames"], pr["mask"]):
                conflict = conflict or st.setdefault(pn, mk) != mk
    must_ok = len(parts) >= 1 and (len(parts) == 1 or (len(set(r["ctrl"] for r in raws)) == 1 and len(set(r["arity"] for r in raws)) == 1 and not conflict))
    try:
        t = parts[0].combine(parts[1]) if case["kind"] == "combine" else Screen.concat(parts)
        out = S.show_screen(t) + "|" + S.show_rows(t)
    except Exception as e:      # noqa: BLE001
        t, out = None, S.err_tok(e)
    if t is None and must_ok:
        soft(res, "combine:raises-on-compatible", case, out, "a screen")
    if t is not None and not must_ok:
        soft(res, "combine:incompatible-accepted", case, out[:200], "ValueError")
    if t is not None and must_ok:
        want = tuple(sum((list(b[0][k]) for b in before), []) for k in range(6))
        if rows_sig(t) != want:
            soft(res, "combine:rows", case, [x[:6] for x in rows_sig(t)], [x[:6] for x in want])
        else:
            craw = dict(ctrl=raws[0]["ctrl"], arity=raws[0]["arity"], tnames=sum((r["tnames"] for r in praws), []), tdoses=sum((r["tdoses"] for r in praws), []),
                        snames=sum((r["snames"] for r in praws), []), pnames=sum((r["pnames"] for r in praws), []), obs=None, mask=None, tmap=None, smap=None)
            oracle(res, case, craw, t)          # every cell of the union decodes, fresh dense ids, control sentinel
    for p, b in zip(parts, before):
        if (rows_sig(p), S.show_screen(p)) != b:
            soft(res, "combine:operand-mutated", case, S.show_screen(p)[:200], b[1][:200])
    if queue is not None:
        toks = " ".join(S.raw_to_tokens(r) for r in raws)
        queue(("combine " + toks) if case["kind"] == "combine" else ("concat %d %s" % (len(raws), toks)).strip(), out, case)


def combine_stream(ctx, res, rng, queue):
    for t in range(ctx.scale(80, 1000)):
        k = rng.choice([2, 2, 2, 3, 1, 0]) if rng.random() < 0.4 else 2
        kind = "combine" if k == 2 and rng.random() < 0.6 else "concat"
        arity = rng.choice([1, 2, 2, 3])
        ctrl = rng.choice(["", "control", "dmso"])
        names = rng.sample(S.NAME_POOL, rng.randint(2, 4))
        plates = rng.sample(S.NAME_POOL, 6)
        mode = rng.choice(["ok", "ok", "ok", "shared-plates", "ctrl-differs", "arity-differs"])
        raws = []
        for j in range(k):
            r = S.gen_raw(rng, n_max=6, arity=arity if not (mode == "arity-differs" and j == k - 1) else (arity % 3) + 1,
                          ctrl=ctrl if not (mode == "ctrl-differs" and j == k - 1) else ctrl + "x",
                          names=names + ([rng.choice(ABSENT_NAMES)] if rng.random() < 0.4 else []), with_obs=rng.random() < 0.85)
            # disjoint plate names per part unless the mode shares them (a shared plate may be observed in one part and not in the other)
            pool = plates if mode == "shared-plates" else plates[2 * (j % 3):2 * (j % 3) + 2]
            st = {q: rng.random() < 0.5 for q in pool}
            r["pnames"] = [rng.choice(pool) for _ in r["snames"]]
            if r["obs"] is not None:
                r["mask"] = [st[q] for q in r["pnames"]]
            raws.append(r)
        if mode == "ok" and k >= 2 and rng.random() < 0.25:
            mode = "same-object-twice"          # Screen.concat([a, a]) / a.combine(a): the very same object twice
            raws[-1] = raws[0]
        case = {"kind": kind, "raws": raws, "mode": mode}
        res.evaluations += 1
        res.count("combine.%s.%s" % (kind, mode))
        if t % 6 == 0:
            case["verbose"] = True
            res.count("class.verbose-logging")
        try:
            with G.vctx(case.get("verbose")):
                combine_case(res, case, raws, queue)
        except Exception as e:      # noqa: BLE001
            soft(res, "combine:raises", case, "%s: %s" % (type(e).__name__, e), "a result")


# ---------------------------------------------------------------- HARDENING_CHECKLIST items 10, 12, 13

def view_props(obj):
    """every property of the object's class, by introspection, canonical and comparable"""
    out = {}
    for k in type(obj).__mro__:
        for n, o in vars(k).items():
            if isinstance(o, property) and n not in out and n != "plates":
                try:
                    out[n] = _canon(getattr(obj, n))
                except Exception as e:      # noqa: BLE001
                    out[n] = "raises:" + type(e).__name__
    return out


def _canon(x):
    if isinstance(x, np.ndarray):
        return [_canon(e) for e in x]
    if isinstance(x, (float, np.floating)):
        return ("f", S.bits(x))
    if isinstance(x, np.generic):
        return x.item()
    if isinstance(x, (list, tuple)):
        return [_canon(e) for e in x]
    return x


def guarded(f, res, case, *a):
    """an exception escaping from Screen(...) / ExperimentSpace on valid input is a violation (no screen is constructed)"""
    try:
        if case.get("kind") in ("entry-point", "load-nan-inf"):
            f(res, case, *a)                # these enter the verbose configuration themselves (the CLI also needs --verbose)
        else:
            with G.vctx(case.get("verbose")):
                f(res, case, *a)
    except Exception as e:      # noqa: BLE001
        if G.raised_in_harness(e):      # item 21: an exception of the harness's own code (a wrapper, an unpack) is a broken tie, never a violation
            G.wrapper_trouble(res, "C01", "harness-exception:" + case["kind"], case, "%s: %s" % (type(e).__name__, e))
            return
        res.fail("constructing / saving on valid input raises", case, "%s: %s" % (type(e).__name__, e), "a screen", signature="C01:raises:" + case["kind"])


def temporaries_class(ctx, res, rng, queue):
    """item 10: results obtained from TEMPORARIES (built, used once, dropped -- CPython hands the freed address to the next one) must be those of
    retained objects: screens / experiment spaces of one shape but different content in a loop, only the result kept"""
    from batchie.data import ExperimentSpace
    for t in range(ctx.scale(6, 60)):
        n, a = rng.randint(2, 6), rng.choice([1, 2])
        raws = []
        for j in range(6):
            r = S.gen_raw(rng, n_max=n, arity=a)
            while len(r["snames"]) != n:
                r = S.gen_raw(rng, n_max=n, arity=a)
            raws.append(r)
        case = {"kind": "temporaries", "raws": raws, "verbose": t % 3 == 0}
        if case["verbose"]:
            res.count("class.verbose-logging")
        res.evaluations += 1
        res.count("class.temporaries")
        guarded(temporaries_case, res, case, raws)


def temporaries_case(res, case, raws):
    from batchie.data import ExperimentSpace
    # results of temporaries, nothing else kept
    temp = [S.show_screen(S.build(r)) for r in raws]
    temp_sp = [(int(ExperimentSpace.from_screen(S.build(r)).n_unique_treatments), int(ExperimentSpace.from_screen(S.build(r)).n_unique_samples)) for r in raws]
    kept = [S.build(r) for r in raws]       # all alive at once: distinct addresses
    for j, (r, k) in enumerate(zip(raws, kept)):
        sub = dict(case, which=j)
        oracle(res, sub, r, k)
        if temp[j] != S.show_screen(k):
            res.fail("ids / mappings of a screen built as a temporary differ from those of the same screen built and retained (decode through a stale result)",
                     sub, temp[j][:300], S.show_screen(k)[:300], signature="C01:temporaries")
        es = ExperimentSpace.from_screen(k)
        if temp_sp[j] != (int(es.n_unique_treatments), int(es.n_unique_samples)):
            res.fail("experiment-space sizes taken from a temporary differ from those of a retained object", sub, temp_sp[j],
                     [int(es.n_unique_treatments), int(es.n_unique_samples)], signature="C01:temporaries:space")


def instalments_class(ctx, res, rng, tmpdir):
    """item 12: (a) ExperimentSpace.save_h5 twice to the SAME path with other content: the file is the second content; (b) the union built in
    instalments (a.combine(b).combine(c), Screen.concat([a, b, c])) and in one Screen(...) call agree on EVERY property, by introspection"""
    for t in range(ctx.scale(12, 150)):
        k = rng.choice([2, 3, 3])
        arity = rng.choice([1, 2, 2, 3])
        ctrl = rng.choice(["", "control", "dmso"])
        names = rng.sample(S.NAME_POOL, rng.randint(2, 4))
        plates = rng.sample(S.NAME_POOL, 6)
        raws = []
        for j in range(k):
            r = S.gen_raw(rng, n_max=6, arity=arity, ctrl=ctrl, names=names + [ABSENT_NAMES[j]], with_obs=True, all_observed=None)
            pool = plates[2 * j:2 * j + 2]
            st = {q: rng.random() < 0.5 for q in pool}
            r["pnames"] = [rng.choice(pool) for _ in r["snames"]]
            r["mask"] = [st[q] for q in r["pnames"]]
            raws.append(r)
        case = {"kind": "instalments", "raws": raws, "verbose": t % 4 == 0}
        if case["verbose"]:
            res.count("class.verbose-logging")
        res.evaluations += 1
        res.count("class.instalments")
        guarded(instalments_case, res, case, raws, tmpdir)


def instalments_case(res, case, raws, tmpdir):
    from batchie.data import Screen, ExperimentSpace
    parts = [S.build(r) for r in raws]
    step = parts[0]
    for p_ in parts[1:]:
        step = step.combine(p_)
    once = Screen.concat(parts)
    allraw = dict(ctrl=raws[0]["ctrl"], arity=raws[0]["arity"], tnames=sum((r["tnames"] for r in raws), []), tdoses=sum((r["tdoses"] for r in raws), []),
                  snames=sum((r["snames"] for r in raws), []), pnames=sum((r["pnames"] for r in raws), []), obs=sum((r["obs"] for r in raws), []),
                  mask=sum((r["mask"] for r in raws), []), tmap=None, smap=None)
    direct = S.build(allraw)
    oracle(res, case, allraw, step)
    ref = view_props(direct)
    for nm, scr in (("a.combine(b).combine(c)", step), ("Screen.concat([a, b, c])", once)):
        got = view_props(scr)
        diff = sorted(k for k in set(ref) | set(got) if ref.get(k) != got.get(k))
        if diff:
            soft(res, "instalments:combine-vs-one-call", case, {"how": nm, "properties": diff, "got": str(got.get(diff[0]))[:300]}, str(ref.get(diff[0]))[:300])
            break
    # save twice to the same path: first the space of part 0, then the space of the union
    path = os.path.join(tmpdir, "twice.h5")
    first, second = ExperimentSpace.from_screen(parts[0]), ExperimentSpace.from_screen(step)
    if len(first.treatment_mapping[0]) == 0 or len(second.treatment_mapping[0]) == 0 or len(first.sample_mapping[0]) == 0:
        return
    first.save_h5(path)
    second.save_h5(path)
    back = ExperimentSpace.load_h5(path)
    if map_sig(back.treatment_mapping) != map_sig(step.treatment_mapping) or smap_sig(back.sample_mapping) != smap_sig(step.sample_mapping):
        res.fail("experiment space saved to a path that already held another space does not carry the mapping verbatim", case,
                 S.show_tmap(back.treatment_mapping)[:300], S.show_tmap(step.treatment_mapping)[:300], signature="C01:instalments:save-twice")
    n = len(step.sample_ids)
    if n and (int(np.asarray(step.treatment_ids).max()) >= int(back.n_unique_treatments) and int(np.asarray(step.treatment_ids).max()) >= 0
              or int(np.max(step.sample_ids)) >= int(back.n_unique_samples)):
        res.fail("sizes of an experiment space saved over another one do not bound the ids", case,
                 [int(back.n_unique_treatments), int(back.n_unique_samples)], "strict bounds", signature="C01:instalments:save-twice:bound")


def wide_raw(rng, m, what):
    """a screen with exactly `m` distinct non-control treatments / samples / plates (ids 0..m-1 straddle the int8 / uint8 boundaries)"""
    a = rng.choice([1, 2])
    nm = lambda i: "n%03d" % i
    n = m + rng.randint(0, 3)
    base = [i % m for i in range(n)]
    rng.shuffle(base)
    small = lambda: rng.randrange(3)
    if what == "treatments":
        tn = [[nm(i)] + [rng.choice(["", nm(rng.randrange(m))]) for _ in range(a - 1)] for i in base]
        td = [[1.0] + [rng.choice([0.0, 1.0]) for _ in range(a - 1)] for _ in base]
        sn = ["s%d" % small() for _ in base]
        pn = ["p%d" % small() for _ in base]
    elif what == "samples":
        tn = [[rng.choice(["a", "b", ""]) for _ in range(a)] for _ in base]
        td = [[rng.choice([0.0, 1.0, 2.0]) for _ in range(a)] for _ in base]
        sn = [nm(i) for i in base]
        pn = ["p%d" % small() for _ in base]
    else:
        tn = [[rng.choice(["a", "b", ""]) for _ in range(a)] for _ in base]
        td = [[rng.choice([0.0, 1.0, 2.0]) for _ in range(a)] for _ in base]
        sn = ["s%d" % small() for _ in base]
        pn = [nm(i) for i in base]
    return dict(ctrl="", arity=a, tnames=tn, tdoses=td, snames=sn, pnames=pn, obs=[0.5] * n, mask=None, tmap=None, smap=None)


def int_width_class(ctx, res, rng, tmpdir, queue):
    """item 13: 127 / 128 / 255 / 256 / 257 distinct treatments, samples or plates, through Screen(...), a superset mapping, ExperimentSpace and save/load"""
    sizes = [127, 128, 255, 256, 257]
    picks = [(m, w) for m in sizes for w in ("treatments", "samples", "plates")]
    if ctx.tier == "quick" and ctx.mode != "search":
        picks = [(256, "treatments"), (257, "samples"), (128, "treatments"), (256, "plates"), (rng.choice(sizes), rng.choice(["treatments", "samples"]))]
    for m, what in picks:
        raw = wide_raw(rng, m, what)
        supplied = rng.random() < 0.5
        if supplied:
            b = S.build(raw)
            raw["tmap"] = ([str(x) for x in b.treatment_mapping[0]], [float(x) for x in b.treatment_mapping[1]], [int(x) for x in b.treatment_mapping[2]])
            raw["smap"] = ([str(x) for x in b.sample_mapping[0]], [int(x) for x in b.sample_mapping[1]])
            keep = sorted(rng.sample(range(len(raw["snames"])), max(1, len(raw["snames"]) - rng.randint(0, 3))))
            for k in ("tnames", "tdoses", "snames", "pnames", "obs"):
                raw[k] = [raw[k][i] for i in keep]
        case = {"kind": "int-width", "raw": raw, "variant": "c", "vseed": 0, "verbose": m == 257}
        res.evaluations += 1
        res.count("class.int-width")
        res.count("class.int-width.%s-%d" % (what, m))
        try:
            with G.vctx(case.get("verbose")):
                s = S.build(raw)
                oracle(res, case, raw, s)
                sp = space_oracle(res, case, raw, s, tmpdir, True)
            queue("mkscreen " + S.raw_to_tokens(raw), S.show_screen(s), case)
            queue("espace " + S.raw_to_tokens(raw), sp, dict(case, kind="int-width:espace"))
        except Exception as e:      # noqa: BLE001
            res.fail("constructing / saving on valid input raises", case, "%s: %s" % (type(e).__name__, e), "a screen", signature="C01:raises:int-width")



# ---------------------------------------------------------------- HARDENING_CHECKLIST items 18 (real entry points) and 19 (load paths)

def with_superset(rng, raw):
    if rng.random() < 0.5:
        try:
            tm, sm, _ = superset_with_absent_names(rng, raw)
            raw["tmap"], raw["smap"] = tm, sm
        except Exception:       # noqa: BLE001
            raw["tmap"] = raw["smap"] = None
    return raw


def stored_maps(s):
    return (map_sig(s.treatment_mapping), smap_sig(s.sample_mapping))


def entry_point_case(res, case, tmpdir):
    """the stages that load / construct screens, through their real `batchie.cli.<stage>.main()`: what the stage loads, hands to the core and
    writes must satisfy the C01 clauses for the rows that were saved, and carry the saved mapping verbatim"""
    from batchie.data import Screen
    raw, stage, verbose = case["raw"], case["stage"], bool(case.get("verbose"))
    src = os.path.join(tmpdir, "in.h5")
    inp = S.build(raw)
    inp.save_h5(src)
    ref = Screen.load_h5(src)
    want_maps = stored_maps(inp)
    mraw = dict(raw, tmap=tuple(list(x) for x in inp.treatment_mapping), smap=tuple(list(x) for x in inp.sample_mapping))
    cells = [(nm, d) for rn, rd in zip(raw["tnames"], raw["tdoses"]) for nm, d in zip(rn, rd)]
    if stage == "extract_screen_metadata":
        out = os.path.join(tmpdir, "meta.json")
        with G.recording(stage, "Screen") as calls:
            G.run_main(stage, ["--screen", src, "--output", out], verbose)
        for c in calls:
            oracle(res, case, mraw, c.out)
        want = {"size": len(raw["snames"]), "n_plates": len(set(raw["pnames"])), "n_unique_samples": len(set(raw["snames"])),
                "n_unique_treatments": len(set(c for c in cells if not (c[0] == raw["ctrl"] or c[1] <= 0)))}
        try:
            meta = G.read_json(out)
            got = {k: meta[k] for k in want}
        except Exception as e:      # noqa: BLE001 -- item 20: the key names of the metadata file are knowledge about the current layout
            G.wrapper_trouble(res, "C01", "layout:metadata-json", case, "%s: %s" % (type(e).__name__, e))
            return
        if got != want:
            res.fail("extract_screen_metadata: the written counts are not the numbers of rows / distinct plate, sample and non-control treatment ids",
                     case, got, want, signature="C01:entry-point:extract_screen_metadata")
    elif stage == "reveal_plate":
        out = os.path.join(tmpdir, "revealed.h5")
        G.run_main(stage, ["--screen", src, "--output", out, "--plate-id"] + list(case["plate_ids"]), verbose)
        t = Screen.load_h5(out)
        oracle(res, case, mraw, t)
        if stored_maps(t) != want_maps:
            res.fail("reveal_plate: the written screen does not carry the mapping of the screen it was given, verbatim", case,
                     S.show_tmap(t.treatment_mapping)[:300], S.show_tmap(inp.treatment_mapping)[:300], signature="C01:entry-point:reveal_plate:mapping")
        if np.asarray(t.treatment_ids).tolist() != np.asarray(ref.treatment_ids).tolist() or [int(x) for x in t.sample_ids] != [int(x) for x in ref.sample_ids]:
            res.fail("reveal_plate: treatment / sample ids of the written screen differ from those of the screen it was given", case,
                     np.asarray(t.treatment_ids).tolist(), np.asarray(ref.treatment_ids).tolist(), signature="C01:entry-point:reveal_plate:ids")
    elif stage == "prepare_retrospective_simulation":
        tr, te = os.path.join(tmpdir, "train.h5"), os.path.join(tmpdir, "test.h5")
        with G.recording(stage, "mask_screen") as calls:
            try:
                G.run_main(stage, ["--data", src, "--training-output", tr, "--test-output", te, "--holdout-fraction", case["fraction"], "--seed", case["seed"]], verbose)
            except Exception as e:      # noqa: BLE001 -- e.g. no plate left to hold out: the stage's own contract (C11 / C13), not C01's
                res.count("entry-point.prepare.raised." + type(e).__name__)
                return
        worked_on = None
        try:
            if calls:
                worked_on = calls[0].arg("screen")
            else:
                res.count("wrapper.not-called.mask_screen")
        except LookupError as e:        # item 21: the wrapped function is called / declared in a form the harness cannot bind
            G.wrapper_trouble(res, "C01", "mask_screen", case, e)
        for nm, path in (("training", tr), ("test", te)):
            try:
                t = Screen.load_h5(path)
            except TypeError:           # zero-row output: known finding of C02 (load_h5 of an empty screen)
                res.count("entry-point.prepare.empty-output")
                continue
            oracle(res, dict(case, output=nm), S.raw_of_screen(t, with_maps=True), t)
            if worked_on is not None and stored_maps(t) != stored_maps(worked_on):
                res.fail("prepare_retrospective_simulation: a written screen does not carry the mapping of the screen the stage worked on, verbatim",
                         dict(case, output=nm), S.show_tmap(t.treatment_mapping)[:300], S.show_tmap(worked_on.treatment_mapping)[:300],
                         signature="C01:entry-point:prepare:mapping")


def entry_points_class(ctx, res, rng, tmpdir):
    stages = ["extract_screen_metadata", "reveal_plate", "prepare_retrospective_simulation"]
    for t in range(ctx.scale(9, 90)):
        stage = stages[t % 3]
        raw = G.entry_raw(rng, arity=2 if stage == "prepare_retrospective_simulation" else None)
        if stage != "prepare_retrospective_simulation":
            raw = with_superset(rng, raw)
        case = {"kind": "entry-point", "stage": stage, "raw": raw, "verbose": t % 2 == 0}
        if stage == "reveal_plate":
            pl = sorted(set(raw["pnames"]))
            unobs = [i for i, q in enumerate(pl) if not raw["mask"][raw["pnames"].index(q)]]
            case["plate_ids"] = sorted(set([0] + rng.sample(unobs, rng.randint(1, len(unobs))))) if t % 2 == 0 else rng.sample(unobs, 1)
        if stage == "prepare_retrospective_simulation":
            case["fraction"] = rng.choice([0.1, 0.3, 0.5])
            case["seed"] = rng.choice([0, 0, 1, 7])
        res.evaluations += 1
        res.count("class.entry-point." + stage)
        if case["verbose"]:
            res.count("class.verbose-logging")
        guarded(lambda r, c: entry_point_case(r, c, tmpdir), res, case)


def load_case(res, case, tmpdir):
    """item 19, load path: a screen whose observations include NaN / +-inf, rows in no particular order, saved and loaded (the verbose slice
    under DEBUG logging): the loaded screen satisfies the C01 clauses for the saved rows and carries the saved mapping verbatim"""
    from batchie.data import Screen
    raw = case["raw"]
    path = os.path.join(tmpdir, "nan.h5")
    inp = S.build(raw)
    before = rows_sig(inp)
    inp.save_h5(path)
    with G.vctx(case.get("verbose")):
        t = Screen.load_h5(path)
    mraw = dict(raw, tmap=tuple(list(x) for x in inp.treatment_mapping), smap=tuple(list(x) for x in inp.sample_mapping))
    oracle(res, case, mraw, t)
    if stored_maps(t) != stored_maps(inp):
        res.fail("a loaded screen does not carry the saved mapping verbatim", case, S.show_tmap(t.treatment_mapping)[:300],
                 S.show_tmap(inp.treatment_mapping)[:300], signature="C01:load:mapping")
    got = rows_sig(t)
    if got[:4] != before[:4]:
        res.fail("names / doses / sample names / plate names of a loaded screen differ from the saved rows", case, [x[:6] for x in got[:4]],
                 [x[:6] for x in before[:4]], signature="C01:load:rows")
    if got[4:] != before[4:] or rows_sig(inp) != before:
        soft(res, "load:observations-rewritten", case, got[4][:12], before[4][:12])      # persistence of observations is C02's


def load_class(ctx, res, rng, tmpdir):
    for t in range(ctx.scale(6, 60)):
        raw = with_superset(rng, G.entry_raw(rng, nan_obs=True))
        case = {"kind": "load-nan-inf", "raw": raw, "verbose": t % 2 == 0}
        res.evaluations += 1
        res.count("class.load-nan-inf")
        if case["verbose"]:
            res.count("class.verbose-logging")
        guarded(lambda r, c: load_case(r, c, tmpdir), res, case)



# the property text: "a supplied mapping is followed verbatim (or rejected if it does not cover the data or is not dense)";
# the other malformed inputs (masks, lengths) are compared with the model only
MAPPING_CLAUSES = ("bad-tmap-gap", "tmap-missing", "smap-missing", "smap-gap")
# driver ops of the model's extension beyond the text of C01 (Model/ScreenApi.lean): their ties are advisory
EXT_OPS = ("spaceapi", "derived", "ste", "combine", "concat")


def run(ctx, res):
    res.rule = RULE
    rng = ctx.subrng("c01")
    lines, expect, cases = [], [], []
    # first, so that an identity-keyed cache is reported on a case whose replay re-creates the address reuse
    temporaries_class(ctx, res, ctx.subrng("c01", "temporaries"), None)
    n_cases = ctx.scale(300, 5000, 3000)
    n_max = 14 if ctx.tier == "quick" else 40
    ex = list(exhaustive_raws(2 if ctx.tier == "quick" and ctx.mode != "search" else 3))
    tmpdir = tempfile.mkdtemp(prefix="c01_")
    try:
        for t in range(n_cases + len(ex)):
            if t >= n_cases:
                raw = ex[t - n_cases]
                kind = "exhaustive"
            else:
                raw = S.gen_raw(rng, n_max=n_max)
                kind = "fresh"
                if rng.random() < 0.4:
                    raw = directed(rng, raw)
                    kind = "directed"
            absent = None
            if kind != "exhaustive" and rng.random() < 0.4:
                try:
                    if rng.random() < 0.5:
                        raw["tmap"], raw["smap"] = S.superset_mappings(rng, raw)
                        raw["tmap"] = ([str(x) for x in raw["tmap"][0]], [float(x) for x in raw["tmap"][1]], [int(x) for x in raw["tmap"][2]])
                        raw["smap"] = ([str(x) for x in raw["smap"][0]], [int(x) for x in raw["smap"][1]])
                        kind = kind + "+superset-mapping"
                    else:
                        raw["tmap"], raw["smap"], absent = superset_with_absent_names(rng, raw)
                        kind = kind + "+superset-absent-names"
                except Exception:       # noqa: BLE001
                    raw["tmap"] = raw["smap"] = None
            variant = "c" if kind == "exhaustive" else rng.choice(VARIANTS)
            vseed = rng.randrange(1 << 30)
            case = {"kind": kind, "raw": raw, "variant": variant, "vseed": vseed}
            if t % 7 == 0 or (kind == "exhaustive" and t % 5 == 0):
                case["verbose"] = True                  # item 19: the slice that runs under DEBUG logging
                res.count("class.verbose-logging")
            res.evaluations += 1
            res.count("kind." + kind)
            res.count("layout." + variant)
            res.count("arity.%d" % raw["arity"])
            res.count("rows.%s" % ("0" if not raw["snames"] else "1-5" if len(raw["snames"]) <= 5 else "6+"))
            try:
                with G.vctx(case.get("verbose")):
                    s, arrs, before = build_variant(raw, variant, vseed)
                    out = S.show_screen(s)
                if case.get("verbose"):
                    quiet = S.show_screen(build_variant(raw, variant, vseed)[0])
                    if quiet != out:
                        res.fail("a screen built under verbose logging differs from the same screen built without (ids / mappings)", case, out[:300], quiet[:300],
                                 signature="C01:verbose-differs")
            except Exception as e:      # noqa: BLE001
                out = S.err_tok(e)
                s = None
                res.fail("constructor raises on a valid screen", case, "%s: %s" % (type(e).__name__, e), "a screen")
            if s is not None:
                check_inputs_unchanged(res, case, arrs, before)
                oracle(res, case, raw, s)
                if absent:
                    stored = set(str(x) for x in s.treatment_mapping[0])
                    if all(x in stored for x in absent):
                        res.count("supplied-mapping.rows-of-names-absent-from-data-kept")
                if any(S.bits(d) == S.bits(-0.0) for row in raw["tdoses"] for d in row):
                    res.count("has-negative-zero-dose")
                roundtrip = kind != "exhaustive" and (raw.get("tmap") is not None or rng.random() < 0.3)
                with G.vctx(case.get("verbose")):
                    sp = space_oracle(res, case, raw, s, tmpdir, roundtrip)
                if roundtrip:
                    res.count("space.save-load-roundtrip")
                lines.append("espace " + S.raw_to_tokens(raw))
                expect.append(sp)
                cases.append(dict(case, kind=kind + ":espace"))
                if kind != "exhaustive":
                    for op, fn in (("derived", lambda: derived_oracle(res, case, raw, s)), ("ste", lambda: ste_oracle(res, case, s))):
                        try:
                            tok = fn()
                        except Exception as e:      # noqa: BLE001 -- extension: advisory
                            soft(res, op + ":raises", case, "%s: %s" % (type(e).__name__, e), "a value")
                            continue
                        lines.append(op + " " + S.raw_to_tokens(raw))
                        expect.append(tok)
                        cases.append(dict(case, kind=kind + ":" + op))
                cells = [(nm, d) for rn, rd in zip(raw["tnames"], raw["tdoses"]) for nm, d in zip(rn, rd)]
                nctl = sum(1 for nm, d in cells if nm == raw["ctrl"] or d <= 0)
                nn = len(set((nm, d) for nm, d in cells if not (nm == raw["ctrl"] or d <= 0)))
                if len(raw["snames"]) >= 2 and nctl >= 1 and nn >= 2:
                    res.nontrivial.add(common.short_hash(raw))
                if rng.random() < 0.01:
                    res.sample({"kind": kind, "layout": variant, "line": "mkscreen " + S.raw_to_tokens(raw), "impl": out[:300]})
            lines.append("mkscreen " + S.raw_to_tokens(raw))
            expect.append(out)
            cases.append(case)
    finally:
        shutil.rmtree(tmpdir, ignore_errors=True)
    outside_quantifier(ctx, res, ctx.subrng("c01", "outside"))

    def queue(line, out, case):
        lines.append(line)
        expect.append(out)
        cases.append(case)

    api_stream(ctx, res, ctx.subrng("c01", "api"), queue)
    combine_stream(ctx, res, ctx.subrng("c01", "combine"), queue)
    tmp2 = tempfile.mkdtemp(prefix="c01_")
    try:
        instalments_class(ctx, res, ctx.subrng("c01", "instalments"), tmp2)
        int_width_class(ctx, res, ctx.subrng("c01", "int-width"), tmp2, queue)
        entry_points_class(ctx, res, ctx.subrng("c01", "entry"), tmp2)
        load_class(ctx, res, ctx.subrng("c01", "load"), tmp2)
    finally:
        shutil.rmtree(tmp2, ignore_errors=True)
    # malformed stream
    for t in range(ctx.scale(60, 600)):
        raw = S.gen_raw(rng, n_max=8)
        if len(raw["snames"]) < 2:
            continue
        m = rng.choice(["mixed-mask", "mask-no-obs", "bad-tmap-gap", "tmap-missing", "smap-missing", "smap-gap", "mask-len", "obs-len", "pnames-short"])
        try:
            if m == "mixed-mask":
                raw["pnames"] = [raw["pnames"][0]] * len(raw["pnames"])
                raw["obs"] = raw["obs"] or [0.5] * len(raw["snames"])
                raw["mask"] = [i % 2 == 0 for i in range(len(raw["snames"]))]
            elif m == "mask-no-obs":
                raw["obs"] = None
                raw["mask"] = [True] * len(raw["snames"])
            elif m == "mask-len":       # observation_mask[plate_mask] -> IndexError
                raw["obs"] = raw["obs"] or [0.5] * len(raw["snames"])
                raw["mask"] = [True] * (len(raw["snames"]) + rng.choice([-1, 1, 2]))
            elif m == "obs-len":
                raw["obs"] = [0.5] * (len(raw["snames"]) + rng.choice([-1, 1]))
                raw["mask"] = None
            elif m == "pnames-short":
                raw["pnames"] = raw["pnames"][:-1]
            else:
                tm, sm = S.superset_mappings(rng, raw)
                tm = ([str(x) for x in tm[0]], [float(x) for x in tm[1]], [int(x) for x in tm[2]])
                sm = ([str(x) for x in sm[0]], [int(x) for x in sm[1]])
                raw["tmap"], raw["smap"] = tm, sm
                if m == "bad-tmap-gap":
                    mx = max(tm[2])
                    if mx < 1:
                        continue
                    raw["tmap"] = (tm[0], tm[1], [x + 1 if x == mx else x for x in tm[2]])
                elif m == "tmap-missing":
                    # prefer a data key whose removal leaves the ids dense (max id, or one of several controls),
                    # so that only the coverage test can reject
                    cells = set((nm, float(d)) for rn, rd in zip(raw["tnames"], raw["tdoses"]) for nm, d in zip(rn, rd))
                    mx = max(tm[2])
                    nctl = sum(1 for x in tm[2] if x == -1)
                    cand = [i for i in range(len(tm[0])) if (str(tm[0][i]), float(tm[1][i])) in cells
                            and (tm[2][i] == mx or (tm[2][i] == -1 and nctl >= 2))]
                    if cand and rng.random() < 0.8:
                        drop = rng.choice(cand)
                        key = (str(tm[0][drop]), float(tm[1][drop]))
                    else:
                        key = (raw["tnames"][0][0], raw["tdoses"][0][0])
                    keep = [i for i in range(len(tm[0])) if (str(tm[0][i]), float(tm[1][i])) != key]
                    raw["tmap"] = tuple([x[i] for i in keep] for x in tm)
                elif m == "smap-missing":
                    mx = max(sm[1])
                    cand = [str(sm[0][i]) for i in range(len(sm[0])) if sm[1][i] == mx and str(sm[0][i]) in raw["snames"]]
                    name = cand[0] if cand and rng.random() < 0.8 else raw["snames"][0]
                    keep = [i for i in range(len(sm[0])) if str(sm[0][i]) != name]
                    raw["smap"] = tuple([x[i] for i in keep] for x in sm)
                elif m == "smap-gap":
                    raw["smap"] = (sm[0], [x + 1 if x == max(sm[1]) else x for x in sm[1]])
        except Exception:       # noqa: BLE001
            continue
        variant = rng.choice(VARIANTS)
        vseed = rng.randrange(1 << 30)
        case = {"kind": "malformed:" + m, "raw": raw, "variant": variant, "vseed": vseed}
        if t % 6 == 0:
            case["verbose"] = True
            res.count("class.verbose-logging")
        res.evaluations += 1
        res.count("malformed." + m)
        try:
            with G.vctx(case.get("verbose")):
                s, _arrs, _before = build_variant(raw, variant, vseed)
                out = S.show_screen(s)
            accepted = True
        except Exception as e:      # noqa: BLE001
            out = S.err_tok(e)
            accepted = False
        # every malformed input of this stream must be rejected: a mixed plate mask, a mask without observations, ids with a gap,
        # and a mapping from which a (name, dose) / sample name of the data was removed (not covering)
        if accepted and m in MAPPING_CLAUSES:
            res.fail("a supplied mapping that is not dense / does not cover the data was accepted", case, out[:200], "rejected")
        elif accepted:
            res.count("malformed-accepted." + m)        # not in the property text: compared with the model only
        lines.append("mkscreen " + S.raw_to_tokens(raw))
        expect.append(out)
        cases.append(case)
    if ctx.driver is not None:
        got = ctx.driver.ask(lines)
        for l, e, g, c in zip(lines, expect, got, cases):
            if e != g:
                op = l.split(" ")[0]
                if op in EXT_OPS or c["kind"].startswith("malformed"):
                    # ties of the extension ops, and what exactly happens on malformed input (the acceptance of a non-dense / non-covering
                    # mapping is an oracle of its own): advisory
                    res.advise("outside the text of C01: model and implementation disagree (%s, %s)" % (op, c["kind"]), {"line": l[:1500]}, e[:600], g[:600],
                               signature="C01:ext-tie:" + op + (":malformed" if c["kind"].startswith("malformed") else ""))
                else:
                    res.disagree("C01:%s:%s" % (op, c["kind"]), {"line": l}, e[:600], g[:600])
        res.traces_validated += len(lines)


def replay(ctx, case, res):
    if case["kind"] in ("entry-point", "load-nan-inf"):
        tmpdir = tempfile.mkdtemp(prefix="c01_")
        try:
            guarded((lambda r, c: entry_point_case(r, c, tmpdir)) if case["kind"] == "entry-point" else (lambda r, c: load_case(r, c, tmpdir)), res, case)
        finally:
            shutil.rmtree(tmpdir, ignore_errors=True)
        return
    with G.vctx(case.get("verbose")):
        replay_inner(ctx, case, res)


def replay_inner(ctx, case, res):
    if case["kind"].startswith("api:"):
        from batchie.data import ExperimentSpace
        tm, sm = case["tmap"], case["smap"]
        tm = ([str(x) for x in tm[0]], [float(x) for x in tm[1]], [int(x) for x in tm[2]])
        sm = ([str(x) for x in sm[0]], [int(x) for x in sm[1]])
        ndt = object if case.get("names_dtype") == "object" else str
        es = ExperimentSpace(treatment_mapping=(np.array(tm[0], dtype=ndt), np.array(tm[1], dtype=float), np.array(tm[2], dtype=int)),
                             sample_mapping=(np.array(sm[0], dtype=ndt), np.array(sm[1], dtype=int)), control_treatment_name=case["ctrl"])
        api_case(res, case, es, case["ctrl"], tm, sm, case["kind"] in ("api:fresh", "api:superset", "api:absent-names"))
        return
    if case["kind"] in ("combine", "concat"):
        combine_case(res, case, case["raws"])
        return
    if case["kind"] == "temporaries":
        temporaries_case(res, case, case["raws"])
        return
    if case["kind"] == "instalments":
        tmpdir = tempfile.mkdtemp(prefix="c01_")
        try:
            instalments_case(res, case, case["raws"], tmpdir)
        finally:
            shutil.rmtree(tmpdir, ignore_errors=True)
        return
    raw = case["raw"]
    try:
        s, arrs, before = build_variant(raw, case.get("variant", "c"), case.get("vseed", 0))
    except Exception as e:      # noqa: BLE001
        if not case["kind"].startswith("malformed"):
            res.fail("constructor raises on a valid screen", case, "%s: %s" % (type(e).__name__, e), "a screen")
        return
    if case["kind"].startswith("malformed"):
        if case["kind"].split(":", 1)[1] in MAPPING_CLAUSES:
            res.fail("a supplied mapping that is not dense / does not cover the data was accepted", case, S.show_screen(s)[:200], "rejected")
        return
    check_inputs_unchanged(res, case, arrs, before)
    oracle(res, case, raw, s)
    derived_oracle(res, case, raw, s)
    ste_oracle(res, case, s)
    tmpdir = tempfile.mkdtemp(prefix="c01_")
    try:
        space_oracle(res, case, raw, s, tmpdir, True)
    finally:
        shutil.rmtree(tmpdir, ignore_errors=True)
