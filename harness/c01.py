"""C01 -- Screen identifiers are a faithful, dense encoding of names and doses."""
import numpy as np

from vlib import common
from harness import screens as S

common.use_repo_sources()

import itertools

RULE = ("random raw screens (arity 1-3, 0..n_max rows, colliding/empty/non-ASCII/astral names, doses incl. 0, -0.0, negative, "
        "subnormal, repeated), with/without a mapping batchie produced for a superset; malformed stream: mixed plate masks, "
        "non-dense / non-covering mappings; directed stream: every screen gets a zero-dose non-control cell, a -0.0 cell, a control-name cell "
        "with positive dose, a name that is a proper prefix/extension of the control name, a duplicated row and the same (name, dose) in two "
        "columns; exhaustive stream: all arity-1 screens over {ctrl, 'a', 'ab'} x {0.0, -0.0, 1.0, 2.0} with <= 2 (quick) / 3 (thorough) rows. "
        "Non-trivial: >=2 rows, >=1 control cell and >=2 distinct non-control treatments.")


def directed(rng, raw):
    """inject the boundary features the property text names into a random valid screen (keeps plate-uniform masks)"""
    a = raw["arity"]
    ctrl = raw["ctrl"]
    n = len(raw["snames"])
    if n == 0:
        return raw
    other = [x for x in S.NAME_POOL if x != ctrl]
    pre = ctrl[:-1] if len(ctrl) > 1 else ctrl + "a"     # proper prefix (or extension) of the control name
    ext = ctrl + "b"
    feats = [(rng.choice(other), 0.0), (rng.choice(other), -0.0), (ctrl, rng.choice([1.0, 2.5, 5e-324])),
             (pre, rng.choice([1.0, 0.0])), (ext, 1.0), (rng.choice(other), -1.0)]
    for nm, d in feats:
        r, c = rng.randrange(n), rng.randrange(a)
        raw["tnames"][r][c], raw["tdoses"][r][c] = nm, d
    # same (name, dose) in two columns of one row, and one duplicated row (same plate so the mask stays uniform)
    if a >= 2:
        r = rng.randrange(n)
        raw["tnames"][r][1], raw["tdoses"][r][1] = raw["tnames"][r][0], raw["tdoses"][r][0]
    if n >= 2:
        i, j = rng.sample(range(n), 2)
        raw["tnames"][j], raw["tdoses"][j] = list(raw["tnames"][i]), list(raw["tdoses"][i])
        raw["snames"][j] = raw["snames"][i]
    return raw


def exhaustive_raws(max_rows):
    cells = [(nm, d) for nm in ("ctl", "a", "ab") for d in (0.0, -0.0, 1.0, 2.0)]
    for n in range(0, max_rows + 1):
        for combo in itertools.product(cells, repeat=n):
            yield dict(ctrl="ctl", arity=1, tnames=[[c[0]] for c in combo], tdoses=[[c[1]] for c in combo],
                       snames=["s%d" % (i % 2) for i in range(n)], pnames=["p"] * n, obs=None, mask=None, tmap=None, smap=None)


def oracle(res, case, raw, s):
    """the property, evaluated on the implementation's screen"""
    from batchie.data import ExperimentSpace
    tm = s.treatment_mapping
    table = {}
    for nm, d, i in zip(*tm):
        table.setdefault(int(i), []).append((str(nm), float(d)))
    tids = np.asarray(s.treatment_ids)
    n, a = len(raw["snames"]), raw["arity"]
    if tids.shape != (n, a):
        res.fail("treatment_ids has wrong shape", case, list(tids.shape), [n, a])
        return
    ctrl = raw["ctrl"]
    for r in range(n):
        for c in range(a):
            i = int(tids[r, c])
            nm, d = raw["tnames"][r][c], raw["tdoses"][r][c]
            if (nm, float(d)) not in [(x, y) for (x, y) in table.get(i, [])]:
                res.fail("treatment id does not decode to the cell's (name, dose)", case, {"row": r, "col": c, "id": i, "table": table.get(i)}, [nm, d])
                return
            is_ctrl = (nm == ctrl) or (d <= 0)
            if (i == -1) != is_ctrl:
                res.fail("control sentinel iff control name or non-positive dose", case, {"row": r, "col": c, "id": i}, {"is_control": is_ctrl})
                return
    if raw.get("tmap") is None:
        nonctrl = sorted(set(int(i) for i in tm[2] if i != -1))
        if nonctrl != list(range(len(nonctrl))):
            res.fail("non-control treatment ids are not dense 0..n-1", case, nonctrl, list(range(len(nonctrl))))
        # equal ids iff equal (name, dose)
        for i, lst_ in table.items():
            if i != -1 and len(set(lst_)) != 1:
                res.fail("two (name, dose) share a non-control id", case, lst_, "injective")
        keys = [(str(nm), float(d)) for nm, d in zip(tm[0], tm[1])]
        if len(set(keys)) != len(keys):
            res.fail("mapping lists a (name, dose) twice", case, keys, "unique keys")
        cells = set((nm, float(d)) for rn, rd in zip(raw["tnames"], raw["tdoses"]) for nm, d in zip(rn, rd))
        if set(keys) != cells:
            res.fail("fresh mapping keys differ from the distinct cells of the data", case, sorted(keys), sorted(cells))
        sm = s.sample_mapping
        if sorted(int(i) for i in sm[1]) != list(range(len(set(raw["snames"])))):
            res.fail("sample ids not dense", case, [int(i) for i in sm[1]], len(set(raw["snames"])))
    else:
        if S.show_tmap(tm) != S.show_tmap(raw["tmap"]) or S.show_smap(s.sample_mapping) != S.show_smap(raw["smap"]):
            res.fail("supplied mapping not followed verbatim", case, S.show_tmap(tm), S.show_tmap(raw["tmap"]))
    for kind, ids, names, mp in (("sample", s.sample_ids, raw["snames"], s.sample_mapping), ("plate", s.plate_ids, raw["pnames"], s.plate_mapping)):
        d = {str(nm): int(i) for nm, i in zip(*mp)}
        for r in range(n):
            if d.get(names[r]) != int(ids[r]):
                res.fail("%s id does not decode to the row's name" % kind, case, {"row": r, "id": int(ids[r])}, names[r])
                return
        if len(set(d.values())) != len(d):
            res.fail("%s ids not injective" % kind, case, d, "injective")
    pids = sorted(set(int(i) for i in s.plate_ids))
    if pids != list(range(len(pids))):
        res.fail("plate ids not dense", case, pids, "0..n-1")
    # experiment-space sizes strictly bound every id
    es = ExperimentSpace.from_screen(s)
    if n:
        if int(tids.max()) >= es.n_unique_treatments and int(tids.max()) >= 0:
            res.fail("treatment id not bounded by experiment space", case, int(tids.max()), es.n_unique_treatments)
        if int(np.max(s.sample_ids)) >= es.n_unique_samples:
            res.fail("sample id not bounded by experiment space", case, int(np.max(s.sample_ids)), es.n_unique_samples)


def run(ctx, res):
    res.rule = RULE
    rng = ctx.subrng("c01")
    lines, expect, cases = [], [], []
    n_cases = ctx.scale(300, 5000, 3000)
    n_max = 14 if ctx.tier == "quick" else 40
    ex = list(exhaustive_raws(2 if ctx.tier == "quick" and ctx.mode != "search" else 3))
    for t in range(n_cases + len(ex)):
        if t >= n_cases:
            raw = ex[t - n_cases]
            kind = "exhaustive"
        else:
            raw = S.gen_raw(rng, n_max=n_max)
            kind = "fresh"
            if rng.random() < 0.4:
                raw = directed(rng, raw)
                kind = "directed"
        if kind != "exhaustive" and rng.random() < 0.35:
            try:
                raw["tmap"], raw["smap"] = S.superset_mappings(rng, raw)
                kind = kind + "+superset-mapping"
            except Exception:
                pass
        case = {"kind": kind, "raw": raw}
        res.evaluations += 1
        res.count("kind." + kind)
        res.count("arity.%d" % raw["arity"])
        res.count("rows.%s" % ("0" if not raw["snames"] else "1-5" if len(raw["snames"]) <= 5 else "6+"))
        try:
            s = S.build(raw)
            out = S.show_screen(s)
        except Exception as e:
            out = S.err_tok(e)
            s = None
            res.fail("constructor raises on a valid screen", case, "%s: %s" % (type(e).__name__, e), "a screen")
        if s is not None:
            oracle(res, case, raw, s)
            cells = [(nm, d) for rn, rd in zip(raw["tnames"], raw["tdoses"]) for nm, d in zip(rn, rd)]
            nctl = sum(1 for nm, d in cells if nm == raw["ctrl"] or d <= 0)
            nn = len(set((nm, d) for nm, d in cells if not (nm == raw["ctrl"] or d <= 0)))
            if len(raw["snames"]) >= 2 and nctl >= 1 and nn >= 2:
                res.nontrivial.add(common.short_hash(raw))
            if rng.random() < 0.01:
                res.sample({"kind": kind, "line": "mkscreen " + S.raw_to_tokens(raw), "impl": out[:300]})
        lines.append("mkscreen " + S.raw_to_tokens(raw))
        expect.append(out)
        cases.append(case)
    # malformed stream
    for t in range(ctx.scale(60, 600)):
        raw = S.gen_raw(rng, n_max=8)
        if len(raw["snames"]) < 2:
            continue
        m = rng.choice(["mixed-mask", "mask-no-obs", "bad-tmap-gap", "tmap-missing", "smap-missing", "smap-gap"])
        try:
            if m == "mixed-mask":
                raw["pnames"] = [raw["pnames"][0]] * len(raw["pnames"])
                raw["obs"] = raw["obs"] or [0.5] * len(raw["snames"])
                raw["mask"] = [i % 2 == 0 for i in range(len(raw["snames"]))]
            elif m == "mask-no-obs":
                raw["obs"] = None
                raw["mask"] = [True] * len(raw["snames"])
            else:
                tm, sm = S.superset_mappings(rng, raw)
                raw["tmap"], raw["smap"] = tm, sm
                if m == "bad-tmap-gap":
                    mx = max(tm[2])
                    if mx < 1:
                        continue
                    raw["tmap"] = (tm[0], tm[1], [x + 1 if x == mx else x for x in tm[2]])
                elif m == "tmap-missing":
                    # prefer a data key whose removal leaves the ids dense (max id, or one of several controls),
                    # so that only the coverage test can reject
                    cells = set((nm, float(d)) for rn, rd in zip(raw["tnames"], raw["tdoses"]) for nm, d in zip(rn, rd))
                    mx = max(tm[2])
                    nctl = sum(1 for x in tm[2] if x == -1)
                    cand = [i for i in range(len(tm[0])) if (str(tm[0][i]), float(tm[1][i])) in cells
                            and (tm[2][i] == mx or (tm[2][i] == -1 and nctl >= 2))]
                    if cand and rng.random() < 0.8:
                        drop = rng.choice(cand)
                        key = (str(tm[0][drop]), float(tm[1][drop]))
                    else:
                        key = (raw["tnames"][0][0], raw["tdoses"][0][0])
                    keep = [i for i in range(len(tm[0])) if (str(tm[0][i]), float(tm[1][i])) != key]
                    raw["tmap"] = tuple([x[i] for i in keep] for x in tm)
                elif m == "smap-missing":
                    mx = max(sm[1])
                    cand = [str(sm[0][i]) for i in range(len(sm[0])) if sm[1][i] == mx and str(sm[0][i]) in raw["snames"]]
                    name = cand[0] if cand and rng.random() < 0.8 else raw["snames"][0]
                    keep = [i for i in range(len(sm[0])) if str(sm[0][i]) != name]
                    raw["smap"] = tuple([x[i] for i in keep] for x in sm)
                elif m == "smap-gap":
                    raw["smap"] = (sm[0], [x + 1 if x == max(sm[1]) else x for x in sm[1]])
        except Exception:
            continue
        case = {"kind": "malformed:" + m, "raw": raw}
        res.evaluations += 1
        res.count("malformed." + m)
        try:
            s = S.build(raw)
            out = S.show_screen(s)
            accepted = True
        except Exception as e:
            out = S.err_tok(e)
            accepted = False
        # oracle: which malformed inputs must be rejected (removing rows from a mapping can leave it dense and covering)
        must_reject = m in ("mixed-mask", "mask-no-obs", "bad-tmap-gap", "smap-gap")
        if m == "tmap-missing":
            must_reject = True
        if m == "smap-missing":
            must_reject = True
        if accepted and must_reject:
            # a removal that leaves ids non-dense or data uncovered must be rejected
            res.fail("malformed input accepted", case, out[:200], "ValueError")
        lines.append("mkscreen " + S.raw_to_tokens(raw))
        expect.append(out)
        cases.append(case)
    if ctx.driver is not None:
        got = ctx.driver.ask(lines)
        for l, e, g, c in zip(lines, expect, got, cases):
            if e != g:
                res.disagree("C01:mkscreen:" + c["kind"], {"line": l}, e[:600], g[:600])
        res.traces_validated += len(lines)


def replay(ctx, case, res):
    raw = case["raw"]
    try:
        s = S.build(raw)
    except Exception as e:
        if not case["kind"].startswith("malformed"):
            res.fail("constructor raises on a valid screen", case, "%s: %s" % (type(e).__name__, e), "a screen")
        return
    if case["kind"].startswith("malformed"):
        res.fail("malformed input accepted", case, S.show_screen(s)[:200], "ValueError")
    else:
        oracle(res, case, raw, s)
