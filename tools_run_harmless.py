#!/usr/bin/env python3
"""Behaviour-preserving refactors (/verif/harmless/<id>/): confirm (apply, 151 tests, equiv.py) and run the property's check against each.
Acceptable outcomes: OK (green) or TIE (VIOLATION ... no-failing-input-found: a proof or the correspondence no longer checks, no failing input).
Unacceptable: FALSE-ALARM (a concrete replay on code where the property holds) or INFRA (exit 2).
usage: tools_run_harmless.py [--confirm-from <dir>] [ids...]"""
import json, os, shutil, subprocess, sys, time
here = os.path.dirname(os.path.abspath(__file__))
H = os.path.join(here, "harmless")
args = sys.argv[1:]
if args[:1] == ["--confirm-from"]:
    src = args[1]; args = args[2:]
    os.makedirs(H, exist_ok=True)
    for i in sorted(os.listdir(src)):
        if args and i not in args:
            continue
        d = os.path.join(src, i)
        if not os.path.exists(os.path.join(d, "patch.diff")):
            continue
        wt = "/tmp/hconfirm_%s" % i
        subprocess.run(["git", "-C", "/repo", "worktree", "remove", "--force", wt], capture_output=True)
        subprocess.run(["git", "-C", "/repo", "worktree", "add", "--detach", wt, "HEAD"], check=True, capture_output=True)
        env = dict(os.environ, PYTHONPATH=wt + "/src")
        try:
            a = subprocess.run(["git", "-C", wt, "apply", os.path.join(os.path.abspath(d), "patch.diff")], capture_output=True, text=True)
            ok = a.returncode == 0
            ran = ["git apply rc %d %s" % (a.returncode, a.stderr[:120])]
            if ok:
                e = subprocess.run(["/venv/bin/python", os.path.join(d, "equiv.py")], cwd=wt, env=env, capture_output=True, text=True, timeout=1800)
                ran.append("equiv.py rc %d" % e.returncode)
                t = subprocess.run(["/venv/bin/python", "-m", "pytest", "-q", "-p", "no:cacheprovider", "--timeout=900"], cwd=wt, env=env, capture_output=True, text=True, timeout=3000)
                tail = [l for l in t.stdout.splitlines() if "passed" in l or "failed" in l][-1:] or ["?"]
                ran.append("pytest rc %d %s" % (t.returncode, tail[0]))
                ok = e.returncode == 0 and t.returncode == 0 and "151 passed" in tail[0]
        finally:
            subprocess.run(["git", "-C", "/repo", "worktree", "remove", "--force", wt], capture_output=True)
        print(i, "CONFIRMED" if ok else "REJECTED", ran, flush=True)
        if ok:
            dst = os.path.join(H, os.environ.get("HPREFIX", "H-") + i)
            os.makedirs(dst, exist_ok=True)
            for f in ("patch.diff", "equiv.py"):
                shutil.copy(os.path.join(d, f), dst)
            m = json.load(open(os.path.join(d, "meta.json"))); m["confirmed_by_me"] = ran
            json.dump(m, open(os.path.join(dst, "meta.json"), "w"), indent=1)
    sys.exit(0)
ids = args or sorted(os.listdir(H))
summary = {}
for i in ids:
    d = os.path.join(H, i)
    if not os.path.exists(os.path.join(d, "patch.diff")):
        continue
    prop = json.load(open(os.path.join(d, "meta.json")))["property"]
    target = "/tmp/hrun_%s" % i
    subprocess.run(["git", "-C", "/repo", "worktree", "remove", "--force", target], capture_output=True)
    subprocess.run(["git", "-C", "/repo", "worktree", "add", "--detach", target, "HEAD"], check=True, capture_output=True)
    t0 = time.time()
    try:
        subprocess.run(["git", "-C", target, "apply", os.path.join(d, "patch.diff")], check=True, capture_output=True)
        p = subprocess.run([os.path.join(here, "check"), prop, "--tier", "quick"], capture_output=True, text=True, timeout=3600, env=dict(os.environ, BATCHIE_REPO=target))
        out, rc = p.stdout + p.stderr, p.returncode
    except subprocess.TimeoutExpired:
        out, rc = "timeout", 124
    finally:
        subprocess.run(["git", "-C", "/repo", "worktree", "remove", "--force", target], capture_output=True)
    vio = [l for l in out.splitlines() if l.startswith("VIOLATION")]
    if rc == 0:
        cls = "OK"
    elif rc == 1 and vio and "no-failing-input-found" in vio[-1]:
        cls = "TIE"
    elif rc == 1 and vio:
        cls = "FALSE-ALARM"
    else:
        cls = "INFRA"
    res = {"property": prop, "class": cls, "exit": rc, "wall_s": round(time.time() - t0, 1), "tail": out[-900:]}
    json.dump(res, open(os.path.join(d, "result.json"), "w"), indent=1)
    summary[i] = "%s rc=%d %.0fs" % (cls, rc, res["wall_s"])
    print(i, summary[i], flush=True)
subprocess.run([sys.executable, os.path.join(here, "translate", "py2lean.py")], capture_output=True, env={k: v for k, v in os.environ.items() if k != "BATCHIE_REPO"})
print(json.dumps(summary, indent=1))
