/-
  The executable Cholesky factorisation of `Model/Gibbs.lean` (`chol`, rows stored in arrays) is correct for
  EVERY size: for a symmetric `Q` whose pivots `Q i i − Σ_{k<i} U k i²` are all positive (exactly the condition under
  which the factorisation goes through; for a positive definite `Q` they are, shown here for 1×1 and 2×2 symbolic
  input), `U = chol D Q` is upper triangular with positive diagonal and `UᵀU = Q`.
-/
import Batchie.Lemmas.GibbsMvn

namespace Batchie.Gibbs
open Finset Matrix

/-! ### the rows computed so far -/

theorem cholRows_size (D : ℕ) (Q : ℕ → ℕ → ℝ) (n : ℕ) : (cholRows D Q n).size = n := by
  induction n with
  | zero => simp [cholRows]
  | succ k ih => rw [cholRows]; simp only [Array.size_push, ih]

theorem rowsFn_push_lt (R : Array (Array ℝ)) (r : Array ℝ) (k : ℕ) (hk : k < R.size) :
    rowsFn (R.push r) k = rowsFn R k := by
  funext j
  unfold rowsFn
  simp only [Array.getD_eq_getD_getElem?, Array.getElem?_push]
  rw [if_neg (by omega)]

theorem rowsFn_push_eq (R : Array (Array ℝ)) (r : Array ℝ) : rowsFn (R.push r) R.size = fun j => r.getD j 0 := by
  funext j
  unfold rowsFn
  simp only [Array.getD_eq_getD_getElem?, Array.getElem?_push]
  simp

/-- a row, once computed, is never changed -/
theorem cholRows_stable (D : ℕ) (Q : ℕ → ℕ → ℝ) (k : ℕ) :
    ∀ m, k < m → rowsFn (cholRows D Q m) k = rowsFn (cholRows D Q (k + 1)) k := by
  intro m hm
  induction m with
  | zero => omega
  | succ n ih =>
    by_cases h : k = n
    · subst h; rfl
    · have hkn : k < n := by omega
      rw [cholRows]
      rw [rowsFn_push_lt _ _ _ (by rw [cholRows_size]; exact hkn)]
      exact ih hkn

theorem cholRows_new (D : ℕ) (Q : ℕ → ℕ → ℝ) (i j : ℕ) (hj : j < D) :
    rowsFn (cholRows D Q (i + 1)) i j = cholRow Q (rowsFn (cholRows D Q i)) i j := by
  rw [cholRows]
  have := rowsFn_push_eq (cholRows D Q i) (((List.range D).map (cholRow Q (rowsFn (cholRows D Q i)) i)).toArray)
  rw [cholRows_size] at this
  rw [this]
  simp [Array.getD_eq_getD_getElem?, hj]

/-- `cholRow` reads only the rows above `i` -/
theorem cholRow_congr (Q U U' : ℕ → ℕ → ℝ) (i : ℕ) (h : ∀ k, k < i → U k = U' k) : cholRow Q U i = cholRow Q U' i := by
  funext j
  unfold cholRow
  have e1 : sumN i (fun k => U k i * U k j) = sumN i (fun k => U' k i * U' k j) := by
    rw [sumN_eq, sumN_eq]; exact sum_congr rfl (fun k hk => by rw [h k (mem_range.mp hk)])
  have e2 : sumN i (fun k => U k i * U k i) = sumN i (fun k => U' k i * U' k i) := by
    rw [sumN_eq, sumN_eq]; exact sum_congr rfl (fun k hk => by rw [h k (mem_range.mp hk)])
  simp only [e1, e2]

/-- the fixed-point equation: every entry of the factor is `cholRow` applied to the factor itself -/
theorem chol_fix (D : ℕ) (Q : ℕ → ℕ → ℝ) (i j : ℕ) (hi : i < D) (hj : j < D) :
    chol D Q i j = cholRow Q (chol D Q) i j := by
  unfold chol
  rw [cholRows_stable D Q i D hi, cholRows_new D Q i j hj]
  have : cholRow Q (rowsFn (cholRows D Q i)) i = cholRow Q (rowsFn (cholRows D Q D)) i := by
    apply cholRow_congr
    intro k hk
    rw [cholRows_stable D Q k i hk, cholRows_stable D Q k D (by omega)]
  rw [this]

/-! ### correctness from the fixed-point equation -/

/-- the `i`-th pivot -/
noncomputable def pivot (Q U : ℕ → ℕ → ℝ) (i : ℕ) : ℝ := Q i i - ∑ k ∈ range i, U k i * U k i

structure CholOK (D : ℕ) (Q U : ℕ → ℕ → ℝ) : Prop where
  upper : UpperTri D U
  diag_pos : ∀ i, i < D → 0 < U i i
  gram : ∀ i j, i < D → j < D → ∑ k ∈ range D, U k i * U k j = Q i j

theorem chol_entries (D : ℕ) (Q : ℕ → ℕ → ℝ) (i j : ℕ) (hi : i < D) (hj : j < D) :
    chol D Q i j = if j < i then 0
      else if j = i then Real.sqrt (pivot Q (chol D Q) i)
      else (Q i j - ∑ k ∈ range i, chol D Q k i * chol D Q k j) / Real.sqrt (pivot Q (chol D Q) i) := by
  rw [chol_fix D Q i j hi hj]
  unfold cholRow pivot
  simp only [sumN_eq, sqrt_real]

theorem chol_ok (D : ℕ) (Q : ℕ → ℕ → ℝ) (hsym : ∀ i j, i < D → j < D → Q i j = Q j i)
    (hpiv : ∀ i, i < D → 0 < pivot Q (chol D Q) i) : CholOK D Q (chol D Q) := by
  have hup : UpperTri D (chol D Q) := by
    intro i j hi hji
    rw [chol_entries D Q i j hi (by omega), if_pos hji]
  have hdiag : ∀ i, i < D → chol D Q i i = Real.sqrt (pivot Q (chol D Q) i) := by
    intro i hi
    rw [chol_entries D Q i i hi hi, if_neg (lt_irrefl i), if_pos rfl]
  have hdpos : ∀ i, i < D → 0 < chol D Q i i := fun i hi => by
    rw [hdiag i hi]; exact Real.sqrt_pos.mpr (hpiv i hi)
  have hsq : ∀ i, i < D → chol D Q i i * chol D Q i i = pivot Q (chol D Q) i := fun i hi => by
    rw [hdiag i hi]; exact Real.mul_self_sqrt (le_of_lt (hpiv i hi))
  -- the Gram identity for i ≤ j
  have key : ∀ i j, i < D → j < D → i ≤ j → ∑ k ∈ range D, chol D Q k i * chol D Q k j = Q i j := by
    intro i j hi hj hij
    have hcut : ∑ k ∈ range D, chol D Q k i * chol D Q k j = ∑ k ∈ range (i + 1), chol D Q k i * chol D Q k j := by
      symm
      apply sum_subset (range_subset_range.mpr (by omega))
      intro k hk hnk
      have hkD : k < D := mem_range.mp hk
      have hik : i < k := by
        by_contra h
        exact hnk (mem_range.mpr (by omega))
      rw [hup k i hkD hik, zero_mul]
    rw [hcut, sum_range_succ]
    by_cases hje : j = i
    · subst hje
      rw [hsq j hi]; unfold pivot; ring
    · have hlt : i < j := by omega
      have hne : chol D Q i i ≠ 0 := ne_of_gt (hdpos i hi)
      have hij' : chol D Q i j = (Q i j - ∑ k ∈ range i, chol D Q k i * chol D Q k j) / chol D Q i i := by
        rw [chol_entries D Q i j hi hj, if_neg (by omega), if_neg hje, ← hdiag i hi]
      rw [hij']
      field_simp
      ring
  refine ⟨hup, hdpos, fun i j hi hj => ?_⟩
  by_cases hij : i ≤ j
  · exact key i j hi hj hij
  · rw [hsym i j hi hj, ← key j i hj hi (by omega)]
    exact sum_congr rfl (fun k _ => mul_comm _ _)

/-- in matrix form: the hypotheses of `C08_mvn_sample` -/
theorem cholOK_matrix (D : ℕ) (Q U : ℕ → ℕ → ℝ) (h : CholOK D Q U) :
    (∀ i, i < D → U i i ≠ 0) ∧ (toMat D U)ᵀ * toMat D U = toMat D Q := by
  refine ⟨fun i hi => ne_of_gt (h.diag_pos i hi), ?_⟩
  ext a b
  simp only [Matrix.mul_apply, Matrix.transpose_apply, toMat, Matrix.of_apply]
  rw [Fin.sum_univ_eq_sum_range (fun k => U k a * U k b) D]
  exact h.gram a b a.isLt b.isLt

/-! ### positive definite 1×1 and 2×2 input has positive pivots -/

theorem pivots_1x1 (Q : ℕ → ℕ → ℝ) (h : 0 < Q 0 0) : ∀ i, i < 1 → 0 < pivot Q (chol 1 Q) i := by
  intro i hi
  have : i = 0 := by omega
  subst this
  simp [pivot, h]

theorem pivots_2x2 (Q : ℕ → ℕ → ℝ) (h0 : 0 < Q 0 0) (hdet : 0 < Q 0 0 * Q 1 1 - Q 0 1 * Q 0 1) :
    ∀ i, i < 2 → 0 < pivot Q (chol 2 Q) i := by
  intro i hi
  have h00 : pivot Q (chol 2 Q) 0 = Q 0 0 := by simp [pivot]
  rcases (by omega : i = 0 ∨ i = 1) with rfl | rfl
  · rw [h00]; exact h0
  · have e01 : chol 2 Q 0 1 = Q 0 1 / Real.sqrt (Q 0 0) := by
      rw [chol_entries 2 Q 0 1 (by omega) (by omega), h00]; simp
    have hs : Real.sqrt (Q 0 0) * Real.sqrt (Q 0 0) = Q 0 0 := Real.mul_self_sqrt (le_of_lt h0)
    have hsne : Real.sqrt (Q 0 0) ≠ 0 := ne_of_gt (Real.sqrt_pos.mpr h0)
    have hsq : (Q 0 1 / Real.sqrt (Q 0 0)) * (Q 0 1 / Real.sqrt (Q 0 0)) = Q 0 1 * Q 0 1 / Q 0 0 := by
      rw [div_mul_div_comm, hs]
    have : pivot Q (chol 2 Q) 1 = (Q 0 0 * Q 1 1 - Q 0 1 * Q 0 1) / Q 0 0 := by
      unfold pivot
      rw [sum_range_one, e01, hsq]
      field_simp
    rw [this]
    exact div_pos hdet h0

end Batchie.Gibbs
