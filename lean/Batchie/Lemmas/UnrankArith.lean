/-
  C15 -- arithmetic facts about binomial coefficients used by the loop invariants of the
  translated unranking generator (DESIGN.md appendix A.1), and the shape of the three
  `pyRange` lists its loops run over.
-/
import Mathlib.Data.Nat.Choose.Basic
import Mathlib.Tactic.Ring
import Mathlib.Tactic.Linarith
import Mathlib.Tactic.Push
import Batchie.Model.PyInt

namespace Batchie.Lemmas.Unrank

open Batchie.PyInt

/-- `C(n-1,k-1)·(n-k) = k·C(n-1,k)`: the multiply step of the inner loop; it shows that the
    remainder subtracted by `n_ck -= n_ck % k` is zero. -/
theorem choose_step (n k : Nat) (hk : 1 ≤ k) (hn : k + 1 ≤ n) :
    (n-1).choose (k-1) * (n - k) = k * (n-1).choose k := by
  obtain ⟨m, rfl⟩ : ∃ m, n = m + 1 := ⟨n-1, by omega⟩
  obtain ⟨j, rfl⟩ : ∃ j, k = j + 1 := ⟨k-1, by omega⟩
  simp only [Nat.add_sub_cancel]
  have h1 := Nat.choose_succ_right_eq m j
  have : m + 1 - (j+1) = m - j := by omega
  rw [this]; linarith

/-- `k·C(n,k) = n·C(n-1,k-1)`: the divide step (`n_ck *= k; n_ck //= n`). -/
theorem choose_div (n k : Nat) (hk : 1 ≤ k) (hn : 1 ≤ n) :
    k * n.choose k = n * (n-1).choose (k-1) := by
  obtain ⟨m, rfl⟩ : ∃ m, n = m + 1 := ⟨n-1, by omega⟩
  obtain ⟨j, rfl⟩ : ∃ j, k = j + 1 := ⟨k-1, by omega⟩
  simp only [Nat.add_sub_cancel]
  have := Nat.add_one_mul_choose_eq m j
  linarith

/-- Pascal's rule in the `n-1`, `k-1` form the loops use. -/
theorem pascal (n k : Nat) (hk : 1 ≤ k) (hn : 1 ≤ n) :
    n.choose k = (n-1).choose (k-1) + (n-1).choose k := by
  obtain ⟨m, rfl⟩ : ∃ m, n = m + 1 := ⟨n-1, by omega⟩
  obtain ⟨j, rfl⟩ : ∃ j, k = j + 1 := ⟨k-1, by omega⟩
  simp [Nat.choose_succ_succ]

/-- the first loop's step: `C(n,i)·(n-i) = (i+1)·C(n,i+1)`. -/
theorem choose_first (n i : Nat) : n.choose i * (n - i) = (i + 1) * n.choose (i + 1) := by
  have := Nat.choose_succ_right_eq n i
  linarith

/-- exact floor division of a product by its (positive) left factor -/
theorem fdiv_mul_cancel_left (a b : Int) (ha : 0 < a) : Int.fdiv (a * b) a = b := by
  rw [Int.fdiv_eq_ediv_of_nonneg _ (le_of_lt ha), Int.mul_ediv_cancel_left _ (ne_of_gt ha)]

/-- floor remainder of a multiple is zero -/
theorem fmod_mul_self_left (a b : Int) (ha : 0 < a) : Int.fmod (a * b) a = 0 := by
  rw [Int.fmod_eq_emod_of_nonneg _ (le_of_lt ha)]; exact Int.mul_emod_right _ _

/-! ### the `range(...)` lists of the three loops -/

theorem pyRangeLen_down (a : Int) (k : Nat) : pyRangeLen a (a - k) (-1) = k := by
  unfold pyRangeLen
  simp only [show ¬ ((-1 : Int) > 0) by decide, if_false, show ((-1 : Int) < 0) by decide, if_true]
  by_cases hk : k = 0
  · subst hk; simp
  · have : a > a - (k : Int) := by omega
    simp only [this, if_true]
    have : (a - (a - (k:Int)) + - -1 - 1) / - -1 = (k : Int) := by
      simp
    rw [this]; simp

theorem pyRangeLen_up (k : Nat) : pyRangeLen 1 ((k : Int) + 1) 1 = k := by
  unfold pyRangeLen
  simp only [show ((1 : Int) > 0) by decide, if_true]
  by_cases hk : k = 0
  · subst hk; simp
  · have : (1 : Int) < (k : Int) + 1 := by omega
    simp only [this, if_true]
    have : ((k : Int) + 1 - 1 + 1 - 1) / 1 = (k : Int) := by simp
    rw [this]; simp

/-- `range(a, a-k, -1) = [a, a-1, …, a-k+1]` -/
theorem pyRange_down (a : Int) (k : Nat) :
    pyRange a (a - k) (-1) = (List.range k).map (fun (i : Nat) => a - (i : Int)) := by
  unfold pyRange
  rw [pyRangeLen_down]
  apply List.map_congr_left
  intro i _; ring

/-- `range(1, k+1) = [1, …, k]` -/
theorem pyRange_up (k : Nat) :
    pyRange 1 ((k : Int) + 1) 1 = (List.range k).map (fun (i : Nat) => (i : Int) + 1) := by
  unfold pyRange
  rw [pyRangeLen_up]
  apply List.map_congr_left
  intro i _; ring

/-- `[k, k-1, …, 1]` as integers -/
def down : Nat → List Int
  | 0 => []
  | k + 1 => ((k + 1 : Nat) : Int) :: down k

theorem range_map_down (k : Nat) :
    (List.range k).map (fun (i : Nat) => ((k : Nat) : Int) - (i : Int)) = down k := by
  induction k with
  | zero => rfl
  | succ k ih =>
    rw [List.range_succ_eq_map, List.map_cons, List.map_map, down]
    congr 1
    rw [← ih]
    apply List.map_congr_left
    intro i _; simp only [Function.comp]; push_cast; ring

/-- `range(k, 0, -1) = [k, k-1, …, 1]` -/
theorem pyRange_k_down (k : Nat) : pyRange (k : Int) 0 (-1) = down k := by
  have h := pyRange_down (k : Int) k
  rw [sub_self] at h
  rw [h, range_map_down]

end Batchie.Lemmas.Unrank
