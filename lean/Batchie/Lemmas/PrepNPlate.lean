/-
  C13 helper lemmas, part 7: NPlatePerCellLineSmoother.
-/
import Batchie.Lemmas.PrepWrap
namespace Batchie.Prep
open Batchie.Proto Batchie.Screen
theorem mapM_ok {α β : Type} (f : α → Except Err β) (l : List α) (ys : List β) (h : l.mapM f = .ok ys) :
    ys.length = l.length ∧ ∀ i (h1 : i < l.length) (h2 : i < ys.length), f l[i] = .ok ys[i] := by
  induction l generalizing ys with
  | nil =>
    simp only [List.mapM_nil, pure, Except.pure] at h
    cases h
    exact ⟨rfl, fun i h1 => absurd h1 (by simp)⟩
  | cons a l ih =>
    rw [List.mapM_cons] at h
    obtain ⟨y, hy, h⟩ := bind_ok h
    obtain ⟨ys', hys, h⟩ := bind_ok h
    cases h
    obtain ⟨hl, hi⟩ := ih ys' hys
    refine ⟨by simp [hl], ?_⟩
    intro i h1 h2
    cases i with
    | zero => simpa using hy
    | succ i => simpa using hi i (by simpa using h1) (by simpa using h2)

theorem eraseDups_singleton_of_length_le_one {α : Type} [BEq α] [LawfulBEq α] (l : List α) (y : α) (rest : List α)
    (h1 : l.eraseDups.length ≤ 1) (h2 : l.eraseDups = y :: rest) : ∀ v ∈ l, v = y := by
  intro v hv
  have : v ∈ l.eraseDups := List.mem_eraseDups.mpr hv
  rw [h2] at this h1
  have hr : rest = [] := by
    cases rest with
    | nil => rfl
    | cons _ _ => simp at h1
  subst hr
  simpa using this

theorem plateSampleId_ok {sids : List Int} {q : List Nat} {y : Int} (h : plateSampleId sids q = .ok y) :
    q ≠ [] ∧ ∀ i ∈ q, sids[i]! = y := by
  unfold plateSampleId at h
  simp only at h
  split at h
  · cases h
  · rename_i hlen
    split at h
    · rename_i x rest he
      cases h
      have := eraseDups_singleton_of_length_le_one _ _ _ (by omega) he
      refine ⟨?_, fun i hi => this _ (List.mem_map_of_mem hi)⟩
      intro e; subst e; simp at he
    · cases h

/-- distinct plate names on the rows of sample `σ` -/
def distinctPlates (rows : List Row) (σ : Name) : List Name :=
  ((rows.filter (fun r => r.sample == σ)).map (·.plate)).eraseDups

/-- sample id of the first row of the plate with id `x` -/
def headSample (sids pids : List Int) (x : Int) : Int := sids[(idxOfId pids x).head!]!

theorem length_eq_of_nodup_mem_iff {α : Type} {l₁ l₂ : List α} (d₁ : l₁.Nodup) (d₂ : l₂.Nodup) (h : ∀ a, a ∈ l₁ ↔ a ∈ l₂) :
    l₁.length = l₂.length :=
  ((List.perm_ext_iff_of_nodup d₁ d₂).mpr h).length_eq

theorem nodup_map_on' {α β : Type} (f : α → β) (l : List α) (hinj : ∀ a ∈ l, ∀ b ∈ l, f a = f b → a = b) (h : l.Nodup) :
    (l.map f).Nodup := by
  induction l with
  | nil => simp
  | cons a l ih =>
    rw [List.nodup_cons] at h
    rw [List.map_cons, List.nodup_cons]
    refine ⟨?_, ih (fun x hx y hy => hinj x (List.mem_cons_of_mem _ hx) y (List.mem_cons_of_mem _ hy)) h.2⟩
    intro hm
    obtain ⟨b, hb, e⟩ := List.mem_map.mp hm
    have := hinj b (List.mem_cons_of_mem _ hb) a List.mem_cons_self e
    exact h.1 (this ▸ hb)

/-- the per-plate sample ids computed by the smoother, and the single-sample fact their computation certifies -/
theorem psids_spec {sids pids : List Int} {psids : List Int}
    (h : ((uniqueSorted pids).map (idxOfId pids)).mapM (plateSampleId sids) = .ok psids) :
    psids = (uniqueSorted pids).map (headSample sids pids) ∧
      ∀ i (hi : i < pids.length), sids[i]! = headSample sids pids pids[i] := by
  obtain ⟨hl, hpt⟩ := mapM_ok _ _ _ h
  rw [List.length_map] at hl
  have key : ∀ j (hj : j < (uniqueSorted pids).length),
      (idxOfId pids (uniqueSorted pids)[j]) ≠ [] ∧ ∀ i ∈ idxOfId pids (uniqueSorted pids)[j], sids[i]! = psids[j]'(hl ▸ hj) := by
    intro j hj
    have := hpt j (by simpa using hj) (hl ▸ hj)
    rw [List.getElem_map] at this
    exact plateSampleId_ok this
  have hhead : ∀ j (hj : j < (uniqueSorted pids).length), headSample sids pids (uniqueSorted pids)[j] = psids[j]'(hl ▸ hj) := by
    intro j hj
    obtain ⟨hne, hall⟩ := key j hj
    unfold headSample
    apply hall
    cases hq : idxOfId pids (uniqueSorted pids)[j] with
    | nil => exact absurd hq hne
    | cons a t => exact List.mem_cons.mpr (Or.inl rfl)
  constructor
  · apply List.ext_getElem (by simp [hl])
    intro j h1 h2
    rw [List.getElem_map]
    exact (hhead j (by simpa using h2)).symm
  · intro i hi
    have hx : pids[i] ∈ uniqueSorted pids := mem_uniqueSorted.mpr (List.getElem_mem hi)
    obtain ⟨j, hj, e⟩ := List.getElem_of_mem hx
    rw [← e, hhead j hj]
    exact (key j hj).2 i (mem_idxOfId.mpr ⟨hi, e.symm⟩)

/-- number of plates the smoother attributes to the sample of row `i` = number of distinct plate names on that sample's rows -/
theorem count_psids (rows : List Row) (sids pids : List Int) (g f : Name → Int)
    (hs : sids = (rows.map (·.sample)).map g) (hp : pids = (rows.map (·.plate)).map f)
    (hg : ∀ a ∈ rows.map (·.sample), ∀ b ∈ rows.map (·.sample), g a = g b → a = b)
    (hf : ∀ a ∈ rows.map (·.plate), ∀ b ∈ rows.map (·.plate), f a = f b → a = b)
    (hsingle : ∀ i (hi : i < pids.length), sids[i]! = headSample sids pids pids[i])
    (r : Row) (hr : r ∈ rows) :
    ((uniqueSorted pids).map (headSample sids pids)).count (g r.sample) = (distinctPlates rows r.sample).length ∧
      g r.sample ∈ (uniqueSorted pids).map (headSample sids pids) := by
  have hpl : pids.length = rows.length := by rw [hp]; simp
  have hsl : sids.length = rows.length := by rw [hs]; simp
  have hsid : ∀ i (hi : i < rows.length), sids[i]! = g rows[i].sample := by
    intro i hi
    rw [getElem!_pos sids i (hsl ▸ hi)]; simp [hs]
  have hpid : ∀ i (hi : i < rows.length), pids[i]'(hpl ▸ hi) = f rows[i].plate := by
    intro i hi; simp [hp]
  constructor
  · rw [List.count_eq_length_filter, List.filter_map, List.length_map]
    have hnd2 : ((distinctPlates rows r.sample).map f).Nodup := by
      apply nodup_map_on' _ _ _ (nodup_eraseDups _)
      intro a ha b hb
      have ha' : a ∈ rows.map (·.plate) := by
        have := List.mem_eraseDups.mp ha
        obtain ⟨x, hx, rfl⟩ := List.mem_map.mp this
        exact List.mem_map_of_mem (List.mem_filter.mp hx).1
      have hb' : b ∈ rows.map (·.plate) := by
        have := List.mem_eraseDups.mp hb
        obtain ⟨x, hx, rfl⟩ := List.mem_map.mp this
        exact List.mem_map_of_mem (List.mem_filter.mp hx).1
      exact hf a ha' b hb'
    rw [← List.length_map (as := distinctPlates rows r.sample) f]
    apply length_eq_of_nodup_mem_iff (List.Nodup.sublist List.filter_sublist (nodup_uniqueSorted _)) hnd2
    intro x
    simp only [List.mem_filter, mem_uniqueSorted, Function.comp, beq_iff_eq, List.mem_map, distinctPlates, List.mem_eraseDups]
    constructor
    · rintro ⟨hx, hh⟩
      obtain ⟨i, hi, rfl⟩ := List.getElem_of_mem hx
      have hi' : i < rows.length := hpl ▸ hi
      have h1 := hsingle i hi
      rw [hh, hsid i hi'] at h1
      have hsm : rows[i].sample = r.sample :=
        hg _ (List.mem_map_of_mem (List.getElem_mem hi')) _ (List.mem_map_of_mem hr) h1
      exact ⟨rows[i].plate, ⟨rows[i], ⟨List.getElem_mem hi', hsm⟩, rfl⟩, (hpid i hi').symm⟩
    · rintro ⟨p, ⟨x', ⟨hx', hsm⟩, rfl⟩, rfl⟩
      obtain ⟨i, hi, rfl⟩ := List.getElem_of_mem hx'
      have hi2 : i < pids.length := hpl ▸ hi
      refine ⟨(hpid i hi) ▸ List.getElem_mem hi2, ?_⟩
      rw [← hpid i hi, ← hsingle i hi2, hsid i hi, hsm]
  · obtain ⟨i, hi, rfl⟩ := List.getElem_of_mem hr
    have hi2 : i < pids.length := hpl ▸ hi
    rw [← hsid i hi, hsingle i hi2]
    exact List.mem_map_of_mem (mem_uniqueSorted.mpr (List.getElem_mem hi2))

theorem nPlate_sublist {minN : Int} {u nu : Screen} (h : nPlate minN u = .ok nu) : (rowsOf nu).Sublist (rowsOf u) := by
  unfold nPlate at h
  obtain ⟨psids, _, h⟩ := bind_ok h
  simp only at h
  split at h
  · cases h; exact List.Sublist.refl _
  · exact (select_ok h).rows_eq ▸ maskFilter_sublist _ _

/-- **NPlatePerCellLineSmoother**, complete characterisation: exactly the experiments of the samples that have at least
    `minN` (distinct) plates are kept, in order, untouched -/
theorem nPlate_spec {c : Name} {a : Nat} {rows : List Row} {u nu : Screen} {minN : Int}
    (hu : build c a rows = .ok u) (h : nPlate minN u = .ok nu) :
    rowsOf nu = rows.filter (fun r => decide (minN ≤ ((distinctPlates rows r.sample).length : Int))) := by
  have B := build_ok hu
  unfold nPlate at h
  obtain ⟨psids, hps, h⟩ := bind_ok h
  unfold plateIdx at hps
  obtain ⟨hpsids, hsingle⟩ := psids_spec hps
  have hcount := count_psids rows u.sids u.pids _ _ B.sids_eq B.pids_eq
    (fun a ha b hb => sId_inj _ a b ha hb) (fun a ha b hb => sId_inj _ a b ha hb) hsingle
  rw [← hpsids] at hcount
  generalize hg : sId (freshSMap (rows.map (·.sample))) = g at hcount
  have hkeep : ∀ r ∈ rows,
      (!(List.filter (fun x => decide ((psids.count x : Int) < minN)) psids.eraseDups).contains (g r.sample))
        = decide (minN ≤ ((distinctPlates rows r.sample).length : Int)) := by
    intro r hr
    obtain ⟨hc, hm⟩ := hcount r hr
    rw [Bool.eq_iff_iff]
    simp only [Bool.not_eq_true', decide_eq_true_eq, List.contains_eq_mem, decide_eq_false_iff_not, List.mem_filter,
      List.mem_eraseDups, not_and, Int.not_lt]
    rw [← hc]
    constructor
    · intro h; exact h hm
    · intro h _; exact h
  simp only at h
  split at h
  · rename_i hempty
    cases h
    rw [B.rows_eq]
    symm
    apply filter_eq_self_of_forall
    intro r hr
    rw [← hkeep r hr]
    have : List.filter (fun x => decide ((psids.count x : Int) < minN)) psids.eraseDups = [] := by simpa using hempty
    rw [this]; rfl
  · rw [(select_ok h).rows_eq, B.rows_eq, B.sids_eq, hg, List.map_map, List.map_map, maskFilter_map_pred]
    apply List.filter_congr
    intro r hr
    exact hkeep r hr

/-- consequence: no sample is left with fewer plates than configured -/
theorem nPlate_min {c : Name} {a : Nat} {rows : List Row} {u nu : Screen} {minN : Int}
    (hu : build c a rows = .ok u) (h : nPlate minN u = .ok nu) :
    ∀ r ∈ rowsOf nu, minN ≤ ((distinctPlates (rowsOf nu) r.sample).length : Int) := by
  intro r hr
  rw [nPlate_spec hu h] at hr ⊢
  obtain ⟨hr1, hr2⟩ := List.mem_filter.mp hr
  have : distinctPlates (rows.filter (fun r => decide (minN ≤ ((distinctPlates rows r.sample).length : Int)))) r.sample
      = distinctPlates rows r.sample := by
    unfold distinctPlates
    rw [List.filter_filter]
    congr 2
    apply List.filter_congr
    intro x hx
    by_cases e : x.sample = r.sample
    · simp only [e, BEq.rfl, Bool.true_and]
      exact hr2
    · simp [e]
  rw [this]
  simpa using hr2

end Batchie.Prep
