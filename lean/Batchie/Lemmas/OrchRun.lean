/-
  C19 -- whole executions: the invariant along `runSched`, and the uninterrupted run.
-/
import Batchie.Lemmas.OrchInv

namespace Batchie.Orchestrator

variable (cfg : Cfg)

theorem runSched_cons (k : Option Nat) (ks : List (Option Nat)) (t : Tree) (tr : List Event) :
    runSched cfg (k :: ks) t tr =
      if (invoke cfg k t).halted = true then ⟨(invoke cfg k t).tree, tr ++ (invoke cfg k t).events, true⟩
      else runSched cfg ks (invoke cfg k t).tree (tr ++ (invoke cfg k t).events) := rfl


/-- **one call of the step function (including `makedirs(outdir)`), interrupted anywhere** -/
theorem invoke_inv (hml : MarkerLast cfg) (hB : 1 ≤ cfg.B) {t : Tree} {tr : List Event} {p : Prog} {jk : Junk}
    (h : GI cfg t tr p jk) (k : Option Nat) :
    ∃ p' jk', GI cfg (invoke cfg k t).tree (tr ++ (invoke cfg k t).events) p' jk' := by
  unfold invoke
  by_cases hout : t.out = true
  · rw [if_pos hout]; exact invokeCore_inv cfg hml hB h hout k
  · rw [if_neg hout]
    have hout' : t.out = false := by simpa using hout
    by_cases hd : doneB k [Action.mkdirOut] = true
    · rw [if_pos hd]
      have h' : GI cfg (Action.mkdirOut.apply t) tr p jk :=
        { iters := h.iters, junk := h.junk, jkcur := h.jkcur, out := (by intro hh; cases hh),
          crun := h.crun, comp := h.comp, launched := h.launched, noScript := h.noScript, userSafe := h.userSafe,
          lord := h.lord }
      exact invokeCore_inv cfg hml hB h' rfl _
    · rw [if_neg hd]
      exact ⟨p, jk, by simpa using h⟩

/-- **any number of calls, each interrupted anywhere (or not)** -/
theorem runSched_inv (hml : MarkerLast cfg) (hB : 1 ≤ cfg.B) (sched : List (Option Nat)) :
    ∀ {t : Tree} {tr : List Event} {p : Prog} {jk : Junk}, GI cfg t tr p jk →
      ∃ p' jk', GI cfg (runSched cfg sched t tr).tree (runSched cfg sched t tr).events p' jk' := by
  induction sched with
  | nil => intro t tr p jk h; exact ⟨p, jk, h⟩
  | cons k ks ih =>
    intro t tr p jk h
    obtain ⟨p', jk', h'⟩ := invoke_inv cfg hml hB h k
    rw [runSched_cons]
    split
    · exact ⟨p', jk', h'⟩
    · exact ih h'

/-- **any number of process runs, each with any number of interruptions** -/
theorem runProcs_inv (hml : MarkerLast cfg) (hB : 1 ≤ cfg.B) (scheds : List (List (Option Nat))) :
    ∀ {t : Tree} {tr : List Event} {p : Prog} {jk : Junk}, GI cfg t tr p jk →
      ∃ p' jk', GI cfg (runProcs cfg scheds t tr).1 (runProcs cfg scheds t tr).2 p' jk' := by
  induction scheds with
  | nil => intro t tr p jk h; exact ⟨p, jk, h⟩
  | cons s ss ih =>
    intro t tr p jk h
    obtain ⟨p', jk', h'⟩ := runSched_inv cfg hml hB s h
    exact ih h'

/-! ## the uninterrupted run -/

theorem runSched_append (a b : List (Option Nat)) :
    ∀ (t : Tree) (tr : List Event), (runSched cfg a t tr).halted = false →
      runSched cfg (a ++ b) t tr = runSched cfg b (runSched cfg a t tr).tree (runSched cfg a t tr).events := by
  induction a with
  | nil => intro t tr _; rfl
  | cons k ks ih =>
    intro t tr hh
    by_cases hhalt : (invoke cfg k t).halted = true
    · rw [runSched_cons, if_pos hhalt] at hh; simp at hh
    · rw [runSched_cons, if_neg hhalt] at hh
      rw [List.cons_append, runSched_cons, if_neg hhalt, runSched_cons, if_neg hhalt]
      exact ih _ _ hh

/-- an uninterrupted call on a clean directory performs the planned step completely -/
theorem invokeCore_none_clean (hml : MarkerLast cfg) (hB : 1 ≤ cfg.B) {p : Prog} (hc : CRun cfg p)
    (hf : ¬ isFinished cfg p) {l : Launch} (hl : planLaunch cfg p = .ok l) :
    invokeCore cfg none ⟨true, treeIters cfg p .none⟩ =
      ⟨⟨true, treeIters cfg (p.push cfg.B l) .none⟩, [.launched l, .completed l],
        decide (cfg.mode = .prospective ∧ ¬ (l.plate + 1 < cfg.B))⟩ := by
  have hm := hml.hasMarker
  have hp := hc.ok cfg hB
  unfold invokeCore
  rw [planStep_quiet cfg hm hB p hp (hc.wf cfg) .none (Or.inl rfl), if_neg hf, hl]
  simp only [takeB, doneB, restB, Option.map_none, Bool.not_true, Bool.false_eq_true, ↓reduceIte]
  obtain ⟨jk', happ, _, _, hdone⟩ := pre_take cfg p .none (Or.inl rfl) (preOf p .none).length
  rw [List.take_length] at happ
  rw [happ, hdone (Nat.le_refl _)]
  have hpub := (pub_take cfg hml p l (planLaunch_allowed cfg hl) (planLaunch_pos cfg hl) (pubActions cfg l).length).2 (Nat.le_refl _)
  rw [List.take_length] at hpub
  rw [hpub]
  have hrem : removalEvents (preOf p .none) = [] := by
    have := removalEvents_preOf_take p .none (preOf p .none).length
    rwa [List.take_length] at this
  rw [hrem]
  rfl

theorem invoke_none_clean (hml : MarkerLast cfg) (hB : 1 ≤ cfg.B) {p : Prog} (hc : CRun cfg p)
    (hf : ¬ isFinished cfg p) {l : Launch} (hl : planLaunch cfg p = .ok l) (o : Bool) (ho : o = false → p = Prog.empty) :
    invoke cfg none ⟨o, treeIters cfg p .none⟩ =
      ⟨⟨true, treeIters cfg (p.push cfg.B l) .none⟩, [.launched l, .completed l],
        decide (cfg.mode = .prospective ∧ ¬ (l.plate + 1 < cfg.B))⟩ := by
  unfold invoke
  cases o with
  | true => simp only [↓reduceIte]; exact invokeCore_none_clean cfg hml hB hc hf hl
  | false =>
    simp only [Bool.false_eq_true, ↓reduceIte, doneB, restB, Option.map_none, Action.apply]
    exact invokeCore_none_clean cfg hml hB hc hf hl

/-- the clean directory holding exactly the steps `p` (`Tree.empty` before the first call) -/
def cleanTree (p : Prog) : Tree := if p = Prog.empty then Tree.empty else ⟨true, treeIters cfg p .none⟩

theorem cleanTree_eq (p : Prog) : cleanTree cfg p = ⟨decide (p ≠ Prog.empty), treeIters cfg p .none⟩ := by
  unfold cleanTree
  by_cases h : p = Prog.empty
  · subst h; simp [Tree.empty, treeIters, lastIter, Prog.empty, itersFrom]
  · simp [h]

theorem Prog.push_ne_empty (B : Nat) (p : Prog) (l : Launch) : p.push B l ≠ Prog.empty := by
  intro h
  have := congrArg Prog.flat h
  rw [Prog.flat_push] at this
  simp [Prog.empty, Prog.flat] at this

/-- **every `CRun` is what `n` uninterrupted calls of the step function produce** (retrospective mode: the
    loop of `main` never ends by itself before the run is finished) -/
theorem uninterrupted_reaches (hml : MarkerLast cfg) (hB : 1 ≤ cfg.B) (hmode : cfg.mode = .retrospective)
    {p : Prog} (hc : CRun cfg p) :
    ∃ r, runSched cfg (List.replicate p.flat.length none) Tree.empty [] = r ∧ r.halted = false ∧
      r.tree = cleanTree cfg p ∧ completedOf r.events = p.flat ∧ launchedOf r.events = p.flat := by
  induction hc with
  | nil =>
    exact ⟨_, rfl, rfl, rfl, rfl, rfl⟩
  | @push p l hc' hf hl ih =>
    obtain ⟨r, hr, hh, ht, hco, hla⟩ := ih
    rw [Prog.flat_push, List.length_append, List.length_singleton, List.replicate_succ',
      runSched_append cfg _ _ _ _ (by rw [hr]; exact hh), hr, ht]
    have hinv := invoke_none_clean cfg hml hB hc' hf hl (decide (p ≠ Prog.empty)) (by simp)
    rw [cleanTree_eq]
    unfold runSched
    simp only [hinv, hmode, reduceCtorEq, false_and, decide_false, Bool.false_eq_true, ↓reduceIte]
    unfold runSched
    refine ⟨_, rfl, rfl, ?_, ?_, ?_⟩
    · simp [cleanTree, Prog.push_ne_empty]
    · rw [completedOf_append, hco]; simp [completedOf]
    · rw [launchedOf_append, hla]; simp [launchedOf]

/-! ## the last completed step -/

theorem lastStep_push (B : Nat) (q : Prog) (l : Launch) :
    lastStep (q.push B l) = some (q.cs.length, q.cur.length, l) := by
  unfold Prog.push lastStep
  by_cases hb : q.cur.length + 1 = B
  · simp [hb]; omega
  · simp [hb]

theorem lastStep_of_CRun {p : Prog} (hc : CRun cfg p) :
    lastStep p = p.flat.getLast?.map (fun l => (l.iter, l.plate, l)) := by
  cases hc with
  | nil => simp [lastStep, Prog.empty, Prog.flat]
  | @push q l _ _ hl =>
    rw [lastStep_push, Prog.flat_push]
    have hpos := planLaunch_pos cfg hl
    simp [hpos.1, hpos.2]

theorem nextOfProg_of_CRun {p : Prog} (hc : CRun cfg p) :
    (∀ l, p.flat.getLast? = some l →
      (nextOfProg cfg p).lastMeta = metaOf ⟨l.plate, some (cfg.pubs l)⟩ ∧
      (nextOfProg cfg p).screen = (screenOf ⟨l.plate, some (cfg.pubs l)⟩).map (fun f => ⟨l.iter, l.plate, f⟩)) ∧
    (p.flat = [] → nextOfProg cfg p = ⟨0, 0, none, none⟩) := by
  have hls := lastStep_of_CRun cfg hc
  constructor
  · intro l hl
    unfold nextOfProg
    rw [hls, hl]
    simp
  · intro he
    unfold nextOfProg
    rw [hls, he]
    have h1 : p.cs.flatten = [] ∧ p.cur = [] := by simpa [Prog.flat] using he
    have hcs : p.cs.length = 0 := by
      cases hc with
      | nil => rfl
      | push _ _ _ => rw [Prog.flat_push] at he; simp at he
    simp [h1.2, hcs]

/-- retrospective mode: a step that is not the very first one is started from the screen `examine` returned -/
theorem launchOf_retro_screen {t : Tree} {nx : Next} {e : Option (List Nat)} {l : Launch}
    (h : launchOf .retrospective t nx e = .ok l) : (nx.iter = 0 ∧ nx.plate = 0) ∨ (l.screen = nx.screen ∧ l.screen ≠ none) := by
  unfold launchOf at h
  simp only at h
  split at h
  · rename_i h0; exact Or.inl h0
  · right
    split at h
    · split at h
      · cases h
      · split at h
        · cases h
        · rename_i s hs; injection h with h; subst h; simp [hs]
    · split at h
      · cases h
      · split at h
        · cases h
        · rename_i s hs; injection h with h; subst h; simp [hs]

theorem runSched_events_prefix (s : List (Option Nat)) :
    ∀ (t : Tree) (tr : List Event), tr <+: (runSched cfg s t tr).events := by
  induction s with
  | nil => intro t tr; exact List.prefix_refl _
  | cons k ks ih =>
    intro t tr
    rw [runSched_cons]
    split
    · exact List.prefix_append _ _
    · exact (List.prefix_append _ _).trans (ih _ _)

end Batchie.Orchestrator
