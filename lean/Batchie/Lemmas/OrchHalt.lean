/-
  C19 -- when `main`'s loop ends by itself (retrospective mode: `run_next_retrospective_step` returns False), the last
  completed step reported no unobserved plate.
-/
import Batchie.Lemmas.OrchRun

namespace Batchie.Orchestrator

variable (cfg : Cfg)

theorem invokeCore_halted_quiet (hml : MarkerLast cfg) (hB : 1 ≤ cfg.B) (hmode : cfg.mode = .retrospective)
    {tr : List Event} {p : Prog} {jk : Junk} (h : GI cfg ⟨true, treeIters cfg p jk⟩ tr p jk) (k : Option Nat)
    (hq : Quiet p jk) (hh : (invokeCore cfg k ⟨true, treeIters cfg p jk⟩).halted = true) :
    isFinished cfg p ∧
      GI cfg (invokeCore cfg k ⟨true, treeIters cfg p jk⟩).tree
        (tr ++ (invokeCore cfg k ⟨true, treeIters cfg p jk⟩).events) p jk := by
  have hm := hml.hasMarker
  have hp := h.crun.ok cfg hB
  have hps := planStep_quiet cfg hm hB p hp (h.crun.wf cfg) jk hq
  unfold invokeCore at hh ⊢
  rw [hps] at hh ⊢
  by_cases hf : isFinished cfg p
  · rw [if_pos hf]
    simp only
    exact ⟨hf, h.same cfg hB _ [Event.finished] h.junk h.jkcur rfl (by simp [launchedOf])
      (by intro e he; simp at he; subst he; intro i j hh; cases hh)
      (by intro e he; simp at he; subst he; intro i j hh; cases hh)⟩
  · exfalso
    rw [if_neg hf] at hh
    cases hpl : planLaunch cfg p with
    | err e => rw [hpl] at hh; simp at hh
    | ok l =>
      rw [hpl] at hh
      simp only at hh
      split at hh
      · simp at hh
      · split at hh
        · simp at hh
        · simp [hmode] at hh

theorem invokeCore_halted (hml : MarkerLast cfg) (hB : 1 ≤ cfg.B) (hmode : cfg.mode = .retrospective)
    {tr : List Event} {p : Prog} {jk : Junk} (h : GI cfg ⟨true, treeIters cfg p jk⟩ tr p jk) (k : Option Nat)
    (hh : (invokeCore cfg k ⟨true, treeIters cfg p jk⟩).halted = true) :
    isFinished cfg p ∧
      GI cfg (invokeCore cfg k ⟨true, treeIters cfg p jk⟩).tree
        (tr ++ (invokeCore cfg k ⟨true, treeIters cfg p jk⟩).events) p jk := by
  have hm := hml.hasMarker
  have hp := h.crun.ok cfg hB
  cases hjk : jk with
  | plate s =>
    subst hjk
    unfold invokeCore at hh
    rw [planStep_junk cfg hm hB p hp (h.crun.wf cfg) s h.junk true] at hh
    simp at hh
  | none => subst hjk; exact invokeCore_halted_quiet cfg hml hB hmode h k (Or.inl rfl) hh
  | emptyIter => subst hjk; exact invokeCore_halted_quiet cfg hml hB hmode h k (Or.inr ⟨rfl, h.jkcur rfl⟩) hh

/-- one call of the step function: either the loop goes on, or it ends and the completed steps are finished -/
theorem invoke_inv_halt (hml : MarkerLast cfg) (hB : 1 ≤ cfg.B) (hmode : cfg.mode = .retrospective)
    {t : Tree} {tr : List Event} {p : Prog} {jk : Junk} (h : GI cfg t tr p jk) (k : Option Nat) :
    ∃ p' jk', GI cfg (invoke cfg k t).tree (tr ++ (invoke cfg k t).events) p' jk' ∧
      ((invoke cfg k t).halted = true → isFinished cfg p') := by
  by_cases hh : (invoke cfg k t).halted = true
  · have key : ∀ (t' : Tree) (k' : Option Nat), GI cfg t' tr p jk → t'.out = true →
        (invokeCore cfg k' t').halted = true →
        ∃ p' jk', GI cfg (invokeCore cfg k' t').tree (tr ++ (invokeCore cfg k' t').events) p' jk' ∧ isFinished cfg p' := by
      intro t' k' h' hout hh'
      have ht : t' = ⟨true, treeIters cfg p jk⟩ := by
        cases t'; simp only [Tree.mk.injEq]; exact ⟨hout, h'.iters⟩
      subst ht
      obtain ⟨hf, hg⟩ := invokeCore_halted cfg hml hB hmode h' k' hh'
      exact ⟨p, jk, hg, hf⟩
    unfold invoke at hh ⊢
    by_cases hout : t.out = true
    · rw [if_pos hout] at hh ⊢
      obtain ⟨p', jk', hg, hf⟩ := key t k h hout hh
      exact ⟨p', jk', hg, fun _ => hf⟩
    · rw [if_neg hout] at hh ⊢
      by_cases hd : doneB k [Action.mkdirOut] = true
      · rw [if_pos hd] at hh ⊢
        have h' : GI cfg (Action.mkdirOut.apply t) tr p jk :=
          { iters := h.iters, junk := h.junk, jkcur := h.jkcur, out := (by intro hh; cases hh),
            crun := h.crun, comp := h.comp, launched := h.launched, noScript := h.noScript, userSafe := h.userSafe,
            lord := h.lord }
        obtain ⟨p', jk', hg, hf⟩ := key _ _ h' rfl hh
        exact ⟨p', jk', hg, fun _ => hf⟩
      · rw [if_neg hd] at hh
        simp at hh
  · obtain ⟨p', jk', hg⟩ := invoke_inv cfg hml hB h k
    exact ⟨p', jk', hg, fun h' => absurd h' hh⟩

/-- **whenever `main`'s loop has ended by itself, the run is finished**: the directory and the trace are those of an
    uninterrupted run `p` whose last step reported `n_unobserved_plates = 0` -/
theorem runSched_inv_halt (hml : MarkerLast cfg) (hB : 1 ≤ cfg.B) (hmode : cfg.mode = .retrospective)
    (sched : List (Option Nat)) :
    ∀ {t : Tree} {tr : List Event} {p : Prog} {jk : Junk}, GI cfg t tr p jk →
      ∃ p' jk', GI cfg (runSched cfg sched t tr).tree (runSched cfg sched t tr).events p' jk' ∧
        ((runSched cfg sched t tr).halted = true → isFinished cfg p') := by
  induction sched with
  | nil => intro t tr p jk h; exact ⟨p, jk, h, by intro hh; simp [runSched] at hh⟩
  | cons k ks ih =>
    intro t tr p jk h
    obtain ⟨p', jk', h', hf⟩ := invoke_inv_halt cfg hml hB hmode h k
    rw [runSched_cons]
    split
    · rename_i hh
      exact ⟨p', jk', h', fun _ => hf hh⟩
    · exact ih h'

end Batchie.Orchestrator
