/-
  `sample_mvn_from_precision`: the two triangular solves of `Model/Gibbs.lean` really solve their
  systems, and with Mathlib's matrix inverse the affine map applied to `z` is `U⁻¹ z + (UᵀU)⁻¹ b`.
-/
import Mathlib.LinearAlgebra.Matrix.NonsingularInverse
import Mathlib.LinearAlgebra.Matrix.Block
import Batchie.Lemmas.GibbsSum

namespace Batchie.Gibbs
open Finset Matrix

/-- `U` is upper triangular on the leading `D×D` block -/
def UpperTri (D : ℕ) (U : ℕ → ℕ → ℝ) : Prop := ∀ i j, i < D → j < i → U i j = 0

/-! ### arrays as functions -/

theorem getA_set (x : Array ℝ) (i : ℕ) (v : ℝ) (hi : i < x.size) :
    getA (x.setIfInBounds i v) = upd (getA x) i v := by
  funext j
  unfold getA upd
  simp only [Array.getD_eq_getD_getElem?, Array.getElem?_setIfInBounds]
  by_cases h : i = j
  · subst h; simp [hi]
  · have h' : ¬ j = i := fun e => h e.symm
    simp [h, h']

theorem backSub_size (D : ℕ) (U : ℕ → ℕ → ℝ) (z : ℕ → ℝ) (k : ℕ) : (backSub D U z k).size = D := by
  induction k with
  | zero => simp [backSub]
  | succ k ih => rw [backSub]; simp only [Array.size_setIfInBounds]; exact ih

theorem fwdSub_size (D : ℕ) (U : ℕ → ℕ → ℝ) (b : ℕ → ℝ) (k : ℕ) : (fwdSub D U b k).size = D := by
  induction k with
  | zero => simp [fwdSub]
  | succ k ih => rw [fwdSub]; simp only [Array.size_setIfInBounds]; exact ih

/-! ### back substitution -/

theorem backSub_succ (D : ℕ) (U : ℕ → ℕ → ℝ) (z : ℕ → ℝ) (k : ℕ) (hk : k + 1 ≤ D) :
    getA (backSub D U z (k + 1)) = upd (getA (backSub D U z k)) (D - (k + 1))
      ((z (D - (k + 1)) - ∑ j ∈ range D, (if D - (k + 1) < j then U (D - (k + 1)) j * getA (backSub D U z k) j else 0))
        / U (D - (k + 1)) (D - (k + 1))) := by
  rw [backSub]; simp only [sumN_eq]
  rw [getA_set _ _ _ (by rw [backSub_size]; omega)]

theorem backSub_spec (D : ℕ) (U : ℕ → ℕ → ℝ) (z : ℕ → ℝ) (hdiag : ∀ i, i < D → U i i ≠ 0) :
    ∀ k, k ≤ D → ∀ i, D - k ≤ i → i < D →
      U i i * getA (backSub D U z k) i + ∑ j ∈ range D, (if i < j then U i j * getA (backSub D U z k) j else 0) = z i := by
  intro k
  induction k with
  | zero => intro _ i h1 h2; omega
  | succ k ih =>
    intro hk i h1 h2
    rw [backSub_succ D U z k hk]
    set x := getA (backSub D U z k) with hx
    set i0 := D - (k + 1) with hi0
    have hsum : ∀ i', i0 ≤ i' → ∑ j ∈ range D, (if i' < j then U i' j * upd x i0
          ((z i0 - ∑ j ∈ range D, (if i0 < j then U i0 j * x j else 0)) / U i0 i0) j else 0)
        = ∑ j ∈ range D, (if i' < j then U i' j * x j else 0) := by
      intro i' hi'
      apply sum_congr rfl; intro j _
      by_cases hj : i' < j
      · simp only [hj, if_true]; rw [upd_other _ _ _ _ (by omega)]
      · simp only [hj, if_false]
    rw [hsum i (by omega)]
    by_cases hi : i = i0
    · rw [hi, upd_same, mul_div_cancel₀ _ (hdiag i0 (by omega))]; ring
    · rw [upd_other _ _ _ _ hi]
      exact ih (by omega) i (by omega) h2

theorem solveUpper_spec (D : ℕ) (U : ℕ → ℕ → ℝ) (z : ℕ → ℝ) (hU : UpperTri D U) (hdiag : ∀ i, i < D → U i i ≠ 0)
    (i : ℕ) (hi : i < D) : ∑ j ∈ range D, U i j * solveUpper D U z j = z i := by
  have h := backSub_spec D U z hdiag D (le_refl D) i (by omega) hi
  unfold solveUpper
  rw [← h]
  have : ∀ j ∈ range D, U i j * getA (backSub D U z D) j
      = (if j = i then U i i * getA (backSub D U z D) i else 0)
        + (if i < j then U i j * getA (backSub D U z D) j else 0) := by
    intro j _
    by_cases h1 : j = i
    · subst h1; simp
    · by_cases h2 : i < j
      · simp [h1, h2]
      · have : j < i := by omega
        simp [h1, h2, hU i j hi this]
  rw [sum_congr rfl this, sum_add_distrib, sum_ite_eq' (range D) i, if_pos (mem_range.mpr hi)]

/-! ### forward substitution with `Uᵀ` -/

theorem fwdSub_succ (D : ℕ) (U : ℕ → ℕ → ℝ) (b : ℕ → ℝ) (k : ℕ) (hk : k + 1 ≤ D) :
    getA (fwdSub D U b (k + 1)) = upd (getA (fwdSub D U b k)) k
      ((b k - ∑ j ∈ range k, U j k * getA (fwdSub D U b k) j) / U k k) := by
  rw [fwdSub]; simp only [sumN_eq]
  rw [getA_set _ _ _ (by rw [fwdSub_size]; omega)]

theorem fwdSub_spec (D : ℕ) (U : ℕ → ℕ → ℝ) (b : ℕ → ℝ) (hdiag : ∀ i, i < D → U i i ≠ 0) :
    ∀ k, k ≤ D → ∀ i, i < k →
      U i i * getA (fwdSub D U b k) i + ∑ j ∈ range i, U j i * getA (fwdSub D U b k) j = b i := by
  intro k
  induction k with
  | zero => intro _ i h; omega
  | succ k ih =>
    intro hk i hi
    rw [fwdSub_succ D U b k hk]
    set w := getA (fwdSub D U b k) with hw
    have hsum : ∑ j ∈ range i, U j i * upd w k ((b k - ∑ j ∈ range k, U j k * w j) / U k k) j
        = ∑ j ∈ range i, U j i * w j := by
      apply sum_congr rfl; intro j hj
      rw [upd_other _ _ _ _ (by have := mem_range.mp hj; omega)]
    rw [hsum]
    by_cases hik : i = k
    · rw [hik, upd_same, mul_div_cancel₀ _ (hdiag k (by omega))]; ring
    · rw [upd_other _ _ _ _ hik]
      exact ih (by omega) i (by omega)

theorem solveLowerT_spec (D : ℕ) (U : ℕ → ℕ → ℝ) (b : ℕ → ℝ) (hU : UpperTri D U) (hdiag : ∀ i, i < D → U i i ≠ 0)
    (i : ℕ) (hi : i < D) : ∑ j ∈ range D, U j i * solveLowerT D U b j = b i := by
  have h := fwdSub_spec D U b hdiag D (le_refl D) i hi
  unfold solveLowerT
  rw [← h]
  have hsplit : ∑ j ∈ range D, U j i * getA (fwdSub D U b D) j
      = ∑ j ∈ range D, ((if j = i then U i i * getA (fwdSub D U b D) i else 0)
          + (if j < i then U j i * getA (fwdSub D U b D) j else 0)) := by
    apply sum_congr rfl; intro j hj
    by_cases h1 : j = i
    · subst h1; simp
    · by_cases h2 : j < i
      · simp [h1, h2]
      · have h3 : i < j := by omega
        simp [h1, h2, hU j i (mem_range.mp hj) h3]
  rw [hsplit, sum_add_distrib, sum_ite_eq' (range D) i, if_pos (mem_range.mpr hi)]
  congr 1
  rw [← sum_filter]
  apply sum_congr
  · ext j; simp only [mem_filter, mem_range]; omega
  · intro _ _; rfl

/-! ### matrices -/

/-- the leading `D×D` block as a Mathlib matrix -/
def toMat (D : ℕ) (U : ℕ → ℕ → ℝ) : Matrix (Fin D) (Fin D) ℝ := Matrix.of (fun i j => U i j)

def toVec (D : ℕ) (v : ℕ → ℝ) : Fin D → ℝ := fun i => v i

theorem mulVec_of_spec (D : ℕ) (U : ℕ → ℕ → ℝ) (x z : ℕ → ℝ)
    (h : ∀ i, i < D → ∑ j ∈ range D, U i j * x j = z i) : toMat D U *ᵥ toVec D x = toVec D z := by
  funext i
  show _ = z i
  rw [← h i i.2]
  simp only [mulVec, dotProduct, toMat, toVec, of_apply]
  rw [Finset.sum_range]

theorem mulVec_transpose_of_spec (D : ℕ) (U : ℕ → ℕ → ℝ) (x z : ℕ → ℝ)
    (h : ∀ i, i < D → ∑ j ∈ range D, U j i * x j = z i) : (toMat D U)ᵀ *ᵥ toVec D x = toVec D z := by
  funext i
  show _ = z i
  rw [← h i i.2]
  simp only [mulVec, dotProduct, toMat, toVec, of_apply, transpose_apply]
  rw [Finset.sum_range]

theorem det_toMat_ne_zero (D : ℕ) (U : ℕ → ℕ → ℝ) (hU : UpperTri D U) (hdiag : ∀ i, i < D → U i i ≠ 0) :
    (toMat D U).det ≠ 0 := by
  have htri : (toMat D U).IsUpperTriangular := by
    intro i j hij
    exact hU i j i.2 hij
  rw [det_of_isUpperTriangular htri]
  exact Finset.prod_ne_zero_iff.mpr (fun i _ => hdiag i i.2)

theorem eq_inv_mulVec {D : ℕ} (M : Matrix (Fin D) (Fin D) ℝ) (hM : M.det ≠ 0) (x z : Fin D → ℝ)
    (h : M *ᵥ x = z) : x = M⁻¹ *ᵥ z := by
  rw [← h, mulVec_mulVec, nonsing_inv_mul _ (isUnit_iff_ne_zero.mpr hM), one_mulVec]

/-- the affine map of `sample_mvn_from_precision` for an upper-triangular factor with non-zero diagonal -/
theorem mvnMap_eq (D : ℕ) (U : ℕ → ℕ → ℝ) (b z : ℕ → ℝ) (hU : UpperTri D U) (hdiag : ∀ i, i < D → U i i ≠ 0) :
    toVec D (mvnMap D U b z)
      = (toMat D U)⁻¹ *ᵥ toVec D z + ((toMat D U)ᵀ * toMat D U)⁻¹ *ᵥ toVec D b := by
  have hdet := det_toMat_ne_zero D U hU hdiag
  have hdetT : ((toMat D U)ᵀ).det ≠ 0 := by rw [det_transpose]; exact hdet
  have e1 := eq_inv_mulVec _ hdet _ _ (mulVec_of_spec D U _ z (solveUpper_spec D U z hU hdiag))
  have e2 := eq_inv_mulVec _ hdetT _ _ (mulVec_transpose_of_spec D U _ b (solveLowerT_spec D U b hU hdiag))
  have e3 := eq_inv_mulVec _ hdet _ _
    (mulVec_of_spec D U _ (solveLowerT D U b) (solveUpper_spec D U (solveLowerT D U b) hU hdiag))
  have : toVec D (mvnMap D U b z) = toVec D (solveUpper D U z) + toVec D (solveUpper D U (solveLowerT D U b)) := by
    funext i; rfl
  rw [this, ← e1, e3, e2, mulVec_mulVec, Matrix.mul_inv_rev]

end Batchie.Gibbs
