/-
  Helper lemmas for C06 (and C04): `np.array_split`, `np.argmin`, boolean-mask indexing,
  `ChunkedScoresHolder`, candidates, the unique-condition filter.  Core Lean only.
-/
import Batchie.Model.Scores

namespace Batchie.Lemmas.Scores
open Batchie.Scores Batchie.Screen Batchie.Proto

/-! ### `np.array_split` -/

theorem takeSizes_length {α : Type} (ks : List Nat) (l : List α) : (takeSizes ks l).length = ks.length := by
  induction ks generalizing l with
  | nil => rfl
  | cons k ks ih => simp [takeSizes, ih]

theorem takeSizes_flatten {α : Type} (ks : List Nat) (l : List α) : (takeSizes ks l).flatten = l.take ks.sum := by
  induction ks generalizing l with
  | nil => simp [takeSizes]
  | cons k ks ih =>
    simp only [takeSizes, List.flatten_cons, ih, List.sum_cons]
    rw [List.take_add]

theorem takeSizes_getElem? {α : Type} (ks : List Nat) (l : List α) (h : ks.sum ≤ l.length) (i : Nat) :
    ((takeSizes ks l)[i]?).map List.length = ks[i]? := by
  induction ks generalizing l i with
  | nil => simp [takeSizes]
  | cons k ks ih =>
    simp only [List.sum_cons] at h
    cases i with
    | zero => simp [takeSizes]; omega
    | succ i =>
      simp only [takeSizes, List.getElem?_cons_succ]
      apply ih
      simp; omega

theorem splitSizes_length (len n : Nat) (hn : 0 < n) : (splitSizes len n).length = n := by
  have := Nat.mod_lt len hn
  simp [splitSizes]; omega

theorem splitSizes_sum (len n : Nat) (hn : 0 < n) : (splitSizes len n).sum = len := by
  have h1 := Nat.mod_lt len hn
  have h2 := Nat.div_add_mod len n
  simp only [splitSizes, List.sum_append_nat, List.sum_replicate_nat]
  rw [Nat.mul_add, Nat.mul_one, Nat.sub_mul]
  have h3 : len % n * (len / n) ≤ n * (len / n) := Nat.mul_le_mul_right _ (Nat.le_of_lt h1)
  omega

theorem splitSizes_getElem? (len n i : Nat) (hi : i < n) :
    (splitSizes len n)[i]? = some (len / n + if i < len % n then 1 else 0) := by
  have h1 := Nat.mod_lt len (Nat.lt_of_le_of_lt (Nat.zero_le _) hi)
  unfold splitSizes
  by_cases h : i < len % n
  · rw [List.getElem?_append_left (by simpa using h)]
    simp [h]
  · rw [List.getElem?_append_right (by simpa using Nat.le_of_not_lt h)]
    simp only [h, if_false, Nat.add_zero, List.length_replicate]
    rw [List.getElem?_replicate]
    simp; omega

/-! ### scores are strictly ordered -/

theorem Score.lt_irrefl (a : Score) : a.lt a = false := by
  cases a with
  | negInf => rfl
  | fin q => simp [Score.lt, Rat.lt_irrefl]

theorem Score.lt_trans {a b c : Score} (h1 : a.lt b = true) (h2 : b.lt c = true) : a.lt c = true := by
  cases a <;> cases b <;> cases c <;> simp_all [Score.lt]
  rename_i x y z
  exact Rat.not_le.mp (fun hca => (Rat.not_le.mpr h2) (Rat.le_trans hca (Rat.le_of_lt h1)))

/-! ### `np.argmin` -/

theorem argminGo_spec (pre : List Score) (b : Score) (bi : Nat) (ys : List Score)
    (hbi : pre[bi]? = some b) (hmin : ∀ y ∈ pre, y.lt b = false) :
    ∃ v, (pre ++ ys)[argminGo bi b pre.length ys]? = some v ∧ ∀ y ∈ pre ++ ys, y.lt v = false := by
  induction ys generalizing pre b bi with
  | nil => exact ⟨b, by simpa [argminGo] using hbi, by simpa using hmin⟩
  | cons y ys ih =>
    have hlt : bi < pre.length := by
      rcases Nat.lt_or_ge bi pre.length with h | h
      · exact h
      · rw [List.getElem?_eq_none h] at hbi; cases hbi
    unfold argminGo
    split
    · next hy =>
      have := ih (pre ++ [y]) y pre.length (by simp) (by
        intro z hz
        rcases List.mem_append.mp hz with hz | hz
        · cases hzy : z.lt y with
          | false => rfl
          | true => have := Score.lt_trans hzy hy; rw [hmin z hz] at this; cases this
        · simp at hz; subst hz; exact Score.lt_irrefl _)
      simpa [List.append_assoc] using this
    · next hy =>
      have := ih (pre ++ [y]) b bi (by rw [List.getElem?_append_left hlt]; exact hbi) (by
        intro z hz
        rcases List.mem_append.mp hz with hz | hz
        · exact hmin z hz
        · simp at hz; subst hz; simpa using hy)
      simpa [List.append_assoc] using this

theorem argmin?_none (xs : List Score) : argmin? xs = none ↔ xs = [] := by
  cases xs <;> simp [argmin?]

theorem argmin?_spec (xs : List Score) (i : Nat) (h : argmin? xs = some i) :
    ∃ v, xs[i]? = some v ∧ ∀ y ∈ xs, y.lt v = false := by
  cases xs with
  | nil => simp [argmin?] at h
  | cons x xs =>
    simp only [argmin?, Option.some.injEq] at h
    subst h
    have := argminGo_spec [x] x 0 xs (by simp) (by intro y hy; simp at hy; subst hy; exact Score.lt_irrefl _)
    simpa using this


/-! ### boolean-mask indexing -/

theorem maskFilter_map_fst {α β : Type} (P : List α) (S : List β) (f : α → Bool) (h : P.length = S.length) :
    maskFilter P (P.map f) = ((P.zip S).filter (fun e => f e.1)).map Prod.fst := by
  induction P generalizing S with
  | nil => simp [maskFilter]
  | cons p P ih =>
    cases S with
    | nil => simp at h
    | cons x S =>
      simp only [List.length_cons, Nat.add_right_cancel_iff] at h
      simp only [List.map_cons, maskFilter, List.zip_cons_cons, List.filter_cons]
      split <;> simp [ih S h]

theorem maskFilter_map_snd {α β : Type} (P : List α) (S : List β) (f : α → Bool) (h : P.length = S.length) :
    maskFilter S (P.map f) = ((P.zip S).filter (fun e => f e.1)).map Prod.snd := by
  induction P generalizing S with
  | nil => cases S <;> simp [maskFilter]
  | cons p P ih =>
    cases S with
    | nil => simp at h
    | cons x S =>
      simp only [List.length_cons, Nat.add_right_cancel_iff] at h
      simp only [List.map_cons, maskFilter, List.zip_cons_cons, List.filter_cons]
      split <;> simp [ih S h]

/-! ### `ChunkedScoresHolder` -/

/-- both arrays of a holder have the same length (true of every holder the code builds) -/
def HolderWF (h : Holder) : Prop := h.plateIds.length = h.scores.length

theorem plateIdWithMinimumScore_some (h : Holder) (hw : HolderWF h) (a : List Int) :
    let E := h.entries.filter (fun e => a.contains e.1)
    (E = [] → h.plateIdWithMinimumScore (some a) = .error .valueError) ∧
    (E ≠ [] → ∃ p sp, h.plateIdWithMinimumScore (some a) = .ok p ∧ (p, sp) ∈ E ∧ ∀ e ∈ E, e.2.lt sp = false) := by
  intro E
  have hids := maskFilter_map_fst h.plateIds h.scores (fun p => a.contains p) hw
  have hsc := maskFilter_map_snd h.plateIds h.scores (fun p => a.contains p) hw
  have hE : E = (h.plateIds.zip h.scores).filter (fun e => a.contains e.1) := rfl
  unfold Holder.plateIdWithMinimumScore
  simp only [hids, hsc, ← hE]
  constructor
  · intro h0
    simp [h0, argmin?]
  · intro hne
    cases hag : argmin? (E.map Prod.snd) with
    | none => rw [argmin?_none] at hag; simp at hag; exact absurd hag hne
    | some i =>
      obtain ⟨v, hv, hmin⟩ := argmin?_spec _ _ hag
      rw [List.getElem?_map] at hv
      cases hEi : E[i]? with
      | none => simp [hEi] at hv
      | some e =>
        simp only [hEi, Option.map_some, Option.some.injEq] at hv
        refine ⟨e.1, e.2, ?_, ?_, ?_⟩
        · simp [List.getElem?_map, hEi]
        · exact List.mem_of_getElem? hEi
        · intro e' he'
          rw [hv]
          exact hmin e'.2 (List.mem_map_of_mem he')


theorem set_append_replicate {α : Type} (A : List α) (m : Nat) (z x : α) :
    (A ++ List.replicate (m + 1) z).set A.length x = (A ++ [x]) ++ List.replicate m z := by
  induction A with
  | nil => simp [List.replicate_succ]
  | cons a A ih => simpa using ih

theorem foldlM_add (N : Nat) (L : List (Int × Score)) (A : List Score) (B : List Int)
    (hAB : A.length = B.length) (m : Nat) (hm : L.length = m) :
    L.foldlM (fun h e => Holder.add h e.1 e.2)
        { size := N, scores := A ++ List.replicate m Score.zero, plateIds := B ++ List.replicate m 0, cur := A.length }
      = .ok { size := N, scores := A ++ L.map Prod.snd, plateIds := B ++ L.map Prod.fst, cur := A.length + L.length } := by
  induction L generalizing A B m with
  | nil => subst hm; simp [pure, Except.pure]
  | cons e L ih =>
    cases m with
    | zero => simp at hm
    | succ m =>
      simp only [List.length_cons, Nat.add_right_cancel_iff] at hm
      rw [List.foldlM_cons]
      have hadd : Holder.add (Holder.mk N (A ++ List.replicate (m + 1) Score.zero) (B ++ List.replicate (m + 1) 0) A.length) e.1 e.2
          = .ok (Holder.mk N ((A ++ [e.2]) ++ List.replicate m Score.zero) ((B ++ [e.1]) ++ List.replicate m 0) (A ++ [e.2]).length) := by
        unfold Holder.add
        have h1 : A.length < (A ++ List.replicate (m + 1) Score.zero).length := by simp
        have h2 : A.length < (B ++ List.replicate (m + 1) (0 : Int)).length := by simp; omega
        simp only [h1, h2, decide_true, Bool.and_self, if_true]
        have hB : (B ++ List.replicate (m + 1) (0 : Int)).set A.length e.1 = (B ++ [e.1]) ++ List.replicate m 0 := by
          rw [hAB]; exact set_append_replicate B m 0 e.1
        rw [set_append_replicate, hB]
        simp
      rw [hadd]
      have := ih (A ++ [e.2]) (B ++ [e.1]) (by simp [hAB]) m hm
      simp only [bind, Except.bind]
      rw [this]
      simp [Nat.add_assoc, Nat.add_comm 1]

/-- the holder `score_chunk` builds when the scorer returns as many items as it was given -/
theorem foldlM_add_new (L : List (Int × Score)) (n : Nat) (h : L.length = n) :
    L.foldlM (fun h e => Holder.add h e.1 e.2) (Holder.new n)
      = .ok { size := n, scores := L.map Prod.snd, plateIds := L.map Prod.fst, cur := n } := by
  have := foldlM_add n L [] [] rfl n h
  simpa [Holder.new, h] using this

theorem entries_combine (h o : Holder) (hw : HolderWF h) :
    (h.combine o).entries = h.entries ++ o.entries := by
  unfold Holder.entries Holder.combine
  exact List.zip_append hw

theorem combine_wf (h o : Holder) (hw : HolderWF h) (ho : HolderWF o) : HolderWF (h.combine o) := by
  unfold HolderWF Holder.combine at *
  simp [hw, ho]

theorem entries_foldl_combine (h : Holder) (rest : List Holder) (hw : HolderWF h) (hr : ∀ o ∈ rest, HolderWF o) :
    (rest.foldl Holder.combine h).entries = h.entries ++ (rest.map Holder.entries).flatten
    ∧ HolderWF (rest.foldl Holder.combine h) := by
  induction rest generalizing h with
  | nil => simp [hw]
  | cons o rest ih =>
    have ho := hr o (by simp)
    have := ih (h.combine o) (combine_wf h o hw ho) (fun x hx => hr x (by simp [hx]))
    simp only [List.foldl_cons, List.map_cons, List.flatten_cons]
    rw [this.1, entries_combine h o hw]
    exact ⟨by simp, this.2⟩

theorem concat_entries (hs : List Holder) (hw : ∀ o ∈ hs, HolderWF o) (hne : hs ≠ []) :
    ∃ H, Holder.concat hs = .ok H ∧ H.entries = (hs.map Holder.entries).flatten ∧ HolderWF H := by
  cases hs with
  | nil => exact absurd rfl hne
  | cons h rest =>
    have := entries_foldl_combine h rest (hw h (by simp)) (fun o ho => hw o (by simp [ho]))
    exact ⟨_, rfl, by simpa using this.1, this.2⟩

theorem load_save (h : Holder) : (Holder.load h.save).entries = h.entries ∧ (Holder.load h.save).cur = h.cur
    ∧ (Holder.load h.save).scores = h.scores ∧ (Holder.load h.save).plateIds = h.plateIds := by
  simp [Holder.load, Holder.save, Holder.entries]

/-! ### candidates -/

theorem nodup_eraseDups {α : Type} [BEq α] [LawfulBEq α] : ∀ (l : List α), l.eraseDups.Nodup
  | [] => by simp
  | a :: as => by
    rw [List.eraseDups_cons, List.nodup_cons]
    have : (as.filter fun b => !b == a).length < (a :: as).length :=
      Nat.lt_succ_of_le (List.length_filter_le _ as)
    exact ⟨by simp, nodup_eraseDups _⟩
termination_by l => l.length

theorem uniquePlateIds_nodup (s : Screen) : s.uniquePlateIds.Nodup := by
  unfold Screen.uniquePlateIds
  exact (List.mergeSort_perm _ _).nodup_iff.mpr (nodup_eraseDups _)

theorem mem_uniquePlateIds (s : Screen) (p : Int) : p ∈ s.uniquePlateIds ↔ p ∈ s.pids := by
  unfold Screen.uniquePlateIds
  rw [(List.mergeSort_perm _ _).mem_iff]
  simp

theorem candidates_nodup (s : Screen) (batch : List Int) : (candidates s batch).Nodup := by
  unfold candidates
  refine (List.mergeSort_perm _ _).nodup_iff.mpr ?_
  exact ((uniquePlateIds_nodup s).sublist (List.filter_sublist)).sublist (List.filter_sublist)

theorem mem_candidates (s : Screen) (batch : List Int) (p : Int) :
    p ∈ candidates s batch ↔ p ∈ s.pids ∧ plateObserved s p = false ∧ p ∉ batch := by
  unfold candidates
  rw [(List.mergeSort_perm _ _).mem_iff]
  simp only [List.mem_filter, mem_uniquePlateIds, List.contains_eq_mem, decide_eq_false_iff_not, Bool.not_eq_eq_eq_not, Bool.not_true]
  constructor
  · rintro ⟨⟨h1, h2⟩, h3⟩; exact ⟨h1, h2, h3⟩
  · rintro ⟨h1, h2, h3⟩; exact ⟨⟨h1, h2⟩, h3⟩

theorem mem_batchPlates (s : Screen) (batch : List Int) (p : Int) :
    p ∈ batchPlates s batch ↔ p ∈ s.pids ∧ p ∈ batch := by
  simp [batchPlates, mem_uniquePlateIds]

/-! ### the plates handed to the scorer -/

theorem bind_ok {α β : Type} {x : Except Err α} {f : α → Except Err β} {b : β} (h : x >>= f = .ok b) :
    ∃ a, x = .ok a ∧ f a = .ok b := by
  cases x with
  | error e => simp [bind, Except.bind] at h
  | ok a => exact ⟨a, rfl, by simpa [bind, Except.bind] using h⟩

theorem pure_ok {α : Type} {a b : α} (h : (pure a : Except Err α) = .ok b) : a = b := by
  simpa [pure, Except.pure] using h

theorem mapM_pair_fst {α β : Type} (f : α → Except Err β) (l : List α) (r : List (α × β))
    (h : l.mapM (fun p => do let v ← f p; pure (p, v)) = .ok r) : r.map Prod.fst = l := by
  induction l generalizing r with
  | nil => simp [pure, Except.pure] at h; subst h; rfl
  | cons a l ih =>
    rw [List.mapM_cons] at h
    obtain ⟨b, hb, h⟩ := bind_ok h
    obtain ⟨bs, hbs, h⟩ := bind_ok h
    obtain ⟨v, _, hb⟩ := bind_ok hb
    have h1 := pure_ok h
    have h2 := pure_ok hb
    subst h1 h2
    simp [ih bs hbs]

theorem scoreInputs_fst (s : Screen) (pid : Nat) (batch : List Int) (n idx : Nat) (inp : List (Int × View))
    (h : scoreInputs s pid batch n idx = .ok inp) : chunkPlates s batch n idx = .ok (inp.map Prod.fst) := by
  unfold scoreInputs at h
  cases hc : chunkPlates s batch n idx with
  | error e => simp [hc, bind, Except.bind] at h
  | ok chunk =>
    simp only [hc, bind, Except.bind] at h
    split at h
    · simp [pure, Except.pure] at h; subst h; simp [List.map_map, Function.comp_def]
    · cases hu : View.concat ((batchPlates s batch).map (s.getPlate pid)) with
      | error e => simp [hu] at h
      | ok u =>
        simp only [hu] at h
        rw [mapM_pair_fst (fun p => conditioned s pid u p) chunk inp h]

theorem chunkPlates_ok (s : Screen) (batch : List Int) (n idx : Nat) (c : List Int)
    (h : chunkPlates s batch n idx = .ok c) : 0 < n ∧ (arraySplit (candidates s batch) n)[idx]? = some c := by
  unfold chunkPlates at h
  split at h
  · cases h
  · next hn =>
    split at h
    · cases h
    · next c' hc => cases h; exact ⟨by simp at hn; omega, hc⟩

theorem arraySplit_flatten {α : Type} (l : List α) (n : Nat) (hn : 0 < n) : (arraySplit l n).flatten = l := by
  unfold arraySplit
  rw [takeSizes_flatten, splitSizes_sum _ _ hn, List.take_length]

theorem arraySplit_length {α : Type} (l : List α) (n : Nat) (hn : 0 < n) : (arraySplit l n).length = n := by
  unfold arraySplit
  rw [takeSizes_length, splitSizes_length _ _ hn]

theorem cover (s : Screen) (batch : List Int) (n : Nat) (c : Nat → List Int)
    (h : ∀ i, i < n → chunkPlates s batch n i = .ok (c i)) (hn : 0 < n) :
    ((List.range n).map c).flatten = candidates s batch := by
  have : (List.range n).map c = arraySplit (candidates s batch) n := by
    apply List.ext_getElem?
    intro i
    by_cases hi : i < n
    · rw [(chunkPlates_ok s batch n i _ (h i hi)).2]
      simp [hi]
    · have h1 : n ≤ i := Nat.le_of_not_lt hi
      rw [List.getElem?_eq_none (by simpa using h1), List.getElem?_eq_none (by rw [arraySplit_length _ _ hn]; exact h1)]
  rw [this, arraySplit_flatten _ _ hn]

/-! ### the unique-condition filter: "first occurrence inside the selection" -/

def firstOccGo {κ : Type} [BEq κ] (seen : List κ) : List (Bool × κ) → List Bool
  | [] => []
  | (b, k) :: r => if b && !seen.contains k then true :: firstOccGo (k :: seen) r else false :: firstOccGo seen r

theorem scatter_uniqueMaskGo {κ : Type} [BEq κ] (sel : List Bool) (keys seen : List κ) (h : keys.length = sel.length) :
    scatter sel (uniqueMaskGo seen (maskFilter keys sel)) = firstOccGo seen (sel.zip keys) := by
  induction sel generalizing keys seen with
  | nil => cases keys <;> simp [scatter, firstOccGo]
  | cons b sel ih =>
    cases keys with
    | nil => simp at h
    | cons k keys =>
      simp only [List.length_cons, Nat.add_right_cancel_iff] at h
      cases b with
      | true =>
        simp only [maskFilter, if_true, uniqueMaskGo, List.zip_cons_cons, firstOccGo, Bool.true_and]
        by_cases hk : seen.contains k
        · simp [hk, scatter, ih keys seen h]
        · simp [hk, scatter, ih keys (k :: seen) h]
      | false =>
        simp [maskFilter, scatter, List.zip_cons_cons, firstOccGo, ih keys seen h]

theorem firstOccGo_length {κ : Type} [BEq κ] (seen : List κ) (l : List (Bool × κ)) :
    (firstOccGo seen l).length = l.length := by
  induction l generalizing seen with
  | nil => rfl
  | cons e l ih =>
    obtain ⟨b, k⟩ := e
    unfold firstOccGo
    split <;> simp [ih]

theorem firstOccGo_spec {κ : Type} [BEq κ] [LawfulBEq κ] (seen : List κ) (l : List (Bool × κ)) (i : Nat) :
    (firstOccGo seen l)[i]? = some true ↔
      ∃ k, l[i]? = some (true, k) ∧ k ∉ seen ∧ ∀ j k', j < i → l[j]? = some (true, k') → k' ≠ k := by
  induction l generalizing seen i with
  | nil => simp [firstOccGo]
  | cons e l ih =>
    obtain ⟨b, k0⟩ := e
    unfold firstOccGo
    cases i with
    | zero =>
      cases hc : (b && !seen.contains k0) with
      | true =>
        simp only [if_true, List.getElem?_cons_zero, true_iff]
        simp only [Bool.and_eq_true, Bool.not_eq_true', List.contains_eq_mem, decide_eq_false_iff_not] at hc
        exact ⟨k0, by simp [hc.1], hc.2, by intro j k' hj; omega⟩
      | false =>
        simp only [Bool.false_eq_true, if_false, List.getElem?_cons_zero]
        constructor
        · intro h; cases h
        · rintro ⟨k, hk, hns, _⟩
          simp only [Option.some.injEq, Prod.mk.injEq] at hk
          obtain ⟨rfl, rfl⟩ := hk
          simp [hns] at hc
    | succ i =>
      cases hc : (b && !seen.contains k0) with
      | true =>
        simp only [if_true, List.getElem?_cons_succ, ih]
        simp only [Bool.and_eq_true, Bool.not_eq_true', List.contains_eq_mem, decide_eq_false_iff_not] at hc
        obtain ⟨hb, hk0⟩ := hc
        subst hb
        constructor
        · rintro ⟨k, hk, hns, hall⟩
          simp only [List.mem_cons, not_or] at hns
          refine ⟨k, hk, hns.2, ?_⟩
          intro j k' hj hjk
          cases j with
          | zero =>
            simp only [List.getElem?_cons_zero, Option.some.injEq, Prod.mk.injEq, true_and] at hjk
            subst hjk; exact fun h => hns.1 h.symm
          | succ j => exact hall j k' (by omega) (by simpa using hjk)
        · rintro ⟨k, hk, hns, hall⟩
          refine ⟨k, hk, ?_, ?_⟩
          · simp only [List.mem_cons, not_or]
            exact ⟨fun h => hall 0 k0 (by omega) (by simp) h.symm, hns⟩
          · intro j k' hj hjk
            exact hall (j + 1) k' (by omega) (by simpa using hjk)
      | false =>
        simp only [Bool.false_eq_true, if_false, List.getElem?_cons_succ, ih]
        constructor
        · rintro ⟨k, hk, hns, hall⟩
          refine ⟨k, hk, hns, ?_⟩
          intro j k' hj hjk
          cases j with
          | zero =>
            simp only [List.getElem?_cons_zero, Option.some.injEq, Prod.mk.injEq] at hjk
            obtain ⟨rfl, rfl⟩ := hjk
            intro hkk; subst hkk
            simp [hns] at hc
          | succ j => exact hall j k' (by omega) (by simpa using hjk)
        · rintro ⟨k, hk, hns, hall⟩
          exact ⟨k, hk, hns, fun j k' hj hjk => hall (j + 1) k' (by omega) (by simpa using hjk)⟩

theorem maskFilter_zip {α β : Type} (a : List α) (b : List β) (sel : List Bool) :
    maskFilter (a.zip b) sel = (maskFilter a sel).zip (maskFilter b sel) := by
  induction sel generalizing a b with
  | nil => cases a <;> cases b <;> simp [maskFilter]
  | cons m sel ih =>
    cases a with
    | nil => simp [maskFilter]
    | cons x a =>
      cases b with
      | nil => cases m <;> simp [maskFilter]
      | cons y b => cases m <;> simp [maskFilter, ih]

theorem maskFilter_length {α : Type} (a : List α) (sel : List Bool) (h : a.length = sel.length) :
    (maskFilter a sel).length = sel.count true := by
  induction sel generalizing a with
  | nil => cases a <;> simp [maskFilter]
  | cons m sel ih =>
    cases a with
    | nil => simp at h
    | cons x a =>
      simp only [List.length_cons, Nat.add_right_cancel_iff] at h
      cases m <;> simp [maskFilter, ih a h]

theorem uniqueMaskGo_length {κ : Type} [BEq κ] (seen keys : List κ) : (uniqueMaskGo seen keys).length = keys.length := by
  induction keys generalizing seen with
  | nil => rfl
  | cons k keys ih => unfold uniqueMaskGo; split <;> simp [ih]

/-! ### the conditioned plate of `score_chunk` -/

/-- the id arrays of a screen have one entry per experiment (true of every constructed screen) -/
structure ScreenWF (s : Screen) : Prop where
  sids : s.sids.length = s.pids.length
  tids : s.tids.length = s.pids.length

theorem zipWith_or_map {α : Type} (l : List α) (f g : α → Bool) :
    List.zipWith (· || ·) (l.map f) (l.map g) = l.map (fun x => f x || g x) := by
  induction l with
  | nil => rfl
  | cons a l ih => simp [ih]

theorem foldl_or_getPlate (s : Screen) (pid : Nat) (qs : List Int) (f : Int → Bool) :
    (qs.map (s.getPlate pid)).foldl (fun acc x => List.zipWith (· || ·) acc x.sel) (s.pids.map f)
      = s.pids.map (fun x => f x || qs.any (fun q => x == q)) := by
  induction qs generalizing f with
  | nil => simp
  | cons q qs ih =>
    simp only [List.map_cons, List.foldl_cons, Screen.getPlate, zipWith_or_map]
    have := ih (fun x => f x || x == q)
    rw [this]
    apply List.map_congr_left
    intro x _
    simp [Bool.or_assoc]

theorem concat_getPlates (s : Screen) (pid : Nat) (qs : List Int) (hne : qs ≠ []) :
    View.concat (qs.map (s.getPlate pid)) = .ok { parent := pid, sel := s.pids.map (fun x => qs.any (fun q => x == q)) } := by
  cases qs with
  | nil => exact absurd rfl hne
  | cons q qs =>
    cases qs with
    | nil => simp [View.concat, Screen.getPlate]
    | cons q' qs =>
      have hpar : ((q' :: qs).map (s.getPlate pid)).any (fun x => x.parent != (s.getPlate pid q).parent) = false := by
        simp [Screen.getPlate]
      have hf := foldl_or_getPlate s pid (q' :: qs) (fun x => x == q)
      simp only [List.map_cons] at hpar hf
      simp only [List.map_cons, View.concat, hpar]
      simp only [Screen.getPlate] at hf ⊢
      simp [hf]

theorem mapM_pair_mem {α β : Type} (f : α → Except Err β) (l : List α) (r : List (α × β))
    (h : l.mapM (fun p => do let v ← f p; pure (p, v)) = .ok r) : ∀ e ∈ r, f e.1 = .ok e.2 := by
  induction l generalizing r with
  | nil => simp [pure, Except.pure] at h; subst h; simp
  | cons a l ih =>
    rw [List.mapM_cons] at h
    obtain ⟨b, hb, h⟩ := bind_ok h
    obtain ⟨bs, hbs, h⟩ := bind_ok h
    obtain ⟨v, hv, hb⟩ := bind_ok hb
    have h1 := pure_ok h
    have h2 := pure_ok hb
    subst h1 h2
    intro e he
    rcases List.mem_cons.mp he with rfl | he
    · exact hv
    · exact ih bs hbs e he

/-- the selection `filter_dataset_to_unique_treatments(plate.combine(batch))` returns, as a
    first-occurrence scan over the rows of the screen -/
theorem conditioned_eq (s : Screen) (hwf : ScreenWF s) (pid : Nat) (qs : List Int) (p : Int) :
    conditioned s pid { parent := pid, sel := s.pids.map (fun x => qs.any (fun q => x == q)) } p
      = .ok { parent := pid,
              sel := firstOccGo [] ((s.pids.map (fun x => x == p || qs.any (fun q => x == q))).zip (s.sids.zip s.tids)) } := by
  unfold conditioned
  simp only [Screen.getPlate, View.combine, bne_self_eq_false, Bool.false_eq_true, if_false, zipWith_or_map, bind, Except.bind]
  unfold Screen.uniqueFilter View.subset View.size
  simp only
  have hlen : (s.sids.zip s.tids).length = (s.pids.map (fun x => x == p || qs.any (fun q => x == q))).length := by
    simp [hwf.sids, hwf.tids]
  rw [← maskFilter_zip]
  have h1 : (uniqueMask (maskFilter (s.sids.zip s.tids) (s.pids.map (fun x => x == p || qs.any (fun q => x == q))))).length
      = (s.pids.map (fun x => x == p || qs.any (fun q => x == q))).count true := by
    unfold uniqueMask
    rw [uniqueMaskGo_length, maskFilter_length _ _ hlen]
  simp only [h1, bne_self_eq_false, Bool.false_eq_true, if_false]
  unfold uniqueMask
  rw [scatter_uniqueMaskGo _ _ _ hlen]

/-! ### the scoring pipeline -/

/-- a scorer that returns exactly one score per plate it is given (in any order) -/
def TotalScorer (sc : Scorer) : Prop := ∀ inp, ((sc inp).map Prod.fst).Perm (inp.map Prod.fst)

/-- a policy *filters*: whatever it returns is among the unobserved plates it was given -/
def PolicyFilters (policy : Option Policy) : Prop :=
  ∀ f, policy = some f → ∀ (b u : List Int) (x : Int), x ∈ f b u → x ∈ u

theorem zip_map_fst_snd {α β : Type} (L : List (α × β)) : (L.map Prod.fst).zip (L.map Prod.snd) = L := by
  induction L with
  | nil => rfl
  | cons e L ih => simp [ih]

theorem scoreChunk_total (s : Screen) (pid : Nat) (batch : List Int) (n idx : Nat) (sc : Scorer) (ht : TotalScorer sc)
    (inp : List (Int × View)) (hi : scoreInputs s pid batch n idx = .ok inp) :
    scoreChunk s pid batch n idx sc
      = .ok { size := inp.length, scores := (sc inp).map Prod.snd, plateIds := (sc inp).map Prod.fst, cur := inp.length } := by
  unfold scoreChunk
  simp only [hi, bind, Except.bind]
  have hlen : (sc inp).length = inp.length := by
    have := (ht inp).length_eq
    simpa using this
  exact foldlM_add_new (sc inp) inp.length hlen

theorem perm_flatten_map {ι α : Type} (l : List ι) (f g : ι → List α) (h : ∀ i ∈ l, (f i).Perm (g i)) :
    (l.map f).flatten.Perm (l.map g).flatten := by
  induction l with
  | nil => simp
  | cons i l ih =>
    simp only [List.map_cons, List.flatten_cons]
    exact (h i (by simp)).append (ih (fun j hj => h j (by simp [hj])))

/-- the combined holder of the pipeline: its cells are, up to order, one (plate, score) per candidate -/
theorem pipeline_entries (s : Screen) (pid : Nat) (batch : List Int) (n : Nat) (hn : 1 ≤ n)
    (sc : Nat → Scorer) (htot : ∀ i, TotalScorer (sc i)) (hold : Nat → Holder)
    (hchunks : ∀ i, i < n → scoreChunk s pid batch n i (sc i) = .ok (hold i))
    (files : List Holder) (hperm : files.Perm ((List.range n).map hold)) :
    ∃ H, Holder.concat (files.map (fun h => Holder.load h.save)) = .ok H ∧ HolderWF H
      ∧ H.entries.Perm (((List.range n).map hold).map Holder.entries).flatten
      ∧ (H.entries.map Prod.fst).Perm (candidates s batch) := by
  -- every chunk call got past `scoreInputs`
  have hinp : ∀ i, i < n → ∃ inp, scoreInputs s pid batch n i = .ok inp := by
    intro i hi
    have h := hchunks i hi
    unfold scoreChunk at h
    obtain ⟨inp, h1, _⟩ := bind_ok h
    exact ⟨inp, h1⟩
  -- choose the inputs as a function of the index
  let inp : Nat → List (Int × View) := fun i =>
    match scoreInputs s pid batch n i with
    | .ok x => x
    | .error _ => []
  have hinp' : ∀ i, i < n → scoreInputs s pid batch n i = .ok (inp i) := by
    intro i hi
    obtain ⟨x, hx⟩ := hinp i hi
    simp only [inp, hx]
  have hhold : ∀ i, i < n → hold i =
      Holder.mk (inp i).length ((sc i (inp i)).map Prod.snd) ((sc i (inp i)).map Prod.fst) (inp i).length := by
    intro i hi
    have h1 := scoreChunk_total s pid batch n i (sc i) (htot i) (inp i) (hinp' i hi)
    have h2 := hchunks i hi
    rw [h1] at h2
    exact (Except.ok.inj h2).symm
  have hwf : ∀ i, i < n → HolderWF (hold i) := by
    intro i hi; rw [hhold i hi]; simp [HolderWF]
  have hent : ∀ i, i < n → (hold i).entries = sc i (inp i) := by
    intro i hi; rw [hhold i hi]; simp [Holder.entries, zip_map_fst_snd]
  have hwfFiles : ∀ o ∈ files.map (fun h => Holder.load h.save), HolderWF o := by
    intro o ho
    obtain ⟨h, hh, rfl⟩ := List.mem_map.mp ho
    have : h ∈ (List.range n).map hold := hperm.mem_iff.mp hh
    obtain ⟨i, hi, rfl⟩ := List.mem_map.mp this
    have := hwf i (by simpa using hi)
    simpa [HolderWF, Holder.load, Holder.save] using this
  have hne : files.map (fun h => Holder.load h.save) ≠ [] := by
    intro h0
    have := hperm.length_eq
    simp at h0
    subst h0
    simp at this
    omega
  obtain ⟨H, hH, hHe, hHw⟩ := concat_entries _ hwfFiles hne
  have hmapent : (files.map (fun h => Holder.load h.save)).map Holder.entries = files.map Holder.entries := by
    simp [List.map_map, Function.comp_def, Holder.load, Holder.save, Holder.entries]
  have hp1 : H.entries.Perm (((List.range n).map hold).map Holder.entries).flatten := by
    rw [hHe, hmapent]
    exact (hperm.map Holder.entries).flatten
  refine ⟨H, hH, hHw, hp1, ?_⟩
  have hp2 := hp1.map Prod.fst
  refine hp2.trans ?_
  rw [List.map_flatten, List.map_map, List.map_map]
  have hcover := cover s batch n (fun i => (inp i).map Prod.fst)
    (fun i hi => scoreInputs_fst s pid batch n i (inp i) (hinp' i hi)) (by omega)
  rw [← hcover]
  apply perm_flatten_map
  intro i hi
  have hi' : i < n := by simpa using hi
  simp only [Function.comp_def, hent i hi']
  exact htot i (inp i)

/-! ### the tie-break: `np.argmin` returns the first minimum -/

/-- the order on scores is total: something strictly below `b` is strictly below everything that is not below `b` -/
theorem Score.lt_of_lt_of_not_lt {y b x : Score} (h1 : y.lt b = true) (h2 : x.lt b = false) : y.lt x = true := by
  cases y <;> cases b <;> cases x <;> simp_all [Score.lt]
  rename_i p q r
  -- p < q, ¬ r < q  ⊢ p < r
  exact Rat.not_le.mp (fun hrp => (Rat.not_le.mpr h1) (Rat.le_trans (Rat.not_lt.mp h2) hrp))

/-- `np.argmin` returns the FIRST minimum: every earlier element is strictly larger -/
theorem argminGo_first (pre : List Score) (b : Score) (bi : Nat) (ys : List Score)
    (hbi : pre[bi]? = some b) (hmin : ∀ y ∈ pre, y.lt b = false)
    (hfirst : ∀ j w, j < bi → pre[j]? = some w → b.lt w = true) :
    ∃ v, (pre ++ ys)[argminGo bi b pre.length ys]? = some v ∧
      ∀ j w, j < argminGo bi b pre.length ys → (pre ++ ys)[j]? = some w → v.lt w = true := by
  induction ys generalizing pre b bi with
  | nil =>
    refine ⟨b, by simpa [argminGo] using hbi, ?_⟩
    intro j w hj hw
    simp only [argminGo, List.append_nil] at hj hw
    exact hfirst j w hj hw
  | cons y ys ih =>
    have hlt : bi < pre.length := by
      rcases Nat.lt_or_ge bi pre.length with h | h
      · exact h
      · rw [List.getElem?_eq_none h] at hbi; cases hbi
    unfold argminGo
    split
    · next hy =>
      have := ih (pre ++ [y]) y pre.length (by simp) (by
        intro z hz
        rcases List.mem_append.mp hz with hz | hz
        · cases hzy : z.lt y with
          | false => rfl
          | true => have := Score.lt_trans hzy hy; rw [hmin z hz] at this; cases this
        · simp at hz; subst hz; exact Score.lt_irrefl _) (by
        intro j w hj hw
        rw [List.getElem?_append_left hj] at hw
        exact Score.lt_of_lt_of_not_lt hy (hmin w (List.mem_of_getElem? hw)))
      simpa [List.append_assoc] using this
    · next hy =>
      have := ih (pre ++ [y]) b bi (by rw [List.getElem?_append_left hlt]; exact hbi) (by
        intro z hz
        rcases List.mem_append.mp hz with hz | hz
        · exact hmin z hz
        · simp at hz; subst hz; simpa using hy) (by
        intro j w hj hw
        rw [List.getElem?_append_left (by omega)] at hw
        exact hfirst j w hj hw)
      simpa [List.append_assoc] using this

theorem argmin?_first (xs : List Score) (i : Nat) (h : argmin? xs = some i) :
    ∃ v, xs[i]? = some v ∧ (∀ y ∈ xs, y.lt v = false) ∧ ∀ j w, j < i → xs[j]? = some w → v.lt w = true := by
  obtain ⟨v, hv, hmin⟩ := argmin?_spec xs i h
  cases xs with
  | nil => simp [argmin?] at h
  | cons x xs =>
    simp only [argmin?, Option.some.injEq] at h
    subst h
    obtain ⟨v', hv', hf⟩ := argminGo_first [x] x 0 xs (by simp) (by intro y hy; simp at hy; subst hy; exact Score.lt_irrefl _)
      (by intro j w hj; omega)
    simp only [List.length_cons, List.length_nil, Nat.zero_add, List.cons_append, List.nil_append] at hv' hf
    rw [hv] at hv'; cases hv'
    exact ⟨v, hv, hmin, hf⟩

theorem plateIdWithMinimumScore_eq (h : Holder) (hw : HolderWF h) (a : List Int) :
    h.plateIdWithMinimumScore (some a) =
      (match argmin? ((h.entries.filter (fun e => a.contains e.1)).map Prod.snd) with
       | none => .error .valueError
       | some i => match ((h.entries.filter (fun e => a.contains e.1)).map Prod.fst)[i]? with
         | some p => .ok p
         | none => .error .indexError) := by
  have hids := maskFilter_map_fst h.plateIds h.scores (fun p => a.contains p) hw
  have hsc := maskFilter_map_snd h.plateIds h.scores (fun p => a.contains p) hw
  unfold Holder.plateIdWithMinimumScore Holder.entries
  simp only [hids, hsc]
  rfl

/-- `plate_id_with_minimum_score(eligible)`: the FIRST cell, in holder order, among the eligible cells of minimal score -/
theorem plateIdWithMinimumScore_first (h : Holder) (hw : HolderWF h) (a : List Int) (p : Int)
    (hp : h.plateIdWithMinimumScore (some a) = .ok p) :
    let E := h.entries.filter (fun e => a.contains e.1)
    ∃ (i : Nat) (sp : Score), E[i]? = some (p, sp) ∧ (∀ e ∈ E, e.2.lt sp = false) ∧
      ∀ (j : Nat) (e : Int × Score), j < i → E[j]? = some e → sp.lt e.2 = true := by
  intro E
  rw [plateIdWithMinimumScore_eq h hw a] at hp
  change (match argmin? (E.map Prod.snd) with
       | none => (Except.error Err.valueError : Except Err Int)
       | some i => match (E.map Prod.fst)[i]? with
         | some p => .ok p
         | none => .error .indexError) = .ok p at hp
  cases hag : argmin? (E.map Prod.snd) with
  | none => simp [hag] at hp
  | some i =>
    obtain ⟨v, hv, hmin, hf⟩ := argmin?_first _ _ hag
    rw [List.getElem?_map] at hv
    cases hEi : E[i]? with
    | none => simp [hEi] at hv
    | some e =>
      simp only [hEi, Option.map_some, Option.some.injEq] at hv
      simp only [hag, List.getElem?_map, hEi, Option.map_some] at hp
      cases hp
      refine ⟨i, e.2, by simp [hEi], ?_, ?_⟩
      · intro e' he'; rw [hv]; exact hmin e'.2 (List.mem_map_of_mem he')
      · intro j e' hj he'
        rw [hv]
        exact hf j e'.2 hj (by rw [List.getElem?_map, he']; rfl)

/-- what a filtering policy (or no policy) allows is among the candidates -/
theorem eligible_sub (s : Screen) (policy : Option Policy) (hpol : PolicyFilters policy) (batch : List Int) :
    ∀ x, x ∈ eligible s policy batch → x ∈ candidates s batch := by
  intro x hx
  unfold eligible at hx
  cases policy with
  | none => exact hx
  | some f => exact hpol f rfl _ _ x hx

/-- the candidates for a batch are candidates for every smaller batch -/
theorem candidates_mono (s : Screen) (b0 batch : List Int) (hb : ∀ x, x ∈ b0 → x ∈ batch) :
    ∀ p, p ∈ candidates s batch → p ∈ candidates s b0 := by
  intro p hp
  have := (mem_candidates s batch p).mp hp
  exact (mem_candidates s b0 p).mpr ⟨this.1, this.2.1, fun h => this.2.2 (hb p h)⟩

end Batchie.Lemmas.Scores
