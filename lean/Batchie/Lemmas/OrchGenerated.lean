/-
  C19 -- the next-step arithmetic of the hand model (`nextOf`, the part of
  `examine_output_dir_to_determine_current_iteration` after the scan loops) is the Python text itself:
  `Batchie.Gen.OrchNext` is re-generated from `nextflow/scripts/batchie.py` on every run by
  `translate/py2lean.py` (spec entry `Orch`: the statements between
  `if last_successful_run_meta is None: return ...` and the final `return`).  A change of that arithmetic in the
  script changes `OrchNext.body` and breaks the proofs below.
-/
import Batchie.Lemmas.OrchRun
import Batchie.Generated.Orch

namespace Batchie.Orchestrator
open Batchie.Gen

/-- for EVERY batch size (0 included) and EVERY scan state in which a completed step was seen: the hand model's
    next step is what the translated statements compute from `current_plate_idx`, `batch_size`,
    `current_iter_index` (the values the scan left behind) -/
theorem nextOf_generated (B : Nat) (st : ExSt) (m : Nat) (h : st.lastMeta = some m) :
    ((nextOf B st).iter : Int) =
        (OrchNext.run ((st.curPlate.getD 0 : Nat) : Int) (B : Int) ((st.curIter.getD 0 : Nat) : Int)).next_iter_index ∧
    ((nextOf B st).plate : Int) =
        (OrchNext.run ((st.curPlate.getD 0 : Nat) : Int) (B : Int) ((st.curIter.getD 0 : Nat) : Int)).next_plate_index ∧
    (OrchNext.run ((st.curPlate.getD 0 : Nat) : Int) (B : Int) ((st.curIter.getD 0 : Nat) : Int)).err = false ∧
    (nextOf B st).lastMeta = some m := by
  -- written so that it survives equivalent rewrites of the Python condition / branch order (tested:
  -- `current_plate_idx + 1 >= batch_size`, swapped branches with `<`): split the generated `if`, decide by `omega`
  unfold nextOf OrchNext.run OrchNext.body
  rw [h]
  simp only [decide_eq_true_eq]
  generalize st.curPlate.getD 0 = j
  generalize st.curIter.getD 0 = i
  generalize (match st.lastPlate with
      | some (pi, p) => Option.map (fun f => ({ iter := pi, plate := p.idx, file := f } : FileRef)) (screenOf p)
      | none => none) = scr
  by_cases hb : B ≤ j + 1
  · simp only [hb, ↓reduceIte]
    refine ⟨?_, ?_, ?_, ?_⟩ <;>
      first | rfl | trivial | (split <;> first | rfl | (simp only []; omega) | (exfalso; omega))
  · simp only [hb, ↓reduceIte]
    refine ⟨?_, ?_, ?_, ?_⟩ <;>
      first | rfl | trivial | (split <;> first | rfl | (simp only []; omega) | (exfalso; omega))

variable (cfg : Cfg)

/-- the successor step that `examine` answers on every reachable directory (`C19_examine_correct`) is the translated
    arithmetic applied to the index `(l.iter, l.plate)` of the last completed step -/
theorem nextOfProg_generated (hB : 1 ≤ cfg.B) {p : Prog} (hc : CRun cfg p) {l : Launch}
    (hl : p.flat.getLast? = some l) :
    ((nextOfProg cfg p).iter : Int) = (OrchNext.run (l.plate : Int) (cfg.B : Int) (l.iter : Int)).next_iter_index ∧
    ((nextOfProg cfg p).plate : Int) = (OrchNext.run (l.plate : Int) (cfg.B : Int) (l.iter : Int)).next_plate_index ∧
    (OrchNext.run (l.plate : Int) (cfg.B : Int) (l.iter : Int)).err = false := by
  have hp := hc.ok cfg hB
  have hls := lastStep_of_CRun cfg hc
  rw [hl] at hls
  simp only [Option.map_some] at hls
  rw [nextOfProg_iter, nextOfProg_plate]
  unfold OrchNext.run OrchNext.body
  unfold lastStep at hls
  cases hcur : p.cur.getLast? with
  | some l' =>
    rw [hcur] at hls
    simp only [Option.some.injEq, Prod.mk.injEq] at hls
    have hne : p.cur ≠ [] := by intro e; rw [e] at hcur; simp at hcur
    have hlen : 1 ≤ p.cur.length := by
      cases hc' : p.cur with
      | nil => exact absurd hc' hne
      | cons _ _ => simp
    have h2 := hp.2
    obtain ⟨h3, h4, _⟩ := hls
    simp only [decide_eq_true_eq]
    refine ⟨?_, ?_, ?_⟩ <;>
      first | rfl | trivial | (split <;> first | rfl | (simp only []; omega) | (exfalso; omega))
  | none =>
    rw [hcur] at hls
    have hcur' : p.cur = [] := by simpa using hcur
    cases hcs : p.cs.getLast? with
    | none => rw [hcs] at hls; simp at hls
    | some c =>
      rw [hcs] at hls
      simp only [Option.map_eq_some_iff, Prod.mk.injEq] at hls
      obtain ⟨l'', _, h1, h2, _⟩ := hls
      have hcB : c.length = cfg.B := hp.1 c (List.mem_of_getLast? hcs)
      have hcsne : 1 ≤ p.cs.length := by
        cases hh : p.cs with
        | nil => rw [hh] at hcs; simp at hcs
        | cons _ _ => simp
      have hcl : p.cur.length = 0 := by rw [hcur']; rfl
      simp only [decide_eq_true_eq]
      refine ⟨?_, ?_, ?_⟩ <;>
        first | rfl | trivial | (split <;> first | rfl | (simp only []; omega) | (exfalso; omega))

end Batchie.Orchestrator
