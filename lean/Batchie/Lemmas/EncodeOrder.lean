/-
  C01 helper lemmas, part 1: the sort orders used by the id encoding are total and
  transitive, so `List.mergeSort` really sorts; `eraseDups` removes every duplicate.
-/
import Batchie.Model.Screen

namespace Batchie.Screen

/-! ### the (name, dose) order of `sort_values(by=["name","dose"])` -/

theorem name_lt_trichotomy (a b : Name) : a < b ∨ a = b ∨ b < a := by
  by_cases h1 : a < b
  · exact Or.inl h1
  · by_cases h2 : b < a
    · exact Or.inr (Or.inr h2)
    · exact Or.inr (Or.inl (List.le_antisymm (List.not_lt.mp h2) (List.not_lt.mp h1)))

theorem keyLe_iff (a b : Name × Dose) :
    keyLe a b = true ↔ a.1 < b.1 ∨ (a.1 = b.1 ∧ a.2 ≤ b.2) := by
  unfold keyLe
  by_cases h1 : a.1 < b.1
  · simp [h1]
  · by_cases h2 : a.1 = b.1
    · simp [h2, List.lt_irrefl]
    · simp [h1, h2]

theorem keyLe_total (a b : Name × Dose) : (keyLe a b || keyLe b a) = true := by
  rw [Bool.or_eq_true, keyLe_iff, keyLe_iff]
  rcases name_lt_trichotomy a.1 b.1 with h | h | h
  · exact Or.inl (Or.inl h)
  · rcases @Rat.le_total a.2 b.2 with h' | h'
    · exact Or.inl (Or.inr ⟨h, h'⟩)
    · exact Or.inr (Or.inr ⟨h.symm, h'⟩)
  · exact Or.inr (Or.inl h)

theorem keyLe_trans (a b c : Name × Dose) : keyLe a b = true → keyLe b c = true → keyLe a c = true := by
  rw [keyLe_iff, keyLe_iff, keyLe_iff]
  rintro (h1 | ⟨h1, h1'⟩) (h2 | ⟨h2, h2'⟩)
  · exact Or.inl (List.lt_trans h1 h2)
  · exact Or.inl (h2 ▸ h1)
  · exact Or.inl (h1 ▸ h2)
  · exact Or.inr ⟨h1.trans h2, Rat.le_trans h1' h2'⟩

/-- `keyLe` in both directions forces equal keys (so a `keyLe`-sorted duplicate-free list is strictly sorted) -/
theorem keyLe_antisymm (a b : Name × Dose) : keyLe a b = true → keyLe b a = true → a = b := by
  rw [keyLe_iff, keyLe_iff]
  rintro (h1 | ⟨h1, h1'⟩) (h2 | ⟨h2, h2'⟩)
  · exact absurd h2 (List.lt_asymm h1)
  · rw [h2] at h1; exact absurd h1 (List.lt_irrefl _)
  · rw [h1] at h2; exact absurd h2 (List.lt_irrefl _)
  · exact Prod.ext h1 (Rat.le_antisymm h1' h2')

/-! ### the name order of `sort_values(by="val")` -/

theorem nameLe_total (a b : Name) : (nameLe a b || nameLe b a) = true := by
  simp only [nameLe, Bool.or_eq_true, decide_eq_true_eq]
  exact List.le_total a b

theorem nameLe_trans (a b c : Name) : nameLe a b = true → nameLe b c = true → nameLe a c = true := by
  simp only [nameLe, decide_eq_true_eq]
  exact List.le_trans

theorem nameLe_antisymm (a b : Name) : nameLe a b = true → nameLe b a = true → a = b := by
  simp only [nameLe, decide_eq_true_eq]
  exact List.le_antisymm

/-! ### `eraseDups` (model of `drop_duplicates` / `np.unique`) -/

theorem nodup_eraseDups {α : Type} [BEq α] [LawfulBEq α] (l : List α) : l.eraseDups.Nodup := by
  generalize hn : l.length = n
  induction n using Nat.strongRecOn generalizing l with
  | _ n ih =>
    cases l with
    | nil => simp
    | cons a as =>
      rw [List.eraseDups_cons, List.nodup_cons]
      constructor
      · simp
      · have hlt : (as.filter fun b => !b == a).length < n := by
          have := List.length_filter_le (fun b => !b == a) as
          simp at hn; omega
        exact ih _ hlt _ rfl

/-- sorting the duplicate-free list keeps it duplicate-free, with the same members as the data -/
theorem nodup_sorted_unique {α : Type} [BEq α] [LawfulBEq α] (le : α → α → Bool) (l : List α) :
    ((l.eraseDups).mergeSort le).Nodup :=
  (List.mergeSort_perm _ le).nodup_iff.mpr (nodup_eraseDups l)

theorem mem_sorted_unique {α : Type} [BEq α] [LawfulBEq α] (le : α → α → Bool) (l : List α) (a : α) :
    a ∈ (l.eraseDups).mergeSort le ↔ a ∈ l := by
  rw [(List.mergeSort_perm _ le).mem_iff, List.mem_eraseDups]

end Batchie.Screen
