/-
  C11 / C13 helper lemmas, part 5: FixedSizeSmoother, OptimalSizeSmoother (incl. optimality of the chosen size).
-/
import Batchie.Lemmas.PrepWrap
import Batchie.Lemmas.PrepHoldout
namespace Batchie.Prep
open Batchie.Proto Batchie.Screen

/-- number of selected rows carrying plate name `p`, when the selection is a per-plate pick over the plates of a
    screen whose plate ids are the fresh encoding of its plate names -/
theorem count_plate_of_picked (rows : List Row) (pids : List Int)
    (hpids : pids = (rows.map (·.plate)).map (sId (freshSMap (rows.map (·.plate)))))
    {len : List Nat → Nat} {picks : List (List Nat)}
    (hp : Picked len ((uniqueSorted pids).map (idxOfId pids)) picks) (p : Name) :
    ((maskFilter rows (selOfIdx rows.length picks.flatten)).filter (fun r => r.plate == p)).length
      = if p ∈ rows.map (·.plate) then len (posOf (rows.map (·.plate)) p) else 0 := by
  have hdis : ((uniqueSorted pids).map (idxOfId pids)).Pairwise (fun a b => ∀ i ∈ a, i ∉ b) :=
    pairwise_disjoint_map_idxOfId _ _ (nodup_uniqueSorted _)
  obtain ⟨hnd, hcnt⟩ := hp.count hdis
  have hlen : pids.length = rows.length := by rw [hpids]; simp
  have hlt : ∀ i ∈ picks.flatten, i < rows.length := by
    intro i hi
    obtain ⟨q, hq, hiq⟩ := hp.mem_flatten i hi
    obtain ⟨x, _, rfl⟩ := List.mem_map.mp hq
    rw [← hlen]; exact idxOfId_lt hiq
  rw [count_selected_plate _ _ _ hnd hlt]
  by_cases hmem : p ∈ rows.map (·.plate)
  · rw [if_pos hmem]
    have ht : posOf (rows.map (·.plate)) p = idxOfId pids (sId (freshSMap (rows.map (·.plate))) p) := by
      rw [hpids]
      exact (idxOfId_map_inj _ _ (fun a ha b hb => sId_inj _ a b ha hb) p hmem).symm
    have htm : posOf (rows.map (·.plate)) p ∈ (uniqueSorted pids).map (idxOfId pids) := by
      rw [ht]
      apply List.mem_map_of_mem
      rw [mem_uniqueSorted, hpids]
      exact List.mem_map_of_mem hmem
    exact hcnt _ htm
  · rw [if_neg hmem, posOf_eq_nil hmem]
    rw [filter_eq_nil_of_forall _ _ (by intro a _; rfl)]; rfl

/-! ### FixedSizeSmoother / OptimalSizeSmoother -/

theorem sizeLoop_picked (k : Nat) (plates log : List (List Nat)) (chosen : List Nat)
    (hq : ∀ q ∈ plates, q.Nodup) (h : sizeLoop k plates log = .ok chosen) :
    ∃ picks, chosen = picks.flatten ∧ Picked (fun q => if q.length < k then 0 else k) plates picks := by
  induction plates generalizing log chosen with
  | nil =>
    simp only [sizeLoop] at h
    cases h
    exact ⟨[], rfl, .nil⟩
  | cons p ps ih =>
    have hq' : ∀ q ∈ ps, q.Nodup := fun q hq' => hq q (List.mem_cons_of_mem _ hq')
    unfold sizeLoop at h
    by_cases h1 : p.length < k
    · rw [if_pos h1] at h
      obtain ⟨picks, e, hp⟩ := ih log chosen hq' h
      exact ⟨[] :: picks, by simpa using e, .cons List.nodup_nil (by simp) (by simp [h1]) hp⟩
    · rw [if_neg h1] at h
      by_cases h2 : (p.length == k) = true
      · rw [if_pos h2] at h
        obtain ⟨more, hmore, e⟩ := map_ok h
        obtain ⟨picks, e', hp⟩ := ih log more hq' hmore
        refine ⟨p :: picks, by rw [← e, e']; simp, .cons (hq p List.mem_cons_self) (fun i hi => hi) ?_ hp⟩
        simp only [h1, if_false]; simpa using h2
      · rw [if_neg h2] at h
        cases log with
        | nil => simp at h
        | cons c rest =>
          simp only at h
          by_cases hv : validChoice p k c = true
          · rw [hv] at h
            simp only [Bool.not_true, Bool.false_eq_true, if_false] at h
            obtain ⟨more, hmore, e⟩ := map_ok h
            obtain ⟨picks, e', hp⟩ := ih rest more hq' hmore
            obtain ⟨hl, hnd, hsub⟩ := validChoice_iff.mp hv
            exact ⟨c :: picks, by rw [← e, e']; simp, .cons hnd hsub (by simp [h1, hl]) hp⟩
          · simp [hv] at h
/-! ### argmax -/

theorem argmaxGo_spec (vs : List Nat) (i bestI best : Nat) (pre : List Nat)
    (hi : pre.length = i) (hb : bestI < i) (hbest : pre[bestI]? = some best) (hmax : ∀ v ∈ pre, v ≤ best) :
    let j := argmaxGo i bestI best vs
    j < (pre ++ vs).length ∧ ∀ v ∈ pre ++ vs, v ≤ (pre ++ vs)[j]! := by
  induction vs generalizing i bestI best pre with
  | nil =>
    simp only [argmaxGo, List.append_nil]
    refine ⟨by omega, ?_⟩
    intro v hv
    have : pre[bestI]! = best := by
      rw [List.getElem!_eq_getElem?_getD, hbest]; rfl
    rw [this]; exact hmax v hv
  | cons v vs ih =>
    simp only [argmaxGo]
    have e : pre ++ v :: vs = (pre ++ [v]) ++ vs := by simp
    split
    · rename_i hgt
      rw [e]
      apply ih (i + 1) i v (pre ++ [v]) (by simp [hi]) (by omega)
      · rw [List.getElem?_append_right (by omega)]; simp [hi]
      · intro w hw
        rcases List.mem_append.mp hw with hw | hw
        · exact Nat.le_of_lt (Nat.lt_of_le_of_lt (hmax w hw) hgt)
        · simp at hw; omega
    · rename_i hle
      rw [e]
      apply ih (i + 1) bestI best (pre ++ [v]) (by simp [hi]) (by omega)
      · rw [List.getElem?_append_left (by omega)]; exact hbest
      · intro w hw
        rcases List.mem_append.mp hw with hw | hw
        · exact hmax w hw
        · simp at hw; omega

theorem argmaxFirst_spec (vs : List Nat) (h : vs ≠ []) :
    argmaxFirst vs < vs.length ∧ ∀ v ∈ vs, v ≤ vs[argmaxFirst vs]! := by
  cases vs with
  | nil => exact absurd rfl h
  | cons v vs =>
    have := argmaxGo_spec vs 1 0 v [v] rfl (by omega) rfl (by simp)
    simpa [argmaxFirst] using this

/-! ### the optimal plate size -/

/-- experiments retained when every plate of size ≥ `t` is cut to `t` and the others are dropped -/
def retained (sizes : List Nat) (t : Nat) : Nat := t * (sizes.filter (fun x => decide (t ≤ x))).length

def natLe (a b : Nat) : Bool := decide (a ≤ b)

theorem sorted_mergeSort_nat (l : List Nat) : (l.mergeSort natLe).Pairwise (· ≤ ·) := by
  have := List.pairwise_mergeSort (le := natLe) (by intro a b c; simp only [natLe, decide_eq_true_eq]; omega)
    (by intro a b; simp only [natLe, Bool.or_eq_true, decide_eq_true_eq]; omega) l
  exact this.imp (by intro a b h; simpa [natLe] using h)

theorem sorted_suffix_count (l : List Nat) (hs : l.Pairwise (· ≤ ·)) (i : Nat) (hi : i < l.length) :
    l.length - i ≤ (l.filter (fun x => decide (l[i] ≤ x))).length := by
  have hall : ∀ x ∈ l.drop i, decide (l[i] ≤ x) = true := by
    intro x hx
    obtain ⟨k, hk, rfl⟩ := List.getElem_of_mem hx
    rw [List.getElem_drop]
    simp only [decide_eq_true_eq]
    rcases Nat.eq_zero_or_pos k with rfl | hk0
    · simp
    · exact List.pairwise_iff_getElem.mp hs i (i + k) hi (by simp at hk; omega) (by omega)
  obtain ⟨a, ha⟩ : ∃ a, a = l[i] := ⟨_, rfl⟩
  rw [← ha] at hall ⊢
  have h1 : ((l.drop i).filter (fun x => decide (a ≤ x))).length = l.length - i := by
    rw [filter_eq_self_of_forall _ _ hall]; simp
  have h2 : (l.filter (fun x => decide (a ≤ x))).length
      = ((l.take i).filter (fun x => decide (a ≤ x))).length + ((l.drop i).filter (fun x => decide (a ≤ x))).length := by
    rw [← List.length_append, ← List.filter_append, List.take_append_drop]
  omega

theorem sorted_threshold (l : List Nat) (hs : l.Pairwise (· ≤ ·)) (t : Nat) :
    ∃ i, i ≤ l.length ∧ (l.filter (fun x => decide (t ≤ x))).length = l.length - i ∧ ∀ h : i < l.length, t ≤ l[i] := by
  induction l with
  | nil => exact ⟨0, by simp, by simp, by simp⟩
  | cons a l ih =>
    rw [List.pairwise_cons] at hs
    by_cases hta : t ≤ a
    · refine ⟨0, by simp, ?_, fun _ => by simpa using hta⟩
      rw [filter_eq_self_of_forall]
      · simp
      · intro x hx
        rcases List.mem_cons.mp hx with rfl | hx
        · simpa using hta
        · have := hs.1 x hx; simp only [decide_eq_true_eq]; omega
    · obtain ⟨i, hi, hc, hle⟩ := ih hs.2
      refine ⟨i + 1, by simp; omega, ?_, ?_⟩
      · rw [List.filter_cons]; simp only [hta, decide_false, Bool.false_eq_true, if_false]
        rw [hc]; simp
      · intro h
        simp only [List.getElem_cons_succ]
        exact hle (by simpa using h)

theorem retained_perm {l₁ l₂ : List Nat} (h : l₁.Perm l₂) (t : Nat) : retained l₁ t = retained l₂ t := by
  unfold retained
  rw [(h.filter _).length_eq]

/-- **optimality**: the chosen size retains at least as many experiments as any size whatsoever -/
theorem optimalSize_optimal (sizes : List Nat) (t : Nat) : retained sizes t ≤ retained sizes (optimalSize sizes) := by
  by_cases hne : sizes = []
  · subst hne; simp [retained]
  unfold optimalSize
  simp only
  have hnat : (fun a b : Nat => decide (a ≤ b)) = natLe := rfl
  rw [hnat]
  generalize hsrt : sizes.mergeSort natLe = srt
  have hperm : srt.Perm sizes := hsrt ▸ List.mergeSort_perm _ _
  have hs : srt.Pairwise (· ≤ ·) := hsrt ▸ sorted_mergeSort_nat sizes
  have hsne : srt ≠ [] := by
    intro e; rw [e] at hperm; exact hne hperm.symm.eq_nil
  generalize hvals : srt.zipIdx.map (fun p => p.1 * (srt.length - p.2)) = vals
  have hvlen : vals.length = srt.length := by simp [← hvals]
  have hvne : vals ≠ [] := by
    intro e; rw [e] at hvlen; exact hsne (List.length_eq_zero_iff.mp hvlen.symm)
  obtain ⟨hj, hmax⟩ := argmaxFirst_spec vals hvne
  generalize argmaxFirst vals = j at hj hmax ⊢
  have hj' : j < srt.length := hvlen ▸ hj
  have hval : ∀ i (hi : i < srt.length), vals[i]'(hvlen ▸ hi) = srt[i] * (srt.length - i) := by
    intro i hi; simp [← hvals]
  rw [getElem!_pos srt j hj', retained_perm hperm.symm t, retained_perm hperm.symm srt[j]]
  obtain ⟨i, hi, hc, hle⟩ := sorted_threshold srt hs t
  have h1 : retained srt t ≤ vals[j]'hj := by
    unfold retained; rw [hc]
    by_cases hin : i < srt.length
    · have := hmax (vals[i]'(hvlen ▸ hin)) (List.getElem_mem _)
      rw [getElem!_pos vals j hj, hval i hin] at this
      exact Nat.le_trans (Nat.mul_le_mul_right _ (hle hin)) this
    · have : srt.length - i = 0 := by omega
      rw [this]; simp
  have h2 : vals[j]'hj ≤ retained srt srt[j] := by
    rw [hval j hj']
    unfold retained
    exact Nat.mul_le_mul_left _ (sorted_suffix_count srt hs j hj')
  exact Nat.le_trans h1 h2

theorem optimalSize_mem (sizes : List Nat) (hne : sizes ≠ []) : optimalSize sizes ∈ sizes := by
  unfold optimalSize
  simp only
  have hnat : (fun a b : Nat => decide (a ≤ b)) = natLe := rfl
  rw [hnat]
  generalize hsrt : sizes.mergeSort natLe = srt
  have hperm : srt.Perm sizes := hsrt ▸ List.mergeSort_perm _ _
  have hsne : srt ≠ [] := by
    intro e; rw [e] at hperm; exact hne hperm.symm.eq_nil
  generalize hvals : srt.zipIdx.map (fun p => p.1 * (srt.length - p.2)) = vals
  have hvlen : vals.length = srt.length := by simp [← hvals]
  have hvne : vals ≠ [] := by
    intro e; rw [e] at hvlen; exact hsne (List.length_eq_zero_iff.mp hvlen.symm)
  obtain ⟨hj, _⟩ := argmaxFirst_spec vals hvne
  have hj' : argmaxFirst vals < srt.length := hvlen ▸ hj
  rw [getElem!_pos srt _ hj']
  exact hperm.mem_iff.mp (List.getElem_mem _)

/-! ### the smoothers on the screen the wrapper hands them -/

/-- sizes of the plates of a row list, by plate name -/
def plateSizes (rows : List Row) : List Nat :=
  ((rows.map (·.plate)).eraseDups).map (fun p => (rows.filter (fun r => r.plate == p)).length)

theorem length_posOf_rows (rows : List Row) (p : Name) :
    (posOf (rows.map (·.plate)) p).length = (rows.filter (fun r => r.plate == p)).length := by
  rw [filter_plate_eq_posOf_map, List.length_map]

theorem nodup_map_on {α β : Type} (f : α → β) (l : List α) (hinj : ∀ a ∈ l, ∀ b ∈ l, f a = f b → a = b) (h : l.Nodup) :
    (l.map f).Nodup := by
  induction l with
  | nil => simp
  | cons a l ih =>
    rw [List.nodup_cons] at h
    rw [List.map_cons, List.nodup_cons]
    refine ⟨?_, ih (fun x hx y hy => hinj x (List.mem_cons_of_mem _ hx) y (List.mem_cons_of_mem _ hy)) h.2⟩
    intro hm
    obtain ⟨b, hb, e⟩ := List.mem_map.mp hm
    have := hinj b (List.mem_cons_of_mem _ hb) a List.mem_cons_self e
    exact h.1 (this ▸ hb)

/-- the plate index lists of a built screen, up to order, are the position lists of its distinct plate names -/
theorem plateIdx_perm {c : Name} {a : Nat} {rows : List Row} {u : Screen} (hu : build c a rows = .ok u) :
    ((plateIdx u).map List.length).Perm (plateSizes rows) := by
  have B := build_ok hu
  unfold plateIdx plateSizes
  rw [B.pids_eq]
  have hcongr : ∀ p ∈ (rows.map (·.plate)).eraseDups, (rows.filter (fun r => r.plate == p)).length
      = (List.length ∘ idxOfId ((rows.map (·.plate)).map (sId (freshSMap (rows.map (·.plate))))) ∘ sId (freshSMap (rows.map (·.plate)))) p := by
    intro p hp
    have hp' : p ∈ rows.map (·.plate) := List.mem_eraseDups.mp hp
    simp only [Function.comp]
    rw [idxOfId_map_inj _ _ (fun a ha b hb => sId_inj _ a b ha hb) p hp', length_posOf_rows]
  rw [List.map_congr_left hcongr, ← List.map_map, ← List.map_map]
  generalize hpn : rows.map (·.plate) = pn
  generalize hf : sId (freshSMap pn) = f
  have hinj : ∀ a ∈ pn, ∀ b ∈ pn, f a = f b → a = b := by
    intro a ha b hb h; subst hf; exact sId_inj pn a b ha hb h
  have h1 : (uniqueSorted (pn.map f)).Perm ((pn.eraseDups).map f) := by
    rw [List.perm_ext_iff_of_nodup (nodup_uniqueSorted _)]
    · intro x
      rw [mem_uniqueSorted]
      simp only [List.mem_map, List.mem_eraseDups]
    · apply nodup_map_on _ _ _ (nodup_eraseDups pn)
      intro a ha b hb
      exact hinj a (List.mem_eraseDups.mp ha) b (List.mem_eraseDups.mp hb)
  exact (h1.map _).map _

theorem fixedSize_sublist {k : Int} {choices : List (List Nat)} {u nu : Screen} (h : fixedSize k choices u = .ok nu) :
    (rowsOf nu).Sublist (rowsOf u) := by
  unfold fixedSize at h
  simp only at h
  split at h
  · split at h
    · exact (select_ok h).rows_eq ▸ maskFilter_sublist _ _
    · cases h
  · obtain ⟨chosen, _, h⟩ := bind_ok h
    exact (select_ok h).rows_eq ▸ maskFilter_sublist _ _

/-- **FixedSizeSmoother**: every plate name `p` keeps none of its rows (plate smaller than the size) or exactly `k` -/
theorem fixedSize_shape {c : Name} {a : Nat} {rows : List Row} {u nu : Screen} {k : Int} {choices : List (List Nat)}
    (hu : build c a rows = .ok u) (h : fixedSize k choices u = .ok nu) (p : Name) :
    ((rowsOf nu).filter (fun r => r.plate == p)).length =
      if (rows.filter (fun r => r.plate == p)).length < k.toNat then 0 else k.toNat := by
  have B := build_ok hu
  unfold fixedSize at h
  simp only at h
  split at h
  · rename_i hk
    split at h
    · rename_i he
      rw [B.rows_eq] at he
      have : rows = [] := by simpa using he
      subst this
      rw [(select_ok h).rows_eq, B.rows_eq]
      have : k.toNat = 0 := by omega
      simp [maskFilter, this]
    · cases h
  · obtain ⟨chosen, hc, h⟩ := bind_ok h
    obtain ⟨picks, rfl, hp⟩ := sizeLoop_picked _ _ _ _ (by
      intro q hq; obtain ⟨x, _, rfl⟩ := List.mem_map.mp hq; exact nodup_idxOfId _ _) hc
    rw [(select_ok h).rows_eq, B.rows_eq]
    have hpids : u.pids = (rows.map (·.plate)).map (sId (freshSMap (rows.map (·.plate)))) := B.pids_eq
    unfold plateIdx at hp
    rw [count_plate_of_picked rows u.pids hpids hp p]
    by_cases hmem : p ∈ rows.map (·.plate)
    · rw [if_pos hmem, length_posOf_rows]
    · rw [if_neg hmem]
      have : rows.filter (fun r => r.plate == p) = [] := by
        apply filter_eq_nil_of_forall
        intro r hr
        have : r.plate ≠ p := fun e => hmem (e ▸ List.mem_map_of_mem hr)
        simpa using this
      rw [this]; simp
      omega

theorem optimal_sublist {choices : List (List Nat)} {u nu : Screen} (h : optimalSizeSmoother choices u = .ok nu) :
    (rowsOf nu).Sublist (rowsOf u) := by
  unfold optimalSizeSmoother at h
  simp only at h
  split at h
  · cases h
  · obtain ⟨chosen, _, h⟩ := bind_ok h
    exact (select_ok h).rows_eq ▸ maskFilter_sublist _ _

/-- **OptimalSizeSmoother**: there is one size `k` -- an existing plate size -- such that every plate name keeps none of
    its rows or exactly `k`, and no size whatsoever would retain more experiments than `k` does -/
theorem optimal_shape {c : Name} {a : Nat} {rows : List Row} {u nu : Screen} {choices : List (List Nat)}
    (hu : build c a rows = .ok u) (h : optimalSizeSmoother choices u = .ok nu) :
    ∃ k, k ∈ plateSizes rows ∧
      (∀ p : Name, ((rowsOf nu).filter (fun r => r.plate == p)).length =
        if (rows.filter (fun r => r.plate == p)).length < k then 0 else k) ∧
      (∀ t : Nat, retained (plateSizes rows) t ≤ retained (plateSizes rows) k) := by
  have B := build_ok hu
  have hperm := plateIdx_perm hu
  unfold optimalSizeSmoother at h
  simp only at h
  split at h
  · cases h
  · rename_i hne
    obtain ⟨chosen, hc, h⟩ := bind_ok h
    generalize hk : optimalSize ((plateIdx u).map (·.length)) = k at hc
    have hne' : (plateIdx u).map (·.length) ≠ [] := by
      intro e; apply hne; simpa using e
    refine ⟨k, ?_, ?_, ?_⟩
    · rw [← hk]; exact hperm.mem_iff.mp (optimalSize_mem _ hne')
    · intro p
      obtain ⟨picks, rfl, hp⟩ := sizeLoop_picked _ _ _ _ (by
        intro q hq; obtain ⟨x, _, rfl⟩ := List.mem_map.mp hq; exact nodup_idxOfId _ _) hc
      rw [(select_ok h).rows_eq, B.rows_eq]
      have hpids : u.pids = (rows.map (·.plate)).map (sId (freshSMap (rows.map (·.plate)))) := B.pids_eq
      unfold plateIdx at hp
      rw [count_plate_of_picked rows u.pids hpids hp p]
      by_cases hmem : p ∈ rows.map (·.plate)
      · rw [if_pos hmem, length_posOf_rows]
      · rw [if_neg hmem]
        have : rows.filter (fun r => r.plate == p) = [] := by
          apply filter_eq_nil_of_forall
          intro r hr
          have : r.plate ≠ p := fun e => hmem (e ▸ List.mem_map_of_mem hr)
          simpa using this
        rw [this]
        have hkpos : 0 < k := by
          rw [← hk]
          have hm := optimalSize_mem _ hne'
          obtain ⟨q, hq, e⟩ := List.mem_map.mp hm
          obtain ⟨x, hx, rfl⟩ := List.mem_map.mp hq
          rw [← e]
          have hx' : x ∈ u.pids := mem_uniqueSorted.mp hx
          obtain ⟨i, hi, rfl⟩ := List.getElem_of_mem hx'
          exact List.length_pos_of_mem (mem_idxOfId.mpr ⟨hi, rfl⟩)
        simp [hkpos]
    · intro t
      rw [← retained_perm hperm t, ← retained_perm hperm k, ← hk]
      exact optimalSize_optimal _ t

end Batchie.Prep
