/-
  Helper lemmas for the model of the `ExperimentSpace` query API, the derived `ScreenBase` properties and
  `Screen.combine` (`Model/ScreenApi.lean`).
-/
import Batchie.Lemmas.EncodeAudit
import Batchie.Model.ScreenApi

namespace Batchie.ScreenApi
open Batchie.Proto Batchie.Screen

/-! ### `.item()` -/

theorem item?_ok_iff {α : Type} (l : List α) (x : α) : item? l = .ok x ↔ l = [x] := by
  match l with
  | [] => simp [item?]
  | [y] => simp [item?]
  | y :: z :: r => simp [item?]

theorem item?_nil {α : Type} : item? ([] : List α) = .error .valueError := rfl

theorem item?_two {α : Type} (x y : α) (r : List α) : item? (x :: y :: r) = .error .valueError := rfl

theorem item?_error_of_length {α : Type} (l : List α) (h : l.length ≠ 1) : item? l = .error .valueError := by
  match l with
  | [] => rfl
  | [y] => simp at h
  | y :: z :: r => rfl

/-- in a list whose `f`-images are pairwise different, selecting by the image of a member returns exactly that member -/
theorem filter_eq_singleton_of_nodup_map {α β : Type} [BEq β] [LawfulBEq β] (f : α → β) (l : List α) (h : (l.map f).Nodup)
    (x : α) (hx : x ∈ l) : l.filter (fun e => f e == f x) = [x] := by
  induction l with
  | nil => simp at hx
  | cons a l ih =>
    rw [List.map_cons, List.nodup_cons] at h
    rcases List.mem_cons.mp hx with rfl | hx'
    · have : l.filter (fun e => f e == f x) = [] := by
        rw [List.filter_eq_nil_iff]
        intro e he hfe
        exact h.1 (List.mem_map.mpr ⟨e, he, eq_of_beq hfe⟩)
      simp [this]
    · have hne : (f a == f x) = false := by
        rw [Bool.eq_false_iff]; intro hb
        exact h.1 (List.mem_map.mpr ⟨x, hx', (eq_of_beq hb).symm⟩)
      rw [List.filter_cons, hne]
      exact ih h.2 hx'

/-! ### sorted unique -/

theorem mem_sortedUniqueInts (l : List Int) (x : Int) : x ∈ sortedUniqueInts l ↔ x ∈ l := mem_sorted_unique _ l x

theorem sortedUniqueInts_strict (l : List Int) : (sortedUniqueInts l).Pairwise (· < ·) := sortedUniqueInt_strict l

theorem sortedUniqueInts_nodup (l : List Int) : (sortedUniqueInts l).Nodup := nodup_sorted_unique _ l

theorem mem_sortedUniqueDoses (l : List Dose) (x : Dose) : x ∈ sortedUniqueDoses l ↔ x ∈ l := mem_sorted_unique _ l x

theorem sortedUniqueDoses_nodup (l : List Dose) : (sortedUniqueDoses l).Nodup := nodup_sorted_unique _ l

theorem sortedUniqueDoses_sorted (l : List Dose) : (sortedUniqueDoses l).Pairwise (fun a b => a ≤ b ∧ a ≠ b) := by
  have hs : (sortedUniqueDoses l).Pairwise (fun a b => doseLe a b = true) :=
    List.pairwise_mergeSort (by intro a b c; simp only [doseLe, decide_eq_true_eq]; exact Rat.le_trans)
      (by intro a b; simp only [doseLe, Bool.or_eq_true, decide_eq_true_eq]; exact Rat.le_total) _
  exact (hs.and (sortedUniqueDoses_nodup l)).imp (fun ⟨h1, h2⟩ => ⟨by simpa [doseLe] using h1, h2⟩)

/-! ### counting rows by key -/

theorem sum_map_add {κ : Type} (ks : List κ) (f g : κ → Nat) :
    (ks.map (fun k => f k + g k)).sum = (ks.map f).sum + (ks.map g).sum := by
  induction ks with
  | nil => rfl
  | cons k ks ih => simp only [List.map_cons, List.sum_cons, ih]; omega

theorem sum_map_indicator {κ : Type} [BEq κ] [LawfulBEq κ] (ks : List κ) (x : κ) (c : Bool) :
    (ks.map (fun k => if (x == k && c) = true then 1 else 0)).sum = if c = true then ks.count x else 0 := by
  induction ks with
  | nil => cases c <;> rfl
  | cons k ks ih =>
    simp only [List.map_cons, List.sum_cons, ih, List.count_cons]
    cases c
    · simp
    · by_cases h : x = k
      · subst h; simp; omega
      · have h' : ¬ k = x := fun e => h e.symm
        simp [h, h']

/-- rows satisfying `p`, counted key by key over a duplicate-free list of keys that covers the rows -/
theorem length_filter_by_key {α κ : Type} [BEq κ] [LawfulBEq κ] (key : α → κ) (p : α → Bool) (ks : List κ) (hnd : ks.Nodup)
    (l : List α) (hcov : ∀ e ∈ l, key e ∈ ks) :
    (l.filter p).length = (ks.map (fun k => (l.filter (fun e => key e == k && p e)).length)).sum := by
  induction l with
  | nil =>
    have : ∀ (ks : List κ), (ks.map (fun _ => 0)).sum = 0 := by
      intro ks; induction ks with
      | nil => rfl
      | cons k ks ih => simp [ih]
    simp [this]
  | cons a l ih =>
    have ih' := ih (fun e he => hcov e (List.mem_cons_of_mem _ he))
    have hstep : ∀ k, ((a :: l).filter (fun e => key e == k && p e)).length =
        (if (key a == k && p a) = true then 1 else 0) + (l.filter (fun e => key e == k && p e)).length := by
      intro k
      rw [List.filter_cons]
      split <;> simp <;> omega
    rw [List.map_congr_left (fun k _ => hstep k), sum_map_add, sum_map_indicator, ← ih', List.filter_cons]
    have hc : ks.count (key a) = 1 := by
      have h1 := (List.nodup_iff_count.mp hnd) (key a)
      have h2 : 0 < ks.count (key a) := List.count_pos_iff.mpr (hcov a List.mem_cons_self)
      omega
    cases hp : p a <;> simp [hc] <;> omega

end Batchie.ScreenApi
