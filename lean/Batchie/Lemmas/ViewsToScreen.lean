/-
  C14 helper lemmas, part 3: plate-uniformity survives row selection, hence `to_screen()` of any view of a
  well-formed screen succeeds, and the new screen consists of the selected rows.
-/
import Batchie.Lemmas.ViewsUnique
import Batchie.Lemmas.EncodeSuccess

namespace Batchie.Views
open Batchie.Proto Batchie.Screen

/-! ### the plate-uniformity test, semantically -/

/-- rows with the same plate name carry the same mask bit -/
def UniformPairs (pn : List Name) (mk : List Bool) : Prop :=
  ∀ a ∈ pn.zip mk, ∀ b ∈ pn.zip mk, a.1 = b.1 → a.2 = b.2

theorem mem_maskFilter_eq {pn : List Name} {mk : List Bool} {p : Name} {b : Bool} :
    b ∈ maskFilter mk (pn.map (· == p)) ↔ (p, b) ∈ pn.zip mk := by
  induction pn generalizing mk with
  | nil => simp
  | cons q pn ih =>
    cases mk with
    | nil => simp
    | cons c mk =>
      simp only [List.map_cons, List.zip_cons_cons, List.mem_cons, Prod.mk.injEq]
      by_cases hq : q = p
      · subst hq
        simp only [beq_self_eq_true, maskFilter_cons_true, List.mem_cons, ih, true_and]
      · have : (q == p) = false := by simpa using hq
        simp only [this, maskFilter_cons_false, ih]
        constructor
        · intro h; exact Or.inr h
        · rintro (⟨h1, _⟩ | h); exact absurd h1.symm hq; exact h

theorem plateUniform_iff (pn : List Name) (mk : List Bool) : plateUniform pn mk = true ↔ UniformPairs pn mk := by
  unfold plateUniform UniformPairs
  simp only [List.all_eq_true, List.mem_eraseDups, beq_iff_eq]
  constructor
  · intro h a ha b hb hab
    have hp : a.1 ∈ pn := (List.of_mem_zip ha).1
    have h1 := h a.1 hp
    have ma : a.2 ∈ maskFilter mk (pn.map (· == a.1)) := mem_maskFilter_eq.mpr ha
    have mb : b.2 ∈ maskFilter mk (pn.map (· == a.1)) := mem_maskFilter_eq.mpr (by rw [hab]; exact hb)
    rw [h1 a.2 ma, h1 b.2 mb]
  · intro h p hp x hx
    have hx' := mem_maskFilter_eq.mp hx
    cases hm : maskFilter mk (pn.map (· == p)) with
    | nil => rw [hm] at hx; simp at hx
    | cons y ys =>
      have hy : y ∈ maskFilter mk (pn.map (· == p)) := by rw [hm]; simp
      have hy' := mem_maskFilter_eq.mp hy
      show x = (y :: ys).head!
      exact h (p, x) hx' (p, y) hy' rfl

theorem uniformPairs_maskFilter (pn : List Name) (mk : List Bool) (sel : List Bool) (h : UniformPairs pn mk) :
    UniformPairs (maskFilter pn sel) (maskFilter mk sel) := by
  intro a ha b hb hab
  rw [← maskFilter_zip] at ha hb
  exact h a (mem_of_mem_maskFilter ha) b (mem_of_mem_maskFilter hb) hab

/-- **plate-uniformity survives any row selection** -/
theorem plateUniform_maskFilter (pn : List Name) (mk : List Bool) (sel : List Bool) (h : plateUniform pn mk = true) :
    plateUniform (maskFilter pn sel) (maskFilter mk sel) = true :=
  (plateUniform_iff _ _).mpr (uniformPairs_maskFilter pn mk sel ((plateUniform_iff _ _).mp h))

/-! ### well-formed screens -/

/-- the structural invariants every constructed screen satisfies -/
structure WF (s : Screen) : Prop where
  len_tdoses : s.tdoses.length = s.tnames.length
  len_snames : s.snames.length = s.tnames.length
  len_pnames : s.pnames.length = s.tnames.length
  len_obs : s.obs.length = s.tnames.length
  len_mask : s.mask.length = s.tnames.length
  len_tids : s.tids.length = s.tnames.length
  len_sids : s.sids.length = s.tnames.length
  len_pids : s.pids.length = s.tnames.length
  arity_tnames : ∀ row ∈ s.tnames, row.length = s.arity
  arity_tdoses : ∀ row ∈ s.tdoses, row.length = s.arity
  uniform : plateUniform s.pnames s.mask = true

theorem wf_of_mk? (r : Raw) (s : Screen) (h : mk? r = .ok s) : WF s := by
  have m := (mk?_ok_iff r s).mp h
  have ho : s.obs.length = r.tnames.length := by
    rw [m.obs_eq]
    have := m.len_obs
    unfold obsLenBad at this; unfold obsOf
    cases hobs : r.obs with
    | none => simp
    | some o => rw [hobs] at this; simpa using this
  have hp : s.pids.length = r.tnames.length := by rw [m.pmap_eq.2, List.length_map, m.len_pnames]
  exact
    { len_tdoses := by rw [m.tdoses_eq, m.tnames_eq]; exact m.len_tdoses
      len_snames := by rw [m.snames_eq, m.tnames_eq]; exact m.len_snames
      len_pnames := by rw [m.pnames_eq, m.tnames_eq]; exact m.len_pnames
      len_obs := by rw [m.tnames_eq]; exact ho
      len_mask := by rw [m.mask_eq, m.tnames_eq]; exact m.len_mask
      len_tids := by rw [m.tnames_eq]; exact m.tids_shape.1
      len_sids := by rw [m.tnames_eq]; exact m.len_sids
      len_pids := by rw [m.tnames_eq]; exact hp
      arity_tnames := by rw [m.tnames_eq, m.arity_eq]; exact m.arity_tnames
      arity_tdoses := by rw [m.tdoses_eq, m.arity_eq]; exact m.arity_tdoses
      uniform := by rw [m.pnames_eq, m.mask_eq]; exact m.uniform }

/-- the keyword arguments `to_screen()` passes to `Screen(...)` -/
def toScreenRaw (s : Screen) (sel : List Bool) : Raw :=
  { ctrl := s.ctrl, arity := s.arity, tnames := maskFilter s.tnames sel, tdoses := maskFilter s.tdoses sel,
    snames := maskFilter s.snames sel, pnames := maskFilter s.pnames sel,
    obs := some (maskFilter s.obs sel), mask := some (maskFilter s.mask sel), tmap := none, smap := none }

theorem viewToScreen_eq (s : Screen) (v : View) : s.viewToScreen v = mk? (toScreenRaw s v.sel) := rfl

theorem toScreenRaw_wellShaped (s : Screen) (w : WF s) (sel : List Bool) (h : sel.length = s.size) :
    WellShaped (toScreenRaw s sel) := by
  have hn : sel.length = s.tnames.length := by rw [h, Screen.size, w.len_snames]
  exact
    { len_tdoses := by
        simp only [toScreenRaw]
        rw [length_maskFilter _ _ (by rw [w.len_tdoses, hn]), length_maskFilter _ _ hn.symm]
      len_snames := by
        simp only [toScreenRaw]
        rw [length_maskFilter _ _ (by rw [w.len_snames, hn]), length_maskFilter _ _ hn.symm]
      len_pnames := by
        simp only [toScreenRaw]
        rw [length_maskFilter _ _ (by rw [w.len_pnames, hn]), length_maskFilter _ _ hn.symm]
      arity_tnames := fun row hrow => w.arity_tnames row (mem_of_mem_maskFilter hrow)
      arity_tdoses := fun row hrow => w.arity_tdoses row (mem_of_mem_maskFilter hrow)
      mask_needs_obs := rfl
      len_obs := by
        simp only [obsLenBad, toScreenRaw, bne_eq_false_iff_eq]
        rw [length_maskFilter _ _ (by rw [w.len_obs, hn]), length_maskFilter _ _ hn.symm]
      len_mask := by
        simp only [maskOf, toScreenRaw]
        rw [length_maskFilter _ _ (by rw [w.len_mask, hn]), length_maskFilter _ _ hn.symm]
      uniform := by
        simp only [maskOf, toScreenRaw]
        exact plateUniform_maskFilter _ _ _ w.uniform }

/-- **`to_screen()` succeeds on every view of a well-formed screen and yields exactly the selected rows** -/
theorem viewToScreen_ok (s : Screen) (w : WF s) (v : View) (h : v.sel.length = s.size) :
    s.viewToScreen v = .ok (mkFresh (toScreenRaw s v.sel)) := by
  rw [viewToScreen_eq]
  exact mk?_fresh _ (toScreenRaw_wellShaped s w v.sel h) rfl rfl

end Batchie.Views
