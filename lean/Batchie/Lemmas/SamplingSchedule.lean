/-
  Helper lemmas for C17: the two loops of the generated `Batchie.Gen.Sampling.body`
  (translator output of the MCMC branch of `batchie.sampling.sample`) as list expressions,
  and the pure list identities that turn the per-step description into the block description
  "b steps, then n blocks of (t steps, record)".
-/
import Batchie.Generated.Sampling
import Batchie.Model.Sampling

namespace Batchie.Lemmas.SamplingSchedule

open Batchie.PyInt
open Batchie.Gen.Sampling
open Batchie.Sampling

/-! ### `range(0, m)` of the translated code is `0, 1, …, m-1` -/

theorem pyRangeLen_zero_one (m : Nat) : pyRangeLen 0 (m : Int) 1 = m := by
  unfold pyRangeLen
  simp
  omega

theorem pyRange_zero_one (m : Nat) :
    pyRange 0 (m : Int) 1 = (List.range m).map (fun (i : Nat) => (i : Int)) := by
  unfold pyRange
  rw [pyRangeLen_zero_one]
  apply List.map_congr_left
  intro i _
  simp

/-- a negative stop gives the empty range (Python: `range(-3)` is empty) -/
theorem pyRange_neg (m : Int) (h : m ≤ 0) : pyRange 0 m 1 = [] := by
  unfold pyRange pyRangeLen
  have : ¬ (0 : Int) < m := by omega
  simp [this]

/-! ### the events one iteration of each loop emits -/

/-- events of one iteration of the thinning loop at (0-based) step index `v`:
    a step, followed by a record iff `(v + 1) % t = 0` -/
def stepEvents (t : Nat) (v : Nat) : List Int :=
  if (v + 1) % t = 0 then [0, 1] else [0]

/-- the body of the burn-in loop, as in the generated text -/
def burnF : St → Int → St := fun (st : St) (_v : Int) =>
  let st : St := { st with out := st.out ++ [(0 : Int)] }
  st

/-- the body of the thinning loop, as in the generated text -/
def thinF : St → Int → St := fun (st : St) (v : Int) =>
  let st : St := { st with step_index := v }
  let st : St := { st with out := st.out ++ [(0 : Int)] }
  let st : St := { st with err := st.err || (st.thin == 0) }
  let st : St := if decide ((Int.fmod (st.step_index + (1 : Int)) st.thin) = (0 : Int)) then
      let st : St := { st with out := st.out ++ [(1 : Int)] }
      st
    else
      st
  st

/-- the generated `body`, with its two loop bodies named (definitional unfolding: if the
    regenerated text differs this `rfl` fails and every theorem downstream with it) -/
theorem body_eq (st : St) :
    body st =
      (let st : St := { st with out := st.out ++ [(2 : Int)] }
       let st : St := { st with out := st.out ++ [(3 : Int)] }
       let st : St := List.foldl burnF st (pyRange 0 st.n_burnin 1)
       let st : St := { st with total_steps := (st.n_thetas * st.thin) }
       let st : St := List.foldl thinF st (pyRange 0 st.total_steps 1)
       st) := rfl

/-! ### burn-in loop -/

theorem burn_fold (l : List Int) (st : St) :
    List.foldl burnF st l = { st with out := st.out ++ List.replicate l.length (0 : Int) } := by
  induction l generalizing st with
  | nil => simp
  | cons a l ih =>
    rw [List.foldl_cons, ih]
    simp [burnF, List.replicate_succ]

/-! ### thinning loop -/

theorem fmod_step (t v : Nat) (ht : 1 ≤ t) :
    (Int.fmod ((v : Int) + 1) (t : Int) = 0) ↔ ((v + 1) % t = 0) := by
  rw [Int.fmod_eq_emod_of_nonneg _ (by omega)]
  rw [show ((v : Int) + 1) = ((v + 1 : Nat) : Int) by simp, ← Int.natCast_emod]
  exact Int.natCast_eq_zero

theorem thinF_apply (t v : Nat) (ht : 1 ≤ t) (st : St) (hthin : st.thin = (t : Int)) :
    thinF st (v : Int) =
      { st with step_index := (v : Int), out := st.out ++ stepEvents t v } := by
  have h0 : ((t : Int) == 0) = false := by
    simp; omega
  by_cases h : (v + 1) % t = 0
  · have h' : Int.fmod ((v : Int) + 1) (t : Int) = 0 := (fmod_step t v ht).2 h
    simp [thinF, stepEvents, hthin, h, h', h0]
  · have h' : ¬ Int.fmod ((v : Int) + 1) (t : Int) = 0 := fun c => h ((fmod_step t v ht).1 c)
    simp [thinF, stepEvents, hthin, h, h', h0]

theorem thin_fold (t : Nat) (ht : 1 ≤ t) (l : List Nat) (st : St) (hthin : st.thin = (t : Int)) :
    (List.foldl thinF st (l.map (fun (i : Nat) => (i : Int)))).out
        = st.out ++ l.flatMap (stepEvents t)
    ∧ (List.foldl thinF st (l.map (fun (i : Nat) => (i : Int)))).err = st.err := by
  induction l generalizing st with
  | nil => simp
  | cons a l ih =>
    rw [List.map_cons, List.foldl_cons, thinF_apply t a ht st hthin]
    have := ih { st with step_index := (a : Int), out := st.out ++ stepEvents t a } hthin
    rw [this.1, this.2]
    simp

/-! ### from per-step events to blocks -/

/-- one block: `t` steps and a record after the last -/
def block (t : Nat) : List Int := List.replicate t (0 : Int) ++ [1]

theorem stepEvents_shift (t k v : Nat) : stepEvents t (k * t + v) = stepEvents t v := by
  unfold stepEvents
  have : (k * t + v + 1) % t = (v + 1) % t := by
    rw [Nat.add_assoc, Nat.mul_comm, Nat.mul_add_mod]
  rw [this]

theorem flatMap_small (s : Nat) (m : Nat) (hm : m ≤ s) :
    (List.range m).flatMap (stepEvents (s + 1)) = List.replicate m (0 : Int) := by
  induction m with
  | zero => simp
  | succ m ih =>
    rw [List.range_succ, List.flatMap_append, ih (by omega)]
    have : (m + 1) % (s + 1) ≠ 0 := by
      rw [Nat.mod_eq_of_lt (by omega)]; omega
    simp [stepEvents, this, List.replicate_succ']

theorem flatMap_one_block (t : Nat) (ht : 1 ≤ t) :
    (List.range t).flatMap (stepEvents t) = block t := by
  obtain ⟨s, rfl⟩ : ∃ s, t = s + 1 := ⟨t - 1, by omega⟩
  rw [List.range_succ, List.flatMap_append, flatMap_small s s (Nat.le_refl _)]
  simp [stepEvents, block, List.replicate_succ']

theorem flatMap_blocks (t : Nat) (ht : 1 ≤ t) (n : Nat) :
    (List.range (n * t)).flatMap (stepEvents t) = (List.replicate n (block t)).flatten := by
  induction n with
  | zero => simp
  | succ n ih =>
    rw [Nat.succ_mul, List.range_add, List.flatMap_append, ih, List.replicate_succ',
      List.flatten_append]
    congr 1
    rw [List.flatMap_map]
    have : (fun v => stepEvents t (n * t + v)) = stepEvents t := by
      funext v; exact stepEvents_shift t n v
    show List.flatMap (fun v => stepEvents t (n * t + v)) (List.range t) = _
    rw [this, flatMap_one_block t ht]
    simp

/-! ### reading a trace: step count at every record -/

theorem rpf_append (c : Nat) (a b : List Int) :
    recordPositionsFrom c (a ++ b)
      = recordPositionsFrom c a ++ recordPositionsFrom (c + a.count 0) b := by
  induction a generalizing c with
  | nil => simp [recordPositionsFrom]
  | cons e es ih =>
    by_cases h0 : e = 0
    · subst h0
      simp [recordPositionsFrom, ih, Nat.add_assoc, Nat.add_comm 1]
    · by_cases h1 : e = 1
      · subst h1
        simp [recordPositionsFrom, ih]
      · simp [recordPositionsFrom, h0, h1, ih]

theorem rpf_replicate_zero (c m : Nat) :
    recordPositionsFrom c (List.replicate m (0 : Int)) = [] := by
  induction m generalizing c with
  | zero => simp [recordPositionsFrom]
  | succ m ih => simp [List.replicate_succ, recordPositionsFrom, ih]

theorem rpf_block (c t : Nat) : recordPositionsFrom c (block t) = [c + t] := by
  unfold block
  rw [rpf_append, rpf_replicate_zero]
  simp [recordPositionsFrom]

theorem count_block (t : Nat) : (block t).count (0 : Int) = t := by
  simp [block]

theorem count_blocks (t n : Nat) : ((List.replicate n (block t)).flatten).count (0 : Int) = n * t := by
  induction n with
  | zero => simp
  | succ n ih =>
    rw [List.replicate_succ, List.flatten_cons, List.count_append, ih, count_block, Nat.succ_mul]
    omega

theorem rpf_blocks (c t n : Nat) :
    recordPositionsFrom c ((List.replicate n (block t)).flatten)
      = (List.range n).map (fun i => c + (i + 1) * t) := by
  induction n generalizing c with
  | zero => simp [recordPositionsFrom]
  | succ n ih =>
    rw [List.replicate_succ, List.flatten_cons, rpf_append, rpf_block, count_block, ih,
      List.range_succ_eq_map, List.map_cons, List.map_map]
    simp only [List.singleton_append, Nat.zero_add, Nat.one_mul]
    congr 1
    apply List.map_congr_left
    intro i _
    simp only [Function.comp]
    rw [Nat.succ_mul (i + 1) t]
    omega

end Batchie.Lemmas.SamplingSchedule
