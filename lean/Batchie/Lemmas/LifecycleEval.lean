/-
  Kernel-evaluable mirror of the constructor.

  `List.mergeSort` is defined by well-founded recursion and does not reduce inside `decide`, so concrete
  witnesses (counterexamples, non-vacuity examples) could not be evaluated.  Here every use of
  `mergeSort` in `Model/Screen.lean` is shown equal to a structurally recursive insertion sort (the three
  comparison functions are total, transitive and antisymmetric), giving `mk? r = mkK? r` with `mkK?`
  evaluable by `decide`.
-/
import Batchie.Lemmas.LifecycleMk

namespace Batchie.Lifecycle
open Batchie.Proto Batchie.Screen

/-! ### insertion sort -/

def insertSorted {α : Type} (le : α → α → Bool) (a : α) : List α → List α
  | [] => [a]
  | b :: bs => if le a b then a :: b :: bs else b :: insertSorted le a bs

def isort {α : Type} (le : α → α → Bool) : List α → List α
  | [] => []
  | a :: as => insertSorted le a (isort le as)

theorem perm_insertSorted {α : Type} (le : α → α → Bool) (a : α) (l : List α) :
    (insertSorted le a l).Perm (a :: l) := by
  induction l with
  | nil => exact List.Perm.refl _
  | cons b bs ih =>
    unfold insertSorted
    split
    · exact List.Perm.refl _
    · exact (List.Perm.cons b ih).trans (List.Perm.swap a b bs)

theorem perm_isort {α : Type} (le : α → α → Bool) (l : List α) : (isort le l).Perm l := by
  induction l with
  | nil => exact List.Perm.refl _
  | cons a as ih => exact (perm_insertSorted le a _).trans (List.Perm.cons a ih)

theorem pairwise_insertSorted {α : Type} (le : α → α → Bool)
    (trans : ∀ a b c, le a b = true → le b c = true → le a c = true) (total : ∀ a b, (le a b || le b a) = true)
    (a : α) (l : List α) (h : l.Pairwise (fun x y => le x y = true)) :
    (insertSorted le a l).Pairwise (fun x y => le x y = true) := by
  induction l with
  | nil => simp [insertSorted]
  | cons b bs ih =>
    unfold insertSorted
    rw [List.pairwise_cons] at h
    split
    · rename_i hab
      rw [List.pairwise_cons]
      refine ⟨?_, List.pairwise_cons.2 h⟩
      intro x hx
      rcases List.mem_cons.1 hx with rfl | hx
      · exact hab
      · exact trans _ _ _ hab (h.1 x hx)
    · rename_i hab
      have hba : le b a = true := by
        have := total a b
        simp only [Bool.or_eq_true] at this
        rcases this with h1 | h1
        · exact absurd h1 hab
        · exact h1
      rw [List.pairwise_cons]
      refine ⟨?_, ih h.2⟩
      intro x hx
      rcases List.mem_cons.1 ((perm_insertSorted le a bs).subset hx) with rfl | hx
      · exact hba
      · exact h.1 x hx

theorem pairwise_isort {α : Type} (le : α → α → Bool)
    (trans : ∀ a b c, le a b = true → le b c = true → le a c = true) (total : ∀ a b, (le a b || le b a) = true)
    (l : List α) : (isort le l).Pairwise (fun x y => le x y = true) := by
  induction l with
  | nil => simp [isort]
  | cons a as ih => exact pairwise_insertSorted le trans total a _ ih

theorem mergeSort_eq_isort {α : Type} (le : α → α → Bool)
    (trans : ∀ a b c, le a b = true → le b c = true → le a c = true) (total : ∀ a b, (le a b || le b a) = true)
    (antisymm : ∀ a b, le a b = true → le b a = true → a = b) (l : List α) :
    l.mergeSort le = isort le l := by
  refine List.Perm.eq_of_pairwise (le := fun x y => le x y = true) (fun a b _ _ h1 h2 => antisymm a b h1 h2)
    (List.pairwise_mergeSort (le := le) trans total l) (pairwise_isort le trans total l) ?_
  exact (List.mergeSort_perm l le).trans (perm_isort le l).symm

/-! ### the three comparison functions -/

theorem intLe_trans (a b c : Int) : decide (a ≤ b) = true → decide (b ≤ c) = true → decide (a ≤ c) = true := by
  simp only [decide_eq_true_eq]; omega
theorem intLe_total (a b : Int) : (decide (a ≤ b) || decide (b ≤ a)) = true := by
  simp only [Bool.or_eq_true, decide_eq_true_eq]; omega
theorem intLe_antisymm (a b : Int) : decide (a ≤ b) = true → decide (b ≤ a) = true → a = b := by
  simp only [decide_eq_true_eq]; omega

theorem nameLe_trans (a b c : Name) : nameLe a b = true → nameLe b c = true → nameLe a c = true := by
  simp only [nameLe, decide_eq_true_eq]; exact List.le_trans
theorem nameLe_total (a b : Name) : (nameLe a b || nameLe b a) = true := by
  simp only [nameLe, Bool.or_eq_true, decide_eq_true_eq]; exact List.le_total a b
theorem nameLe_antisymm (a b : Name) : nameLe a b = true → nameLe b a = true → a = b := by
  simp only [nameLe, decide_eq_true_eq]; exact List.le_antisymm

theorem name_trichotomy (a b : Name) : a < b ∨ a = b ∨ b < a := by
  rcases List.le_total a b with h | h
  · rcases List.le_iff_lt_or_eq.1 h with h | h
    · exact Or.inl h
    · exact Or.inr (Or.inl h)
  · rcases List.le_iff_lt_or_eq.1 h with h | h
    · exact Or.inr (Or.inr h)
    · exact Or.inr (Or.inl h.symm)

/-- `keyLe a b` spelled out -/
theorem keyLe_iff (a b : Name × Dose) : keyLe a b = true ↔ a.1 < b.1 ∨ (a.1 = b.1 ∧ a.2 ≤ b.2) := by
  unfold keyLe
  by_cases h1 : a.1 < b.1
  · simp [h1]
  · by_cases h2 : a.1 = b.1
    · simp [h2]
    · simp [h1, h2]

theorem keyLe_total (a b : Name × Dose) : (keyLe a b || keyLe b a) = true := by
  simp only [Bool.or_eq_true, keyLe_iff]
  rcases name_trichotomy a.1 b.1 with h | h | h
  · exact Or.inl (Or.inl h)
  · rcases Rat.le_total (a := a.2) (b := b.2) with h2 | h2
    · exact Or.inl (Or.inr ⟨h, h2⟩)
    · exact Or.inr (Or.inr ⟨h.symm, h2⟩)
  · exact Or.inr (Or.inl h)

theorem keyLe_trans (a b c : Name × Dose) : keyLe a b = true → keyLe b c = true → keyLe a c = true := by
  simp only [keyLe_iff]
  rintro (h1 | ⟨h1, h1'⟩) (h2 | ⟨h2, h2'⟩)
  · exact Or.inl (List.lt_trans h1 h2)
  · exact Or.inl (h2 ▸ h1)
  · exact Or.inl (h1 ▸ h2)
  · exact Or.inr ⟨h1.trans h2, Rat.le_trans h1' h2'⟩

theorem keyLe_antisymm (a b : Name × Dose) : keyLe a b = true → keyLe b a = true → a = b := by
  simp only [keyLe_iff]
  rintro (h1 | ⟨h1, h1'⟩) (h2 | ⟨h2, h2'⟩)
  · exact absurd h2 (List.lt_asymm h1)
  · exact absurd (h2 ▸ h1) (List.lt_irrefl _)
  · exact absurd (h1 ▸ h2) (List.lt_irrefl _)
  · exact Prod.ext h1 (Rat.le_antisymm h1' h2')

/-! ### mirrors -/

def isZeroIndexedK (ids : List Int) : Bool :=
  let u := isort (fun a b => decide (a ≤ b)) (ids.eraseDups)
  if ids.contains (-1) then
    u == (-1 : Int) :: (List.range (u.length - 1)).map (fun (i : Nat) => (i : Int))
  else
    u == (List.range u.length).map (fun (i : Nat) => (i : Int))

theorem isZeroIndexed_eqK (ids : List Int) : isZeroIndexed ids = isZeroIndexedK ids := by
  unfold isZeroIndexed isZeroIndexedK
  rw [mergeSort_eq_isort _ intLe_trans intLe_total intLe_antisymm]

def freshTMapK (ctrl : Name) (xs : List (Name × Dose)) : TMap :=
  let u := isort keyLe (xs.eraseDups)
  let ids := renumber (u.map (isControl ctrl))
  (u.zip ids).map (fun p => (p.1.1, p.1.2, p.2))

theorem freshTMap_eqK (ctrl : Name) (xs : List (Name × Dose)) : freshTMap ctrl xs = freshTMapK ctrl xs := by
  unfold freshTMap freshTMapK
  rw [mergeSort_eq_isort _ keyLe_trans keyLe_total keyLe_antisymm]

def freshSMapK (xs : List Name) : SMap :=
  let u := isort nameLe (xs.eraseDups)
  u.zipIdx.map (fun p => (p.1, (p.2 : Int)))

theorem freshSMap_eqK (xs : List Name) : freshSMap xs = freshSMapK xs := by
  unfold freshSMap freshSMapK
  rw [mergeSort_eq_isort _ nameLe_trans nameLe_total nameLe_antisymm]

def uniquePlateIdsK (s : Screen) : List Int := isort (fun a b => decide (a ≤ b)) (s.pids.eraseDups)

theorem uniquePlateIds_eqK (s : Screen) : s.uniquePlateIds = uniquePlateIdsK s := by
  unfold Screen.uniquePlateIds uniquePlateIdsK
  rw [mergeSort_eq_isort _ intLe_trans intLe_total intLe_antisymm]

def encodeTreatmentsK (ctrl : Name) (xs : List (Name × Dose)) (existing : Option TMap) :
    Except Err (List Int × TMap) :=
  let tm := match existing with
    | some m => m
    | none => freshTMapK ctrl xs
  let hits := xs.map (tLookup tm)
  if hits.any (·.isEmpty) then .error .valueError
  else .ok (hits.flatten, tm)

theorem encodeTreatments_eqK (ctrl : Name) (xs : List (Name × Dose)) (ex : Option TMap) :
    encodeTreatments ctrl xs ex = encodeTreatmentsK ctrl xs ex := by
  unfold encodeTreatments encodeTreatmentsK
  cases ex <;> simp only [freshTMap_eqK]

def encode1dK (xs : List Name) (existing : Option SMap) : Except Err (List Int × SMap) :=
  let sm := match existing with
    | some m => m
    | none => freshSMapK xs
  let hits := xs.map (sLookup sm)
  if hits.any (·.isEmpty) then .error .valueError
  else .ok (hits.flatten, sm)

theorem encode1d_eqK (xs : List Name) (ex : Option SMap) : encode1d xs ex = encode1dK xs ex := by
  unfold encode1d encode1dK
  cases ex <;> simp only [freshSMap_eqK]

def tmapBadK (r : Raw) : Bool := match r.tmap with
  | some m => !isZeroIndexedK (m.map (·.2.2))
  | none => false
def smapBadK (r : Raw) : Bool := match r.smap with
  | some m => !isZeroIndexedK (m.map (·.2))
  | none => false

theorem tmapBad_eqK (r : Raw) : tmapBad r = tmapBadK r := by
  obtain ⟨ctrl, arity, tn, td, sn, pn, o, m, tmap, smap⟩ := r
  unfold tmapBad tmapBadK
  cases tmap <;> simp only [isZeroIndexed_eqK]

theorem smapBad_eqK (r : Raw) : smapBad r = smapBadK r := by
  obtain ⟨ctrl, arity, tn, td, sn, pn, o, m, tmap, smap⟩ := r
  unfold smapBad smapBadK
  cases smap <;> simp only [isZeroIndexed_eqK]

def mkCoreK (r : Raw) (obs : List Nat) (mask : List Bool) : Except Err Screen :=
  let n := r.tnames.length
  if mask.length != n then .error .indexError
  else if !plateUniform r.pnames mask then .error .valueError
  else if tmapBadK r then .error .valueError
  else if smapBadK r then .error .valueError
  else (encodeTreatmentsK r.ctrl (cellsOf r.arity r.tnames r.tdoses) r.tmap).bind fun t =>
      if t.1.length != n * r.arity then .error .other
      else (encode1dK r.snames r.smap).bind fun sm =>
          if sm.1.length != n then .error .other
          else (encode1dK r.pnames none).bind fun pm =>
              .ok { ctrl := r.ctrl, arity := r.arity, tnames := r.tnames, tdoses := r.tdoses, snames := r.snames,
                    pnames := r.pnames, obs := obs, mask := mask, tids := unflattenColumns t.1 n r.arity,
                    sids := sm.1, pids := pm.1, tmap := t.2, smap := sm.2, pmap := pm.2 }

theorem mkCore_eqK (r : Raw) (obs : List Nat) (mask : List Bool) : mkCore r obs mask = mkCoreK r obs mask := by
  rw [mkCore_eq]
  unfold mkCoreSpec mkCoreK
  simp only [tmapBad_eqK, smapBad_eqK, encodeTreatments_eqK, encode1d_eqK]

/-- `mk?` with insertion sort in place of `mergeSort`: evaluable by `decide` -/
def mkK? (r : Raw) : Except Err Screen :=
  let n := r.tnames.length
  if r.tdoses.length != n || r.snames.length != n || r.pnames.length != n then .error .valueError
  else if r.tnames.any (·.length != r.arity) || r.tdoses.any (·.length != r.arity) then .error .valueError
  else if r.obs.isNone && r.mask.isSome then .error .valueError
  else match r.obs with
    | some o =>
      if o.length != n then .error .valueError
      else mkCoreK r o (match r.mask with | some m => m | none => List.replicate n true)
    | none => mkCoreK r (List.replicate n 0) (List.replicate n false)

theorem mk?_eqK (r : Raw) : mk? r = mkK? r := by
  rw [mk?_eq]
  obtain ⟨ctrl, arity, tn, td, sn, pn, o, m, tmap, smap⟩ := r
  unfold mkSpec mkK?
  cases o <;> cases m <;> simp only [mkCore_eqK]

end Batchie.Lifecycle
