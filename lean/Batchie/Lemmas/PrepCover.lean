/-
  C11 / C13 lemmas: `filter_dataset_to_treatments_that_appear_in_at_least_one_combo` (`comboFilter`) and the
  `SparseCoverPlateGenerator` initial plate (`sparseCover`).
    * the combination filter keeps a sub-list of the rows, and exactly the rows all of whose non-control treatments
      occur in some all-non-control row,
    * the sparse cover relabels / re-masks the rows in place (same experiments, same order, two distinct plate names),
      observes at least one row of every sample and at least one row holding every treatment id, and its greedy
      loop consumes at most one log entry per still-uncovered id.
-/
import Batchie.Lemmas.PrepWrap
namespace Batchie.Prep
open Batchie.Proto Batchie.Screen

/-! ### combination filter -/

/-- A1: the result is the input restricted to the selection vector (plate, mask, observation untouched) -/
theorem comboFilter_rows {s t : Screen} (h : comboFilter s = .ok t) :
    rowsOf t = maskFilter (rowsOf s) (comboFilterSel s.tids) := by
  unfold comboFilter at h
  split at h
  · cases h
  · exact (select_ok h).rows_eq

theorem comboFilter_sublist {s t : Screen} (h : comboFilter s = .ok t) : (rowsOf t).Sublist (rowsOf s) := by
  rw [comboFilter_rows h]; exact maskFilter_sublist _ _

theorem length_comboFilterSel (tids : List (List Int)) : (comboFilterSel tids).length = tids.length := by
  simp [comboFilterSel]

theorem comboRow_iff (t : List Int) : comboRow t = true ↔ ∀ y ∈ t, y ≠ -1 := by
  simp [comboRow]

/-- A2: a row is kept iff every non-control treatment of the row occurs in some all-non-control row -/
theorem comboFilterSel_getElem (tids : List (List Int)) (i : Nat) (h : i < tids.length) :
    (comboFilterSel tids)[i]'(by rw [length_comboFilterSel]; exact h) = true ↔
      ∀ x ∈ tids[i], x ≠ -1 → ∃ row ∈ tids, (∀ y ∈ row, y ≠ -1) ∧ x ∈ row := by
  unfold comboFilterSel
  simp only [List.getElem_map, maskFilter_map_pred, List.all_eq_true, Bool.or_eq_true, beq_iff_eq,
    List.contains_iff_mem, List.mem_flatten, List.mem_filter, comboRow_iff]
  constructor
  · intro hk x hx hne
    rcases hk x hx with e | ⟨row, ⟨hr, hc⟩, hxr⟩
    · exact absurd e hne
    · exact ⟨row, hr, hc, hxr⟩
  · intro hk x hx
    by_cases e : x = -1
    · exact Or.inl e
    · obtain ⟨row, hr, hc, hxr⟩ := hk x hx e
      exact Or.inr ⟨row, ⟨hr, hc⟩, hxr⟩

/-! ### sparse cover: the two phases -/

/-- the invariant of both phases: `covered` is the concatenation of the id rows at the chosen indices -/
def CoverInv (tids : List (List Int)) (st : CoverSt) : Prop :=
  st.covered = (st.chosen.map (fun c => tids[c]!)).flatten

theorem coverInv_init (tids : List (List Int)) : CoverInv tids { covered := [], chosen := [] } := by
  simp [CoverInv]

theorem coverInv_step {tids : List (List Int)} {st : CoverSt} (c : Nat) (h : CoverInv tids st) :
    CoverInv tids { covered := st.covered ++ tids[c]!, chosen := st.chosen ++ [c] } := by
  unfold CoverInv at *
  simp [h]

/-- per-sample phase: one log entry per sample, each an index of a row of that sample -/
theorem coverSamples_ok {sids : List Int} {tids : List (List Int)} :
    ∀ (xs : List Int) (log : List Nat) (st st' : CoverSt) (log' : List Nat),
      coverSamples sids tids xs log st = .ok (st', log') →
      (CoverInv tids st → CoverInv tids st') ∧
      (∃ picks, st'.chosen = st.chosen ++ picks ∧ picks.length = xs.length ∧ log = picks ++ log') ∧
      (∀ x ∈ xs, ∃ c ∈ st'.chosen, c ∈ idxOfId sids x) := by
  intro xs
  induction xs with
  | nil =>
    intro log st st' log' h
    simp only [coverSamples] at h
    injection h with h
    injection h with h1 h2
    subst h1; subst h2
    exact ⟨id, ⟨[], by simp, rfl, by simp⟩, by simp⟩
  | cons x xs ih =>
    intro log st st' log' h
    unfold coverSamples at h
    cases log with
    | nil => simp at h
    | cons c rest =>
      simp only at h
      have key : c ∈ idxOfId sids x ∧
          coverSamples sids tids xs rest { covered := st.covered ++ tids[c]!, chosen := st.chosen ++ [c] } = .ok (st', log') := by
        split at h <;> split at h
        · cases h
        · rename_i hc
          simp only [Bool.not_eq_true, Bool.not_eq_false'] at hc
          exact ⟨List.contains_iff_mem.mp hc, h⟩
        · cases h
        · rename_i hc
          simp only [Bool.not_eq_true, Bool.not_eq_false'] at hc
          exact ⟨(List.mem_filter.mp (List.contains_iff_mem.mp hc)).1, h⟩
      obtain ⟨hcown, h⟩ := key
      · obtain ⟨hinv, ⟨picks, hp1, hp2, hp3⟩, hall⟩ := ih _ _ _ _ h
        refine ⟨fun h0 => hinv (coverInv_step c h0), ⟨c :: picks, ?_, by simp [hp2], by simp [hp3]⟩, ?_⟩
        · rw [hp1]; simp
        · intro y hy
          rcases List.mem_cons.mp hy with rfl | hy
          · exact ⟨c, by rw [hp1]; simp, hcown⟩
          · exact hall y hy

/-! ### the greedy phase terminates: every round covers a new id -/

theorem cover_length_filter_le_of_imp {α : Type} (p q : α → Bool) (l : List α) (hpq : ∀ a ∈ l, p a = true → q a = true) :
    (l.filter p).length ≤ (l.filter q).length := by
  induction l with
  | nil => simp
  | cons a l ih =>
    have ih' := ih (fun b hb => hpq b (List.mem_cons_of_mem _ hb))
    have ha := hpq a List.mem_cons_self
    rw [List.filter_cons, List.filter_cons]
    cases hp : p a
    · cases hq : q a
      · simpa using ih'
      · simp; omega
    · rw [ha hp]; simpa using ih'

theorem cover_length_filter_lt_of_imp {α : Type} (p q : α → Bool) (l : List α) (hpq : ∀ a ∈ l, p a = true → q a = true)
    (x : α) (hx : x ∈ l) (hq : q x = true) (hp : p x = false) : (l.filter p).length < (l.filter q).length := by
  induction l with
  | nil => cases hx
  | cons a l ih =>
    have hpq' : ∀ b ∈ l, p b = true → q b = true := fun b hb => hpq b (List.mem_cons_of_mem _ hb)
    rw [List.filter_cons, List.filter_cons]
    rcases List.mem_cons.mp hx with rfl | hx'
    · rw [hp, hq]
      have := cover_length_filter_le_of_imp p q l hpq'
      simp; omega
    · have ih' := ih hpq' hx'
      have ha := hpq a List.mem_cons_self
      cases hpa : p a
      · cases hqa : q a
        · simpa using ih'
        · simp; omega
      · rw [ha hpa]; simpa using ih'

theorem mem_remaining {tids : List (List Int)} {covered : List Int} {x : Int} :
    x ∈ remaining tids covered ↔ (∃ row ∈ tids, x ∈ row) ∧ x ∉ covered := by
  unfold remaining
  rw [List.mem_filter, mem_uniqueSorted, List.mem_flatten]
  simp

/-- B4 (general form): appending an id row that holds a still-uncovered id strictly shrinks `remaining` -/
theorem remaining_lt' (tids : List (List Int)) (covered row : List Int)
    (hx : ∃ x ∈ row, x ∈ remaining tids covered) :
    (remaining tids (covered ++ row)).length < (remaining tids covered).length := by
  obtain ⟨x, hxr, hxrem⟩ := hx
  unfold remaining at *
  obtain ⟨hxu, hxc⟩ := List.mem_filter.mp hxrem
  apply cover_length_filter_lt_of_imp _ _ _ _ x hxu hxc
  · simp [hxr]
  · intro a _ ha
    simp only [Bool.not_eq_eq_eq_not, Bool.not_true, List.contains_eq_mem, List.mem_append, decide_eq_false_iff_not, not_or] at ha ⊢
    exact ha.1

/-- B4: if `c` is a valid candidate of a greedy round, covering row `c` strictly shrinks the set of uncovered ids -/
theorem remaining_lt (tids : List (List Int)) (covered : List Int) (c : Nat) (hc : c < tids.length)
    (hx : ∃ x ∈ tids[c], x ∈ remaining tids covered) :
    (remaining tids (covered ++ tids[c]!)).length < (remaining tids covered).length := by
  rw [getElem!_pos tids c hc]
  exact remaining_lt' tids covered _ hx

/-- greedy phase: keeps the invariant, only appends indices (at most one per uncovered id, each read from the log),
    and returns only when nothing remains -/
theorem coverGreedy_ok {tids : List (List Int)} :
    ∀ (log : List Nat) (st st' : CoverSt), coverGreedy tids log st = .ok st' →
      (CoverInv tids st → CoverInv tids st') ∧
      (∃ picks, st'.chosen = st.chosen ++ picks ∧ picks.length ≤ (remaining tids st.covered).length ∧ picks <+: log) ∧
      remaining tids st'.covered = [] := by
  intro log
  induction log with
  | nil =>
    intro st st' h
    unfold coverGreedy at h
    simp only at h
    split at h
    · rename_i he
      injection h with h; subst h
      exact ⟨id, ⟨[], by simp, by simp, by simp⟩, List.isEmpty_iff.mp he⟩
    · cases h
  | cons c rest ih =>
    intro st st' h
    unfold coverGreedy at h
    simp only at h
    split at h
    · rename_i he
      injection h with h; subst h
      exact ⟨id, ⟨[], by simp, by simp, by simp⟩, List.isEmpty_iff.mp he⟩
    · split at h
      · cases h
      · rename_i hc
        simp only [Bool.not_eq_true, Bool.not_eq_false'] at hc
        have hc' := List.mem_filter.mp (List.contains_iff_mem.mp hc)
        obtain ⟨x, hx1, hx2⟩ := List.any_eq_true.mp hc'.2
        have hlt := remaining_lt' tids st.covered tids[c]! ⟨x, hx1, List.contains_iff_mem.mp hx2⟩
        obtain ⟨hinv, ⟨picks, hp1, hp2, hp3⟩, hrem⟩ := ih _ _ h
        refine ⟨fun h0 => hinv (coverInv_step c h0), ⟨c :: picks, ?_, ?_, ?_⟩, hrem⟩
        · rw [hp1]; simp
        · simp only [List.length_cons]; simp only at hp2; omega
        · exact List.prefix_cons_inj c |>.mpr hp3

/-- B4 corollary: the number of log entries consumed by the greedy loop is at most the number of uncovered ids -/
theorem coverGreedy_rounds {tids : List (List Int)} {log : List Nat} {st st' : CoverSt}
    (h : coverGreedy tids log st = .ok st') :
    st'.chosen.length - st.chosen.length ≤ (remaining tids st.covered).length := by
  obtain ⟨_, ⟨picks, hp1, hp2, _⟩, _⟩ := coverGreedy_ok log st st' h
  rw [hp1, List.length_append]; omega

theorem length_remaining_le (tids : List (List Int)) (covered : List Int) :
    (remaining tids covered).length ≤ (uniqueSorted tids.flatten).length := by
  unfold remaining; exact List.length_filter_le _ _

/-! ### the selection vector -/

/-- shape of a successful `coverSel`: the two phases succeeded and a row is selected iff it was chosen
    (or, with `reveal`, holds a control) -/
theorem coverSel_ok {s : Screen} {reveal : Bool} {log : List Nat} {sel : List Bool} (h : coverSel s reveal log = .ok sel) :
    ∃ st log' st', coverSamples s.sids s.tids (uniqueSorted s.sids) log { covered := [], chosen := [] } = .ok (st, log') ∧
      coverGreedy s.tids log' st = .ok st' ∧ sel.length = s.tids.length ∧
      ∀ (j : Nat) (hj : j < sel.length) (hj' : j < s.tids.length),
        (sel[j] = true ↔ (j ∈ st'.chosen ∨ (reveal = true ∧ (-1 : Int) ∈ s.tids[j]))) := by
  unfold coverSel at h
  obtain ⟨⟨st, log'⟩, h1, h⟩ := bind_ok h
  simp only at h
  obtain ⟨st', h2, h⟩ := bind_ok h
  simp only [pure, Except.pure] at h
  injection h with h
  refine ⟨st, log', st', h1, h2, ?_, ?_⟩
  · subst h
    cases reveal <;> simp [length_selOfIdx]
  · intro j hj hj'
    subst h
    cases reveal
    · simp [selOfIdx]
    · simp [selOfIdx]

theorem length_coverSel {s : Screen} {reveal : Bool} {log : List Nat} {sel : List Bool}
    (h : coverSel s reveal log = .ok sel) : sel.length = s.tids.length := by
  obtain ⟨_, _, _, _, _, hl, _⟩ := coverSel_ok h
  exact hl

/-- B2: every sample is observed -/
theorem coverSel_samples {s : Screen} {reveal : Bool} {log : List Nat} {sel : List Bool}
    (h : coverSel s reveal log = .ok sel) (hlen : s.sids.length = s.tids.length) (i : Nat) (hi : i < s.sids.length) :
    ∃ (j : Nat) (h1 : j < sel.length) (h2 : j < s.sids.length), sel[j] = true ∧ s.sids[j] = s.sids[i] := by
  obtain ⟨st, log', st', hs, hg, hl, hsel⟩ := coverSel_ok h
  obtain ⟨_, _, hall⟩ := coverSamples_ok _ _ _ _ _ hs
  obtain ⟨_, ⟨picks, hp, _, _⟩, _⟩ := coverGreedy_ok _ _ _ hg
  obtain ⟨c, hc1, hc2⟩ := hall s.sids[i] (mem_uniqueSorted.mpr (List.getElem_mem hi))
  obtain ⟨hcl, hce⟩ := mem_idxOfId.mp hc2
  have hj : c < sel.length := by omega
  refine ⟨c, hj, hcl, ?_, hce⟩
  exact (hsel c hj (by omega)).mpr (Or.inl (by rw [hp]; exact List.mem_append_left _ hc1))

/-- B3: every treatment id is observed -/
theorem coverSel_treatments {s : Screen} {reveal : Bool} {log : List Nat} {sel : List Bool}
    (h : coverSel s reveal log = .ok sel) (t : List Int) (ht : t ∈ s.tids) (x : Int) (hx : x ∈ t) :
    ∃ (j : Nat) (h1 : j < sel.length) (h2 : j < s.tids.length), sel[j] = true ∧ x ∈ s.tids[j] := by
  obtain ⟨st, log', st', hs, hg, hl, hsel⟩ := coverSel_ok h
  obtain ⟨hinv1, _, _⟩ := coverSamples_ok _ _ _ _ _ hs
  obtain ⟨hinv2, _, hrem⟩ := coverGreedy_ok _ _ _ hg
  have hinv : CoverInv s.tids st' := hinv2 (hinv1 (coverInv_init _))
  have hxc : x ∈ st'.covered := by
    apply Classical.byContradiction
    intro hn
    have : x ∈ remaining s.tids st'.covered := mem_remaining.mpr ⟨⟨t, ht, hx⟩, hn⟩
    rw [hrem] at this
    cases this
  rw [hinv, List.mem_flatten] at hxc
  obtain ⟨row, hrow, hxrow⟩ := hxc
  obtain ⟨c, hc, rfl⟩ := List.mem_map.mp hrow
  have hcl : c < s.tids.length := by
    apply Classical.byContradiction
    intro hn
    rw [getElem!_neg s.tids c hn] at hxrow
    cases hxrow
  rw [getElem!_pos s.tids c hcl] at hxrow
  have hj : c < sel.length := by omega
  exact ⟨c, hj, hcl, (hsel c hj hcl).mpr (Or.inl hc), hxrow⟩

/-! ### the generated screen -/

/-- relabelling of one row by its selection bit -/
def coverRow (r : Row) (b : Bool) : Row :=
  { r with plate := if b then initialPlateName else unobservedPlateName, mask := b }

theorem initial_ne_unobserved : initialPlateName ≠ unobservedPlateName := by decide

/-- B1: the result is the input with plate and mask rewritten, row by row -/
theorem sparseCover_rows {reveal : Bool} {log : List Nat} {s out : Screen} (h : sparseCover reveal log s = .ok out) :
    ∃ sel, coverSel s reveal log = .ok sel ∧
      rowsOf out = List.zipWith (fun r b => { r with plate := if b then initialPlateName else unobservedPlateName, mask := b })
        (rowsOf s) sel := by
  unfold sparseCover at h
  simp only at h
  split at h
  · cases h
  · obtain ⟨sel, hsel, h⟩ := bind_ok h
    exact ⟨sel, hsel, (build_ok h).rows_eq⟩

/-- the generator only accepts a fully observed screen -/
theorem sparseCover_input_observed {reveal : Bool} {log : List Nat} {s out : Screen} (h : sparseCover reveal log s = .ok out) :
    ∀ r ∈ rowsOf s, r.mask = true := by
  unfold sparseCover at h
  simp only at h
  split at h
  · cases h
  · rename_i hc
    simp only [Bool.not_eq_true, Bool.not_eq_false'] at hc
    exact List.all_eq_true.mp hc

theorem zipWith_cover_exp (rows : List Row) (sel : List Bool) (h : rows.length ≤ sel.length) :
    (List.zipWith (fun r b => ({ r with plate := if b then initialPlateName else unobservedPlateName, mask := b } : Row))
        rows sel).map Row.exp = rows.map Row.exp := by
  induction rows generalizing sel with
  | nil => simp
  | cons r rows ih =>
    cases sel with
    | nil => simp at h
    | cons b sel =>
      simp only [List.zipWith_cons_cons, List.map_cons]
      rw [ih sel (by simpa using h)]
      rfl

/-- B1: same experiments in the same order -/
theorem sparseCover_exp {reveal : Bool} {log : List Nat} {s out : Screen} (h : sparseCover reveal log s = .ok out)
    (hlen : s.tids.length = (rowsOf s).length) : (rowsOf out).map Row.exp = (rowsOf s).map Row.exp := by
  obtain ⟨sel, hsel, hrows⟩ := sparseCover_rows h
  rw [hrows]
  exact zipWith_cover_exp _ _ (by rw [length_coverSel hsel, hlen]; exact Nat.le_refl _)

theorem sparseCover_length {reveal : Bool} {log : List Nat} {s out : Screen} (h : sparseCover reveal log s = .ok out)
    (hlen : s.tids.length = (rowsOf s).length) : (rowsOf out).length = (rowsOf s).length := by
  have := congrArg List.length (sparseCover_exp h hlen)
  simpa using this

/-- B1: observed rows are on the initial plate, unobserved rows on the "unobserved" plate -/
theorem sparseCover_plates {reveal : Bool} {log : List Nat} {s out : Screen} (h : sparseCover reveal log s = .ok out) :
    ∀ r ∈ rowsOf out, (r.mask = true → r.plate = initialPlateName) ∧ (r.mask = false → r.plate = unobservedPlateName) := by
  obtain ⟨sel, _, hrows⟩ := sparseCover_rows h
  intro r hr
  rw [hrows] at hr
  obtain ⟨i, hi, rfl⟩ := List.getElem_of_mem hr
  rw [List.getElem_zipWith]
  constructor
  · intro hm; simp only at hm; simp [hm]
  · intro hm; simp only at hm; simp [hm]

/-- B1 + B2 + B3 on the generated screen: row `j` of the output is row `j` of the input, observed iff selected -/
theorem sparseCover_getElem {reveal : Bool} {log : List Nat} {s out : Screen} (h : sparseCover reveal log s = .ok out)
    (hlen : s.tids.length = (rowsOf s).length) :
    ∃ sel, coverSel s reveal log = .ok sel ∧ sel.length = (rowsOf s).length ∧ (rowsOf out).length = (rowsOf s).length ∧
      ∀ (j : Nat) (h1 : j < (rowsOf out).length) (h2 : j < (rowsOf s).length) (h3 : j < sel.length),
        (rowsOf out)[j].exp = (rowsOf s)[j].exp ∧ (rowsOf out)[j].mask = sel[j] := by
  obtain ⟨sel, hsel, hrows⟩ := sparseCover_rows h
  refine ⟨sel, hsel, by rw [length_coverSel hsel, hlen], sparseCover_length h hlen, ?_⟩
  intro j h1 h2 h3
  have : (rowsOf out)[j] = coverRow (rowsOf s)[j] sel[j] := by
    simp only [hrows, List.getElem_zipWith]; rfl
  rw [this]
  exact ⟨rfl, rfl⟩

/-- B2 on the generated screen: every sample has an observed row -/
theorem sparseCover_samples {reveal : Bool} {log : List Nat} {s out : Screen} (h : sparseCover reveal log s = .ok out)
    (hl1 : s.tids.length = (rowsOf s).length) (hl2 : s.sids.length = (rowsOf s).length) (i : Nat) (hi : i < s.sids.length) :
    ∃ (j : Nat) (h1 : j < (rowsOf out).length) (h2 : j < s.sids.length),
      (rowsOf out)[j].mask = true ∧ (rowsOf out)[j].plate = initialPlateName ∧ s.sids[j] = s.sids[i] := by
  obtain ⟨sel, hsel, hsl, hol, hget⟩ := sparseCover_getElem h hl1
  obtain ⟨j, h1, h2, hs, he⟩ := coverSel_samples hsel (hl2.trans hl1.symm) i hi
  have hm : ((rowsOf out)[j]'(by omega)).mask = true := by rw [(hget j (by omega) (by omega) h1).2]; exact hs
  exact ⟨j, by omega, h2, hm, (sparseCover_plates h _ (List.getElem_mem _)).1 hm, he⟩

/-- B3 on the generated screen: every treatment id occurs in an observed row -/
theorem sparseCover_treatments {reveal : Bool} {log : List Nat} {s out : Screen} (h : sparseCover reveal log s = .ok out)
    (hl1 : s.tids.length = (rowsOf s).length) (t : List Int) (ht : t ∈ s.tids) (x : Int) (hx : x ∈ t) :
    ∃ (j : Nat) (h1 : j < (rowsOf out).length) (h2 : j < s.tids.length),
      (rowsOf out)[j].mask = true ∧ (rowsOf out)[j].plate = initialPlateName ∧ x ∈ s.tids[j] := by
  obtain ⟨sel, hsel, hsl, hol, hget⟩ := sparseCover_getElem h hl1
  obtain ⟨j, h1, h2, hs, he⟩ := coverSel_treatments hsel t ht x hx
  have hm : ((rowsOf out)[j]'(by omega)).mask = true := by rw [(hget j (by omega) (by omega) h1).2]; exact hs
  exact ⟨j, by omega, h2, hm, (sparseCover_plates h _ (List.getElem_mem _)).1 hm, he⟩

end Batchie.Prep
