/-
  C13: `MergeMinPlateSmoother` on class selections (P1-P3).
-/
import Batchie.Lemmas.PrepMerge
namespace Batchie.Prep
open Batchie.Proto Batchie.Screen

/-! ### `heappop` on class selections -/

theorem map_erase_injOn {α β : Type} [BEq α] [LawfulBEq α] [BEq β] [LawfulBEq β] (c : α → β) (l : List α) (x : α)
    (hinj : ∀ a ∈ l, c a = c x → a = x) : (l.map c).erase (c x) = (l.erase x).map c := by
  induction l with
  | nil => rfl
  | cons a l ih =>
    rw [List.map_cons, List.erase_cons, List.erase_cons]
    by_cases h : a = x
    · subst h; simp
    · have h' : c a ≠ c x := fun e => h (hinj a List.mem_cons_self e)
      rw [beq_eq_false_iff_ne.mpr h, beq_eq_false_iff_ne.mpr h']
      simp only [Bool.false_eq_true, if_false, List.map_cons]
      rw [ih (fun b hb => hinj b (List.mem_cons_of_mem _ hb))]

theorem popMin_spec {pn ns : List Name} {a : Nat} {v : List Bool} {h1 : List (List Bool)}
    (hsub : ∀ z ∈ ns, z ∈ pn) (h : popMin (ns.map (cls pn)) a = .ok (v, h1)) :
    ∃ x ∈ ns, v = cls pn x ∧ h1 = (ns.erase x).map (cls pn) ∧ ∀ z ∈ ns, pn.count x ≤ pn.count z := by
  unfold popMin at h
  split at h
  · cases h
  · rename_i w hw
    split at h
    · rename_i hall
      injection h with h
      injection h with e1 e2
      subst e1
      have hmem := List.mem_of_find?_eq_some hw
      obtain ⟨x, hx, rfl⟩ := List.mem_map.mp hmem
      refine ⟨x, hx, rfl, ?_, ?_⟩
      · rw [← e2]
        exact map_erase_injOn (cls pn) ns x (fun a ha e => cls_inj (hsub a ha) e)
      · intro z hz
        rw [List.all_eq_true] at hall
        have := hall (cls pn z) (List.mem_map_of_mem hz)
        rw [selSize_cls, selSize_cls] at this
        simpa using this
    · cases h

theorem eq_of_length_le_one {α : Type} {l : List α} (h : l.length ≤ 1) {p q : α} (hp : p ∈ l) (hq : q ∈ l) : p = q := by
  match l, h with
  | [], _ => cases hp
  | [a], _ =>
    rw [List.mem_singleton] at hp hq
    rw [hp, hq]

/-! ### the `while True` loop of one sample -/

/-- what one run of the loop on the plates `ns` achieves -/
structure MMPost (limit : Int) (ns pn pn' : List Name) (ρ : Name → Name) (ns' : List Name) : Prop where
  map : pn' = pn.map ρ
  frame : Frame ns ns' ρ
  nodup : ns'.Nodup
  mem : ∀ z ∈ ns', z ∈ pn'
  stop : ∀ p ∈ ns', ∀ q ∈ ns', p ≠ q → limit < ((pn'.count p + pn'.count q : Nat) : Int)
  size : ∀ p, pn'.count (ρ p) = pn.count p ∨ ((pn'.count (ρ p) : Nat) : Int) ≤ limit

theorem MMPost.id {limit : Int} {ns pn : List Name} (hnd : ns.Nodup) (hsub : ∀ z ∈ ns, z ∈ pn)
    (hstop : ∀ p ∈ ns, ∀ q ∈ ns, p ≠ q → limit < ((pn.count p + pn.count q : Nat) : Int)) :
    MMPost limit ns pn pn id ns :=
  ⟨by simp, Frame.refl ns, hnd, hsub, hstop, fun _ => Or.inl rfl⟩

theorem mmLoop_spec (limit : Int) (fuel : Nat) : ∀ (ns pn : List Name) (pops : List Nat) (pn' : List Name) (pops' : List Nat),
    ns.Nodup → (∀ z ∈ ns, z ∈ pn) → mmLoop limit fuel (ns.map (cls pn)) pops pn = .ok (pn', pops') →
    ∃ ρ ns', MMPost limit ns pn pn' ρ ns' := by
  induction fuel with
  | zero =>
    intro ns pn pops pn' pops' hnd hsub h
    unfold mmLoop at h
    split at h
    · rename_i hlen
      injection h with h; injection h with e1 e2; subst e1
      rw [List.length_map] at hlen
      exact ⟨id, ns, MMPost.id hnd hsub (fun p hp q hq hpq => absurd (eq_of_length_le_one hlen hp hq) hpq)⟩
    · cases h
  | succ fuel ih =>
    intro ns pn pops pn' pops' hnd hsub h
    unfold mmLoop at h
    split at h
    · rename_i hlen
      injection h with h; injection h with e1 e2; subst e1
      rw [List.length_map] at hlen
      exact ⟨id, ns, MMPost.id hnd hsub (fun p hp q hq hpq => absurd (eq_of_length_le_one hlen hp hq) hpq)⟩
    · split at h
      · rename_i a b rest
        obtain ⟨⟨pa, h1⟩, hpa, h⟩ := bind_ok h
        obtain ⟨⟨pb, h2⟩, hpb, h⟩ := bind_ok h
        simp only [] at h
        obtain ⟨x, hx, rfl, rfl, hminx⟩ := popMin_spec hsub hpa
        have hnd1 : (ns.erase x).Nodup := hnd.erase x
        have hsub1 : ∀ z ∈ ns.erase x, z ∈ pn := fun z hz => hsub z (List.mem_of_mem_erase hz)
        obtain ⟨y, hy, rfl, rfl, hminy⟩ := popMin_spec hsub1 hpb
        have hy' : y ≠ x ∧ y ∈ ns := hnd.mem_erase_iff.mp hy
        have hxy : x ≠ y := fun e => hy'.1 e.symm
        rw [selSize_cls, selSize_cls] at h
        split at h
        · rename_i hgt
          injection h with h; injection h with e1 e2; subst e1
          refine ⟨id, ns, MMPost.id hnd hsub ?_⟩
          intro p hp q hq hpq
          have hgt' : limit < ((pn.count x + pn.count y : Nat) : Int) := hgt
          by_cases hpx : p = x
          · subst hpx
            have hq' : q ∈ ns.erase p := hnd.mem_erase_iff.mpr ⟨fun e => hpq e.symm, hq⟩
            have := hminy q hq'
            omega
          · have hp' : p ∈ ns.erase x := hnd.mem_erase_iff.mpr ⟨hpx, hp⟩
            have h1 := hminy p hp'
            have h2 := hminx q hq
            omega
        · rename_i hle
          rw [mergeSel_cls] at h
          simp only [] at h
          obtain ⟨hk, hkmem⟩ := mergeKey_spec (pn := pn) (x := x) (y := y) (Or.inl (hsub x hx))
          generalize mergeKey pn x y = k at h hk hkmem
          have hheap : pn.map (fun p => p == y || p == x) :: ((ns.erase x).erase y).map (cls pn)
              = (mergedNames ns x y k).map (cls (pn.map (rho x y k))) := by
            unfold mergedNames
            rw [List.map_cons, merged_eq_cls pn hk]
            congr 1
            apply List.map_congr_left
            intro z hz
            have hz1 := hnd1.mem_erase_iff.mp hz
            have hz2 := hnd.mem_erase_iff.mp hz1.2
            exact (cls_rho_other pn hk hz2.1 hz1.1).symm
          rw [hheap] at h
          obtain ⟨ρ2, ns2, post⟩ := ih _ _ _ _ _ (nodup_mergedNames hnd hk) (mem_map_of_frame_names hnd hsub hx hy'.2 hk) h
          refine ⟨ρ2 ∘ rho x y k, ns2, ?_, (frame_merge hnd hx hy'.2 hk).comp post.frame, post.nodup, post.mem, post.stop, ?_⟩
          · rw [post.map, List.map_map]
          · intro p
            rcases post.size (rho x y k p) with h1 | h1
            · by_cases hp : p = x ∨ p = y
              · right
                have : rho x y k p = k := by rcases hp with rfl | rfl; exact rho_left; exact rho_right
                simp only [Function.comp]
                rw [h1, this, count_rho_key pn hk hxy]
                have hle' : ¬ (limit < ((pn.count x + pn.count y : Nat) : Int)) := hle
                omega
              · left
                have hp1 : p ≠ x := fun e => hp (Or.inl e)
                have hp2 : p ≠ y := fun e => hp (Or.inr e)
                simp only [Function.comp]
                rw [h1, rho_other hp1 hp2, count_rho_other pn hk hp1 hp2]
            · right; exact h1
      · cases h

/-! ### one sample, all samples -/

/-- rows of sample `x` on different plates: the two plates together exceed the limit -/
def Done (sids : List Int) (limit : Int) (x : Int) (pn : List Name) : Prop :=
  ∀ p q, (p, x) ∈ pn.zip sids → (q, x) ∈ pn.zip sids → p ≠ q → limit < ((pn.count p + pn.count q : Nat) : Int)

/-- what a sequence of within-sample merges achieves: a renaming that only identifies plates of the same sample, and
    every plate is either of unchanged size or within the limit -/
structure MMRel (sids : List Int) (limit : Int) (pn pn' : List Name) (ρ : Name → Name) : Prop where
  map : pn' = pn.map ρ
  samp : ∀ p s q t, (p, s) ∈ pn.zip sids → (q, t) ∈ pn.zip sids → ρ p = ρ q → p = q ∨ s = t
  size : ∀ p, pn'.count (ρ p) = pn.count p ∨ ((pn'.count (ρ p) : Nat) : Int) ≤ limit

theorem MMRel.refl (sids : List Int) (limit : Int) (pn : List Name) : MMRel sids limit pn pn id :=
  ⟨by simp, fun _ _ _ _ _ _ h => Or.inl h, fun _ => Or.inl rfl⟩

theorem MMRel.comp {sids : List Int} {limit : Int} {pn pn1 pn2 : List Name} {ρ1 ρ2 : Name → Name}
    (h1 : MMRel sids limit pn pn1 ρ1) (h2 : MMRel sids limit pn1 pn2 ρ2) : MMRel sids limit pn pn2 (ρ2 ∘ ρ1) where
  map := by rw [h2.map, h1.map, List.map_map]
  samp p s q t hp hq h := by
    have hp1 : (ρ1 p, s) ∈ pn1.zip sids := by rw [h1.map]; exact mem_zip_map_left.mpr ⟨p, hp, rfl⟩
    have hq1 : (ρ1 q, t) ∈ pn1.zip sids := by rw [h1.map]; exact mem_zip_map_left.mpr ⟨q, hq, rfl⟩
    rcases h2.samp _ _ _ _ hp1 hq1 h with e | e
    · exact h1.samp p s q t hp hq e
    · exact Or.inr e
  size p := by
    rcases h2.size (ρ1 p) with e | e
    · rcases h1.size p with e1 | e1
      · left; simp only [Function.comp]; rw [e, e1]
      · right; simp only [Function.comp]; rw [e]; exact e1
    · exact Or.inr e

theorem mmSample_step {sids : List Int} {limit : Int} {pn pn' : List Name} {x : Int} {heap : List (List Bool)}
    {pops pops' : List Nat} (hp : platesOfSample sids pn x = .ok heap)
    (hl : mmLoop limit heap.length heap pops pn = .ok (pn', pops')) :
    ∃ ρ, MMRel sids limit pn pn' ρ ∧ Done sids limit x pn' ∧ ∀ x', x' ≠ x → Done sids limit x' pn → Done sids limit x' pn' := by
  obtain ⟨ns, rfl, hnd, hrows, hs⟩ := platesOfSample_spec hp
  have hsub : ∀ z ∈ ns, z ∈ pn := HasRows.mem hrows
  obtain ⟨ρ, ns', post⟩ := mmLoop_spec limit _ ns pn pops pn' pops' hnd hsub hl
  have hs' : SInv sids x ns' pn' := by rw [post.map]; exact hs.frame post.frame
  refine ⟨ρ, ⟨post.map, ?_, post.size⟩, ?_, ?_⟩
  · intro p s q t hp hq e
    by_cases hpn : p ∈ ns <;> by_cases hqn : q ∈ ns
    · right; rw [(hs p s hp).mp hpn, (hs q t hq).mp hqn]
    · exfalso; rw [post.frame.fix q hqn] at e
      exact hqn (e ▸ post.frame.sub _ (post.frame.into p hpn))
    · exfalso; rw [post.frame.fix p hpn] at e
      exact hpn (e ▸ post.frame.sub _ (post.frame.into q hqn))
    · left; rw [post.frame.fix p hpn, post.frame.fix q hqn] at e; exact e
  · intro p q hp hq hpq
    exact post.stop p ((hs' p x hp).mpr rfl) q ((hs' q x hq).mpr rfl) hpq
  · intro x' hx' hd p' q' hp' hq' hpq
    rw [post.map] at hp' hq'
    obtain ⟨p, hp, rfl⟩ := mem_zip_map_left.mp hp'
    obtain ⟨q, hq, rfl⟩ := mem_zip_map_left.mp hq'
    have hpn : p ∉ ns := fun h => hx' ((hs p x' hp).mp h)
    have hqn : q ∉ ns := fun h => hx' ((hs q x' hq).mp h)
    rw [post.frame.fix p hpn, post.frame.fix q hqn] at hpq ⊢
    rw [post.map, post.frame.count pn hpn, post.frame.count pn hqn]
    exact hd p q hp hq hpq

theorem mmSamples_spec (sids : List Int) (limit : Int) : ∀ (xs : List Int) (pops : List Nat) (pn pn' : List Name),
    mmSamples sids limit xs pops pn = .ok pn' →
    ∃ ρ, MMRel sids limit pn pn' ρ ∧ (∀ x ∈ xs, Done sids limit x pn') ∧ ∀ x', Done sids limit x' pn → Done sids limit x' pn' := by
  intro xs
  induction xs with
  | nil =>
    intro pops pn pn' h
    unfold mmSamples at h
    injection h with h; subst h
    exact ⟨id, MMRel.refl _ _ _, by simp, fun _ h => h⟩
  | cons x xs ih =>
    intro pops pn pn' h
    unfold mmSamples at h
    obtain ⟨heap, hheap, h⟩ := bind_ok h
    obtain ⟨⟨pn1, pops1⟩, hloop, h⟩ := bind_ok h
    simp only [] at h
    obtain ⟨ρ1, rel1, done1, pres1⟩ := mmSample_step hheap hloop
    obtain ⟨ρ2, rel2, done2, pres2⟩ := ih pops1 pn1 pn' h
    refine ⟨ρ2 ∘ ρ1, rel1.comp rel2, ?_, ?_⟩
    · intro x' hx'
      rcases List.mem_cons.mp hx' with rfl | hx'
      · exact pres2 _ done1
      · exact done2 x' hx'
    · intro x' hd
      apply pres2
      by_cases e : x' = x
      · subst e; exact done1
      · exact pres1 x' e hd

/-! ### the statements of P1-P3 for `mmSamples` -/

/-- (P1) only the labels change -/
theorem mmSamples_length {sids : List Int} {limit : Int} {xs : List Int} {pops : List Nat} {pn pn' : List Name}
    (h : mmSamples sids limit xs pops pn = .ok pn') : pn'.length = pn.length := by
  obtain ⟨ρ, rel, _⟩ := mmSamples_spec sids limit xs pops pn pn' h
  rw [rel.map, List.length_map]

/-- (P2) the merges coarsen the plate partition, and only within a sample -/
theorem mmSamples_coarsen {sids : List Int} {limit : Int} {xs : List Int} {pops : List Nat} {pn pn' : List Name}
    (h : mmSamples sids limit xs pops pn = .ok pn') :
    ∃ ρ : Name → Name, pn' = pn.map ρ ∧
      ∀ p s q t, (p, s) ∈ pn.zip sids → (q, t) ∈ pn.zip sids → ρ p = ρ q → p = q ∨ s = t := by
  obtain ⟨ρ, rel, _⟩ := mmSamples_spec sids limit xs pops pn pn' h
  exact ⟨ρ, rel.map, rel.samp⟩

/-- (P3a) MergeMin stops only when it must: two different plates of one sample together exceed the limit -/
theorem mmSamples_stops {sids : List Int} {limit : Int} {pops : List Nat} {pn pn' : List Name}
    (h : mmSamples sids limit (uniqueSorted sids) pops pn = .ok pn') :
    ∀ p s q t, (p, s) ∈ pn'.zip sids → (q, t) ∈ pn'.zip sids → s = t → p ≠ q →
      limit < ((pn'.filter (· == p)).length + (pn'.filter (· == q)).length : Int) := by
  obtain ⟨ρ, _, done, _⟩ := mmSamples_spec sids limit _ pops pn pn' h
  intro p s q t hp hq hst hpq
  subst hst
  have hs : s ∈ uniqueSorted sids := mem_uniqueSorted.mpr (List.of_mem_zip hp).2
  rw [← count_eq_length_filter, ← count_eq_length_filter]
  have := done s hs p q hp hq hpq
  omega

theorem mem_zip_map_self {α β : Type} {l : List α} {f : α → β} {a : α} {b : β} (h : (a, b) ∈ l.zip (l.map f)) :
    a ∈ l ∧ b = f a := by
  induction l with
  | nil => simp at h
  | cons c l ih =>
    simp only [List.map_cons, List.zip_cons_cons, List.mem_cons, Prod.mk.injEq] at h
    rcases h with ⟨rfl, rfl⟩ | h
    · exact ⟨List.mem_cons_self, rfl⟩
    · exact ⟨List.mem_cons_of_mem _ (ih h).1, (ih h).2⟩

theorem count_map_ge (pn : List Name) (ρ : Name → Name) {p q : Name} (hpq : p ≠ q) (e : ρ q = ρ p) :
    pn.count p + pn.count q ≤ (pn.map ρ).count (ρ p) := by
  rw [count_map_eq_countP, List.count_eq_countP, List.count_eq_countP,
    ← countP_or_disjoint (fun a => a == p) (fun a => a == q)]
  · apply List.countP_mono_left
    intro a _ ha
    have : a = p ∨ a = q := by simpa using ha
    rcases this with rfl | rfl
    · simp
    · simp [e]
  · intro a ⟨h1, h2⟩
    have h1 : a = p := by simpa using h1
    have h2 : a = q := by simpa using h2
    exact hpq (h1 ▸ h2)

/-- (P3b) MergeMin never merges beyond the limit: a new plate that unites two old plates is within the limit -/
theorem mmSamples_within {sids : List Int} {limit : Int} {xs : List Int} {pops : List Nat} {pn pn' : List Name}
    (h : mmSamples sids limit xs pops pn = .ok pn') :
    ∀ p p' q q', (p, p') ∈ pn.zip pn' → (q, q') ∈ pn.zip pn' → p' = q' → p ≠ q →
      ((pn'.filter (· == p')).length : Int) ≤ limit := by
  obtain ⟨ρ, rel, _⟩ := mmSamples_spec sids limit xs pops pn pn' h
  intro p p' q q' hp hq e hpq
  rw [rel.map] at hp hq
  obtain ⟨hp1, rfl⟩ := mem_zip_map_self hp
  obtain ⟨hq1, rfl⟩ := mem_zip_map_self hq
  rw [← count_eq_length_filter]
  rcases rel.size p with h1 | h1
  · exfalso
    have h2 := count_map_ge pn ρ hpq e.symm
    rw [← rel.map, h1] at h2
    have : 0 < pn.count q := List.count_pos_iff.mpr hq1
    omega
  · exact h1

end Batchie.Prep
