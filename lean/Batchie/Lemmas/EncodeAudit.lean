/-
  C01 helper lemmas added by the audit: every key handed to the treatment encoder is a cell of the screen
  (converse of `allKeys_getElem?`), and the ids *used by the rows* of a freshly encoded screen are the whole dense range.
-/
import Batchie.Lemmas.EncodeAccept

namespace Batchie.Screen
open Batchie.Proto

/-- converse of `allKeys_getElem?`: a key of the encoder's input is the (name, dose) of some cell `(i, c)` -/
theorem allKeys_mem_cell (r : Raw) (hd : r.tdoses.length = r.tnames.length)
    (han : ∀ row ∈ r.tnames, row.length = r.arity) (had : ∀ row ∈ r.tdoses, row.length = r.arity)
    (k : Name × Dose) (hk : k ∈ allKeys r) :
    ∃ (i c : Nat) (hi : i < r.tnames.length) (hc : c < r.arity),
      k = ((r.tnames[i])[c]'(by rw [han _ (List.getElem_mem hi)]; exact hc),
           (r.tdoses[i]'(hd ▸ hi))[c]'(by rw [had _ (List.getElem_mem (hd ▸ hi))]; exact hc)) := by
  obtain ⟨j, hj, rfl⟩ := List.getElem_of_mem hk
  have hlen := length_allKeys r hd
  have hj' : j < r.tnames.length * r.arity := by rw [← hlen]; exact hj
  have hn : 0 < r.tnames.length := by
    rcases Nat.eq_zero_or_pos r.tnames.length with h0 | h0
    · rw [h0] at hj'; simp at hj'
    · exact h0
  have hc : j / r.tnames.length < r.arity := by
    rw [Nat.div_lt_iff_lt_mul hn, Nat.mul_comm]; exact hj'
  have hi : j % r.tnames.length < r.tnames.length := Nat.mod_lt _ hn
  refine ⟨j % r.tnames.length, j / r.tnames.length, hi, hc, ?_⟩
  have h := allKeys_getElem? r hd han had (j % r.tnames.length) (j / r.tnames.length) hi hc
  have hidx : j / r.tnames.length * r.tnames.length + j % r.tnames.length = j := Nat.div_add_mod' j r.tnames.length
  rw [hidx, List.getElem?_eq_getElem hj] at h
  exact Option.some.inj h

/-- two rows of a table with duplicate-free keys that share a key are the same row -/
theorem tmap_id_unique (tm : TMap) (hnd : (tm.map tKey).Nodup) (k : Name × Dose) (a b : Int)
    (ha : (k.1, k.2, a) ∈ tm) (hb : (k.1, k.2, b) ∈ tm) : a = b := by
  have := inj_of_nodup_map tKey tm hnd _ _ ha hb rfl
  exact (Prod.mk.inj (Prod.mk.inj this).2).2

/-! ### exactly when `Screen.mk?` answers `.other` (an id array longer than the data) -/

theorem flatten_length_eq_of_singletons (hits : List (List Int)) (h : ∀ x ∈ hits, x.length = 1) : hits.flatten.length = hits.length := by
  induction hits with
  | nil => rfl
  | cons x hits ih =>
    simp only [List.flatten_cons, List.length_append, List.length_cons]
    rw [ih (fun y hy => h y (by simp [hy])), h x (by simp)]; omega

/-- all rows matched at least once: the flattened result is longer than the data iff some row matched twice or more -/
theorem flatten_length_ne_iff (hits : List (List Int)) (hne : ∀ h ∈ hits, h ≠ []) :
    hits.flatten.length ≠ hits.length ↔ ∃ h ∈ hits, 2 ≤ h.length := by
  constructor
  · intro hlen
    apply Classical.byContradiction
    intro hno
    apply hlen
    apply flatten_length_eq_of_singletons
    intro x hx
    have h1 : 0 < x.length := List.length_pos_iff.mpr (hne x hx)
    have h2 : ¬ 2 ≤ x.length := fun h => hno ⟨x, hx, h⟩
    omega
  · rintro ⟨x, hx, h2⟩ hlen
    have := hits_singletons hits hne hlen
    rw [this] at hx
    obtain ⟨i, _, rfl⟩ := List.mem_map.mp hx
    simp at h2

theorem encodeTreatments_error (ctrl : Name) (xs : List (Name × Dose)) (ex : Option TMap) (e : Err)
    (h : encodeTreatments ctrl xs ex = .error e) : e = .valueError := by
  cases ex <;> simp only [encodeTreatments] at h <;> split at h <;> first | (injection h with h; exact h.symm) | cases h

theorem encode1d_error (xs : List Name) (ex : Option SMap) (e : Err) (h : encode1d xs ex = .error e) : e = .valueError := by
  cases ex <;> simp only [encode1d] at h <;> split at h <;> first | (injection h with h; exact h.symm) | cases h

/-- the mapping the encoders use: the supplied one, else the fresh one -/
def effTMap (r : Raw) : TMap := match r.tmap with | some m => m | none => freshTMap r.ctrl (allKeys r)
def effSMap (r : Raw) : SMap := match r.smap with | some m => m | none => freshSMap r.snames

/-- **`Screen.mk?` answers `.other` exactly when** every shape / density check passes, every cell key is found in the treatment
    mapping, and either some cell key of the data is listed TWICE OR MORE in that mapping, or (all cell keys listed once and) every
    sample name is found but some sample name of the data is listed twice or more in the sample mapping. -/
theorem mk?_other_iff (r : Raw) :
    mk? r = .error .other ↔
      WellShaped r ∧ tmapBad r = false ∧ smapBad r = false ∧ (∀ k ∈ allKeys r, tLookup (effTMap r) k ≠ []) ∧
        ((∃ k ∈ allKeys r, 2 ≤ (tLookup (effTMap r) k).length) ∨
         ((∀ k ∈ r.snames, sLookup (effSMap r) k ≠ []) ∧ ∃ k ∈ r.snames, 2 ≤ (sLookup (effSMap r) k).length)) := by
  rw [mk?_eq_mkStaged]
  unfold mkStaged
  constructor
  · intro h
    split at h; · cases h
    rename_i c1
    split at h; · cases h
    rename_i c2
    split at h; · cases h
    rename_i c3
    split at h; · cases h
    rename_i c4
    split at h; · cases h
    rename_i c5
    split at h; · cases h
    rename_i c6
    split at h; · cases h
    rename_i c7
    split at h; · cases h
    rename_i c8
    simp only [Bool.or_eq_true, bne_iff_ne, ne_eq, not_or, Decidable.not_not, List.any_eq_true, not_exists, not_and,
      Bool.not_eq_true, Bool.not_eq_eq_eq_not, Bool.not_true] at c1 c2 c3 c4 c5 c6 c7 c8
    have w : WellShaped r :=
      { len_tdoses := c1.1.1, len_snames := c1.1.2, len_pnames := c1.2, arity_tnames := c2.1, arity_tdoses := c2.2,
        mask_needs_obs := c3, len_obs := c4, len_mask := c5, uniform := by simpa using c6 }
    cases ht : encodeTreatments r.ctrl (allKeys r) r.tmap with
    | error e =>
      rw [ht, except_bind_error] at h
      injection h with h
      have := encodeTreatments_error _ _ _ _ ht
      rw [h] at this; cases this
    | ok t =>
      rw [ht, except_bind_ok] at h
      obtain ⟨tf, tm⟩ := t
      obtain ⟨htm, hcov, hids⟩ := (encodeTreatments_ok_iff _ _ _ _ _).mp ht
      have htm' : tm = effTMap r := htm
      subst htm'
      have hne : ∀ x ∈ (allKeys r).map (tLookup (effTMap r)), x ≠ [] := by
        intro x hx; obtain ⟨k, hk, rfl⟩ := List.mem_map.mp hx; exact hcov k hk
      refine ⟨w, c7, c8, hcov, ?_⟩
      split at h
      · rename_i c9
        left
        have hl : tf.length ≠ ((allKeys r).map (tLookup (effTMap r))).length := by
          simp only [bne_iff_ne, ne_eq] at c9
          rw [List.length_map, length_allKeys r w.len_tdoses]; exact c9
        rw [hids] at hl
        obtain ⟨x, hx, h2⟩ := (flatten_length_ne_iff _ hne).mp hl
        obtain ⟨k, hk, rfl⟩ := List.mem_map.mp hx
        exact ⟨k, hk, h2⟩
      · rename_i c9
        right
        cases hs : encode1d r.snames r.smap with
        | error e =>
          rw [hs, except_bind_error] at h
          injection h with h
          have := encode1d_error _ _ _ hs
          rw [h] at this; cases this
        | ok sm =>
          rw [hs, except_bind_ok] at h
          obtain ⟨sf, sm⟩ := sm
          obtain ⟨hsm, hscov, hsids⟩ := (encode1d_ok_iff _ _ _ _).mp hs
          have hsm' : sm = effSMap r := hsm
          subst hsm'
          refine ⟨hscov, ?_⟩
          split at h
          · rename_i c10
            have hne' : ∀ x ∈ r.snames.map (sLookup (effSMap r)), x ≠ [] := by
              intro x hx; obtain ⟨k, hk, rfl⟩ := List.mem_map.mp hx; exact hscov k hk
            have hl : sf.length ≠ (r.snames.map (sLookup (effSMap r))).length := by
              simp only [bne_iff_ne, ne_eq] at c10
              rw [List.length_map, w.len_snames]; exact c10
            rw [hsids] at hl
            obtain ⟨x, hx, h2⟩ := (flatten_length_ne_iff _ hne').mp hl
            obtain ⟨k, hk, rfl⟩ := List.mem_map.mp hx
            exact ⟨k, hk, h2⟩
          · exfalso
            cases hp : encode1d r.pnames none with
            | error e =>
              rw [hp, except_bind_error] at h
              injection h with h
              have := encode1d_error _ _ _ hp
              rw [h] at this; cases this
            | ok pm => rw [hp, except_bind_ok] at h; cases h
  · rintro ⟨w, c7, c8, hcov, hdup⟩
    rw [if_neg (by simp [w.len_tdoses, w.len_snames, w.len_pnames])]
    rw [if_neg (by
      simp only [Bool.or_eq_true, List.any_eq_true, bne_iff_ne, ne_eq, not_or, not_exists, not_and, Decidable.not_not]
      exact ⟨w.arity_tnames, w.arity_tdoses⟩)]
    rw [if_neg (by simp [w.mask_needs_obs])]
    rw [if_neg (by simp [w.len_obs])]
    rw [if_neg (by simp [w.len_mask])]
    rw [if_neg (by simp [w.uniform])]
    rw [if_neg (by simp [c7])]
    rw [if_neg (by simp [c8])]
    have ht : encodeTreatments r.ctrl (allKeys r) r.tmap = .ok (((allKeys r).map (tLookup (effTMap r))).flatten, effTMap r) :=
      (encodeTreatments_ok_iff _ _ _ _ _).mpr ⟨rfl, hcov, rfl⟩
    have hne : ∀ x ∈ (allKeys r).map (tLookup (effTMap r)), x ≠ [] := by
      intro x hx; obtain ⟨k, hk, rfl⟩ := List.mem_map.mp hx; exact hcov k hk
    rw [ht, except_bind_ok]
    by_cases hd : ∃ k ∈ allKeys r, 2 ≤ (tLookup (effTMap r) k).length
    · obtain ⟨k, hk, h2⟩ := hd
      have := (flatten_length_ne_iff _ hne).mpr ⟨_, List.mem_map.mpr ⟨k, hk, rfl⟩, h2⟩
      rw [List.length_map, length_allKeys r w.len_tdoses] at this
      rw [if_pos (by simpa using this)]
    · have hl : ((allKeys r).map (tLookup (effTMap r))).flatten.length = r.tnames.length * r.arity := by
        have := flatten_length_ne_iff _ hne
        have h' : ¬ ((allKeys r).map (tLookup (effTMap r))).flatten.length ≠ ((allKeys r).map (tLookup (effTMap r))).length := by
          rw [this]; rintro ⟨x, hx, h2⟩
          obtain ⟨k, hk, rfl⟩ := List.mem_map.mp hx
          exact hd ⟨k, hk, h2⟩
        rw [List.length_map, length_allKeys r w.len_tdoses] at h'
        exact Decidable.not_not.mp h'
      rw [if_neg (by simp [hl])]
      rcases hdup with hd' | ⟨hscov, k, hk, h2⟩
      · exact absurd hd' hd
      · have hs : encode1d r.snames r.smap = .ok ((r.snames.map (sLookup (effSMap r))).flatten, effSMap r) :=
          (encode1d_ok_iff _ _ _ _).mpr ⟨rfl, hscov, rfl⟩
        have hne' : ∀ x ∈ r.snames.map (sLookup (effSMap r)), x ≠ [] := by
          intro x hx; obtain ⟨k, hk, rfl⟩ := List.mem_map.mp hx; exact hscov k hk
        rw [hs, except_bind_ok]
        have := (flatten_length_ne_iff _ hne').mpr ⟨_, List.mem_map.mpr ⟨k, hk, rfl⟩, h2⟩
        rw [List.length_map, w.len_snames] at this
        rw [if_pos (by simpa using this)]

/-- a key is listed at most once in a table of pairwise different keys -/
theorem tLookup_length_le_one (tm : TMap) (hnd : (tm.map tKey).Nodup) (k : Name × Dose) : (tLookup tm k).length ≤ 1 := by
  cases h : tLookup tm k with
  | nil => simp
  | cons i rest =>
    have hm : (k.1, k.2, i) ∈ tm := mem_of_mem_tLookup tm k i (by rw [h]; simp)
    have := tLookup_of_mem tm hnd k i hm
    rw [h] at this; rw [this]; simp

theorem sLookup_length_le_one (sm : SMap) (hnd : (sm.map (·.1)).Nodup) (k : Name) : (sLookup sm k).length ≤ 1 := by
  cases h : sLookup sm k with
  | nil => simp
  | cons i rest =>
    have hm : (k, i) ∈ sm := mem_of_mem_sLookup sm k i (by rw [h]; simp)
    have := sLookup_of_mem sm hnd k i hm
    rw [h] at this; rw [this]; simp

end Batchie.Screen
